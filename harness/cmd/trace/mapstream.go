package main

import (
	"encoding/binary"
	"fmt"
	"math/rand"
	"path/filepath"
	"sort"
	"strings"

	"github.com/fxamacker/circlehash"
	"github.com/onflow/atree"

	"verifharness/hx"
)

func init() {
	streams["map"] = func(c *Config) *hx.Stats { return mapStreamX(c, "map", false) }
	streams["mapcollide"] = func(c *Config) *hx.Stats { return mapStreamX(c, "mapcollide", true) }
	streams["mpersist"] = func(c *Config) *hx.Stats { return mapStreamX(c, "mpersist", true) }
}

type mapEnv struct {
	w       *hx.W
	st      *hx.Stats
	cfg     *Config
	rng     *rand.Rand
	T       uint32
	ledger  *hx.Ledger
	ps      *atree.PersistentSlabStorage
	rec     *hx.RecStorage
	m       *atree.OrderedMap
	b       atree.DigesterBuilder
	addr    atree.Address
	ty      hx.TI
	L       uint
	climit  uint32
	shadow  map[hx.TV]hx.TV
	// insSeq: when each key now in the map was INSERTED (not overwritten): fully colliding keys must be enumerated in
	// that order (C13).  A key without an entry (restored by a crash) is not judged.
	insSeq  map[hx.TV]uint64
	insCtr  uint64
	keyUniv []hx.TV
	nextPay uint64
	prog    int
	step    int
	maxKey  uint32
	maxElem uint32
	// persistence (C03)
	hip         atree.HashInputProvider
	persist     bool
	hasCommit   bool
	committed   map[hx.TV]hx.TV
	committedTy hx.TI
}

func (e *mapEnv) violation(prop, what string) {
	e.st.Violations = append(e.st.Violations, hx.Violation{
		Property: prop, Stream: e.st.Stream, Seed: e.cfg.Seed, Program: e.prog, Step: e.step, What: what, Trace: e.w.Path, Line: e.w.Lines,
	})
}

func (e *mapEnv) emitEffects() {
	e.w.L("EFF %s", hx.NetEffect(e.rec.Effs))
	for _, id := range hx.StoredIDs(e.rec.Effs) {
		s, ok, err := e.ps.Retrieve(id)
		if err != nil || !ok {
			e.w.L("SLB MISSING(%s)", hx.IDStr(id))
			continue
		}
		e.w.L("SLB %s", atree.VerifDumpSlab(s, hx.Describe))
	}
	e.rec.Reset()
}

// snap: every slab of the map as the storage serves it now + the exact pending write set (taken
// immediately before and after a request that is rejected).
func (e *mapEnv) snap() string {
	return hx.DumpTree(e.ps, atree.VerifMapRoot(e.m)) + "\n" + deltaKeys(e.ps)
}

func (e *mapEnv) dispose(s atree.Storable) {
	if id, ok := s.(atree.SlabIDStorable); ok {
		e.w.L("DSP id=%s", hx.IDStr(atree.SlabID(id)))
		_ = e.ps.Remove(atree.SlabID(id))
	}
}

func (e *mapEnv) keyStr(k hx.TV) string {
	digs, err := hx.DigestsWith(e.b, e.hip, k)
	if err != nil {
		panic(err)
	}
	parts := make([]string, len(digs))
	for i, d := range digs {
		parts[i] = fmt.Sprintf("%d", d)
	}
	return fmt.Sprintf("%d:%d@%s", k.Size, k.Pay, strings.Join(parts, ","))
}

func (e *mapEnv) genValue(prof int) hx.TV {
	var size uint32
	m := e.maxElem
	switch prof {
	case 0:
		size = uint32(2 + e.rng.Intn(12))
	case 1:
		size = uint32(10 + e.rng.Intn(int(m/2)))
	case 2:
		size = m - 30 + uint32(e.rng.Intn(40)) // around the value limit for small keys
	case 3:
		size = m/2 + uint32(e.rng.Intn(6))
	default:
		return e.genValue(e.rng.Intn(4))
	}
	if size < 2 {
		size = 2
	}
	e.nextPay++
	pay := e.nextPay
	for !hx.ValidTV(size, pay) {
		pay %= 200
		if !hx.ValidTV(size, pay) {
			size++
		}
	}
	return hx.TV{Size: size, Pay: pay}
}

func (e *mapEnv) resolve(s atree.Storable) (hx.TV, bool) {
	switch x := s.(type) {
	case hx.TV:
		return x, true
	case atree.SlabIDStorable:
		sl, ok, err := e.ps.Retrieve(atree.SlabID(x))
		if err != nil || !ok {
			return hx.TV{}, false
		}
		cs := sl.ChildStorables()
		if len(cs) == 1 {
			tv, ok := cs[0].(hx.TV)
			return tv, ok
		}
	}
	return hx.TV{}, false
}

func mapStreamX(cfg *Config, name string, collide bool) *hx.Stats {
	st := hx.NewStats(name, cfg.Seed)
	rng := rand.New(rand.NewSource(cfg.Seed*6151 + 17 + int64(len(name))))
	nProg := int(20 * cfg.Scale)
	w := hx.NewW(filepath.Join(cfg.Out, fmt.Sprintf("%s-%d.trace", name, cfg.Seed)))
	defer w.Close()
	st.TraceFiles = append(st.TraceFiles, w.Path)
	thresholds := []uint32{256, 256, 1024, 256, 512, 1024, 257, 32768, 511, 0}
	seen := map[string]bool{}
	for p := 0; p < nProg; p++ {
		T := thresholds[p%len(thresholds)]
		if T == 0 {
			T = 256 + uint32(rng.Intn(4000))
		}
		e := &mapEnv{w: w, st: st, cfg: cfg, rng: rng, T: T, prog: p, persist: name == "mpersist"}
		nOps := 250 + rng.Intn(450)
		if e.persist {
			nOps = 150 + rng.Intn(200)
		}
		if T >= 16384 {
			nOps = 200
		}
		mode := 0
		if collide {
			mode = 1 + rng.Intn(6)
		}
		if e.persist {
			mode = []int{0, 0, 2, 3}[p%4] // a reload needs a digester a fresh handle can rebuild: real, or the same table
		}
		if collide && !e.persist && p%4 == 1 {
			mode = 4 // every run refuses inserts at a small collision limit (C12, C18), whatever the seed
		}
		valProf, opProf := rng.Intn(5), rng.Intn(3)
		if collide && !e.persist && p%4 == 0 {
			// external collision groups of LARGE elements that collapse back to a single element:
			// first-level collisions only, values just over half the element limit, grow-then-shrink
			mode, valProf, opProf = 7, 3, 1
		}
		if collide && !e.persist && p%4 == 2 {
			// collision groups that grow ONLY through overwrites: small values first, then existing keys
			// are overwritten with values near the element limit and no new key enters the group
			valProf, opProf = 0, 3
		}
		runMapProgram(e, nOps, mode, valProf, opProf)
		st.Programs++
		seen[fmt.Sprintf("%d/%d/%d", T, mode, e.step)] = true
		if len(st.Violations) > 20 {
			break
		}
	}
	st.TraceLines = w.Lines
	st.Distinct = len(seen)
	if name == "mapcollide" && cfg.Scale >= 1 && st.HarnessErr == "" && len(st.Violations) == 0 && st.Dist["collision-limit-refused"] == 0 {
		st.HarnessErr = "mapcollide: no insert was refused at the collision limit"
	}
	atree.VerifSetThreshold(1024)
	atree.VerifSetMaxCollisionLimitPerDigest(255)
	return st
}

func mix(a, b, c uint64) uint64 {
	x := a*0x9E3779B97F4A7C15 ^ (b+1)*0xC2B2AE3D27D4EB4F ^ (c+7)*0x165667B19E3779F9
	x ^= x >> 29
	x *= 0xBF58476D1CE4E5B9
	x ^= x >> 32
	return x
}

func runMapProgram(e *mapEnv, nOps, mode, valProf, opProf int) {
	atree.VerifSetThreshold(e.T)
	_, _, _, _, maxElem, maxKey := atree.VerifThresholds()
	e.maxElem, e.maxKey = maxElem, maxKey
	e.ledger = hx.NewLedger()
	e.ps = hx.NewStorage(e.ledger)
	e.rec = hx.NewRecStorage(e.ps)
	e.addr = hx.MkAddr(uint64(1 + e.rng.Intn(3)))
	e.ty = hx.TI(uint64(e.rng.Intn(100)))
	e.shadow = map[hx.TV]hx.TV{}
	e.insSeq = map[hx.TV]uint64{}
	e.climit = 255
	salt := uint64(e.rng.Int63())
	// digest modes: 0 real; 1 collisions at level 0 only; 2 at deeper levels too; 3 all levels tiny
	// (full collisions); 4 level-0 tiny with a small collision limit; 5 few levels
	e.hip = hx.HashInput
	switch mode {
	case 0:
		e.b = atree.NewDefaultDigesterBuilder()
		e.L = 4
	case 6:
		// the library's own (pooled) digester with a non-injective hash input: real collisions on
		// all levels between keys of one bucket
		e.b = atree.NewDefaultDigesterBuilder()
		e.L = 4
		e.hip = hx.HashInputBucket
	default:
		e.L = 4
		alph := []uint64{1 << 62, 1 << 62, 1 << 62, 1 << 62}
		switch mode {
		case 1:
			alph = []uint64{3 + uint64(e.rng.Intn(6)), 1 << 62, 1 << 62, 1 << 62}
		case 2:
			alph = []uint64{4, 2, 3, 1 << 62}
		case 3:
			alph = []uint64{3, 2, 2, 2}
		case 4:
			alph = []uint64{2 + uint64(e.rng.Intn(3)), 1 << 62, 1 << 62, 1 << 62}
			e.climit = uint32(e.rng.Intn(4))
		case 5:
			e.L = uint(1 + e.rng.Intn(3))
			alph = []uint64{5, 3, 2, 2}
		case 7:
			// about one key per first-level digest: singles, pairs and triples side by side, so that
			// multi-slab maps contain external groups that collapse when one member is removed
			alph = []uint64{150, 1 << 62, 1 << 62, 1 << 62}
		}
		// every second program uses the boundary digest values: the smallest bucket of a level hashes
		// to 0 and the largest to 2^64-1
		edge := e.rng.Intn(2) == 0
		e.b = &hx.TableDigesterBuilder{L: e.L, Fn: func(k hx.TV, l uint) uint64 {
			d := mix(k.Pay, uint64(l), salt) % alph[l]
			if edge && d == 0 {
				return 0
			}
			if edge && d == alph[l]-1 {
				return ^uint64(0)
			}
			return d * 1000003
		}}
	}
	atree.VerifSetMaxCollisionLimitPerDigest(e.climit)
	w := e.w
	w.L("CFG T=%d", e.T)
	m, err := atree.NewMap(e.rec, e.addr, e.b, e.ty)
	if err != nil {
		e.st.HarnessErr = "NewMap: " + err.Error()
		return
	}
	e.m = m
	// the seed must be the documented function of the root slab ID (C04)
	rid := m.SlabID()
	ra, ri := rid.Address(), rid.Index()
	wantSeed := circlehash.Hash64Uint64x2(binary.LittleEndian.Uint64(ra[:]), binary.LittleEndian.Uint64(ri[:]), 0)
	if m.Seed() != wantSeed {
		e.violation("C04", fmt.Sprintf("map seed %d is not the hash of its root slab ID (%d)", m.Seed(), wantSeed))
	}
	w.L("MNEW h=0 addr=%d ty=%d L=%d climit=%d seed=%d", e.addr[7], uint64(e.ty), e.L, e.climit, m.Seed())
	e.emitEffects()
	e.st.Dist[fmt.Sprintf("T=%d", e.T)]++
	e.st.Dist[fmt.Sprintf("digestMode=%d", mode)]++

	nKeys := 20 + e.rng.Intn(300)
	if mode == 7 {
		nKeys = 150 + e.rng.Intn(100)
	}
	for i := 0; i < nKeys; i++ {
		size := uint32(3 + e.rng.Intn(14))
		if e.rng.Intn(10) == 0 {
			size = e.maxKey - uint32(e.rng.Intn(3))
		}
		pay := uint64(i + 1)
		for !hx.ValidTV(size, pay) {
			size++
		}
		e.keyUniv = append(e.keyUniv, hx.TV{Size: size, Pay: pay})
	}

	for e.step = 0; e.step < nOps; e.step++ {
		if e.persist && e.persistStep() {
			continue
		}
		k := e.keyUniv[e.rng.Intn(len(e.keyUniv))]
		_, present := e.shadow[k]
		r := e.rng.Intn(100)
		var op string
		switch opProf {
		case 0:
			switch {
			case r < 55:
				op = "set"
			case r < 75:
				op = "rem"
			default:
				op = "read"
			}
		case 1: // grow then shrink
			if (e.step/80)%2 == 0 {
				if r < 80 {
					op = "set"
				} else {
					op = "read"
				}
			} else {
				if r < 75 {
					op = "rem"
				} else {
					op = "read"
				}
			}
		case 3: // fill with small values, then overwrite present keys with large ones
			if e.step < nOps/3 {
				if r < 85 {
					op = "set"
				} else {
					op = "read"
				}
			} else {
				op = "read"
				if r < 80 && len(e.shadow) > 0 {
					op = "set"
					valProf = 2
					pk := make([]hx.TV, 0, len(e.shadow))
					for x := range e.shadow {
						pk = append(pk, x)
					}
					sort.Slice(pk, func(i, j int) bool { return pk[i].Pay < pk[j].Pay })
					k = pk[e.rng.Intn(len(pk))]
					present = true
				}
			}
		default:
			switch {
			case r < 40:
				op = "set"
			case r < 65:
				op = "rem"
			case r < 67:
				op = "pop"
			case r < 70:
				op = "type"
			default:
				op = "read"
			}
		}
		e.st.Hit("op:" + op)
		switch op {
		case "set":
			v := e.genValue(valProf)
			snapBefore := ""
			if !present && e.climit < 255 {
				// may be refused: the tree and the pending write set immediately before the request
				snapBefore = e.snap()
			}
			w.L("OP mset h=0 k=%s v=%d:%d", e.keyStr(k), v.Size, v.Pay)
			old, err := e.m.Set(hx.CompareKey, e.hip, k, v)
			if err != nil {
				w.L("OBS err:%s", hx.ErrKind(err))
				if hx.ErrKind(err) == "CollisionLimit:Fatal" {
					e.st.Hit("collision-limit-refused")
					if d := hx.ErrNames(err, "CollisionLimit", e.climit); d != "" {
						e.violation("C18", fmt.Sprintf("insert of %v refused with the collision limit: %s", k, d))
					}
					if snapBefore != "" && e.snap() != snapBefore {
						e.violation("C18", fmt.Sprintf("insert of %v refused with the collision limit changed the map or the pending write set", k))
					}
					if present {
						e.violation("C12", fmt.Sprintf("update of existing key %v refused with collision limit", k))
					}
					if len(e.rec.Effs) != 0 {
						e.violation("C18", "refused insert touched storage: "+hx.NetEffect(e.rec.Effs))
					}
				} else {
					e.violation("C02", fmt.Sprintf("set(%v) failed: %v", k, err))
				}
			} else {
				if old == nil {
					w.L("OBS ok:none")
					if present {
						e.violation("C02", fmt.Sprintf("set(%v) returned no previous value, dictionary has %v", k, e.shadow[k]))
					}
				} else {
					w.L("OBS ok:%s", renderStorable(old))
					tv, ok := e.resolve(old)
					if !present || !ok || tv != e.shadow[k] {
						e.violation("C02", fmt.Sprintf("set(%v) returned previous value %v, dictionary has %v (present=%v)", k, tv, e.shadow[k], present))
					}
				}
				if !present {
					e.insCtr++
					e.insSeq[k] = e.insCtr
				}
				e.shadow[k] = v
			}
			e.emitEffects()
			if err != nil {
				w.L("FULL h=0 %s", hx.DumpTree(e.ps, atree.VerifMapRoot(e.m)))
			}
			if err == nil && old != nil {
				e.dispose(old)
			}
		case "rem":
			snapBefore := ""
			if !present {
				snapBefore = e.snap()
			}
			w.L("OP mrem h=0 k=%s", e.keyStr(k))
			ks, vs, err := e.m.Remove(hx.CompareKey, e.hip, k)
			if err != nil {
				w.L("OBS err:%s", hx.ErrKind(err))
				if present || hx.ErrKind(err) != "KeyNotFound:User" {
					e.violation("C02", fmt.Sprintf("remove(%v) failed with %s (present=%v)", k, hx.ErrKind(err), present))
				} else if d := hx.ErrNames(err, "KeyNotFound", k); d != "" {
					e.violation("C18", fmt.Sprintf("remove of the absent key %v: %s", k, d))
				}
				if snapBefore != "" && e.snap() != snapBefore {
					e.violation("C18", fmt.Sprintf("remove of the absent key %v changed the map or the pending write set", k))
				}
				if len(e.rec.Effs) != 0 {
					e.violation("C18", "rejected remove touched storage: "+hx.NetEffect(e.rec.Effs))
				}
			} else {
				w.L("OBS ok:%s,%s", renderStorable(ks), renderStorable(vs))
				tv, ok := e.resolve(vs)
				if !present || !ok || tv != e.shadow[k] {
					e.violation("C02", fmt.Sprintf("remove(%v) returned %v, dictionary has %v (present=%v)", k, tv, e.shadow[k], present))
				}
				if kt, _ := ks.(hx.TV); kt != k {
					e.violation("C02", fmt.Sprintf("remove(%v) returned key %v", k, ks))
				}
				delete(e.shadow, k)
				delete(e.insSeq, k)
			}
			e.emitEffects()
			if err != nil {
				w.L("FULL h=0 %s", hx.DumpTree(e.ps, atree.VerifMapRoot(e.m)))
			}
			if err == nil {
				e.dispose(vs)
			}
		case "pop":
			w.L("OP mpop h=0")
			type kv struct{ k, v atree.Storable }
			var got []kv
			err := e.m.PopIterate(func(k, v atree.Storable) { got = append(got, kv{k, v}) })
			if err != nil {
				w.L("OBS err:%s", hx.ErrKind(err))
				e.violation("C02", "PopIterate failed: "+err.Error())
			} else {
				parts := make([]string, len(got))
				for i, p := range got {
					parts[i] = renderStorable(p.k) + "=" + renderStorable(p.v)
				}
				w.L("OBS ok:[%s]", strings.Join(parts, ","))
				if len(got) != len(e.shadow) {
					e.violation("C13", fmt.Sprintf("pop yielded %d pairs, dictionary has %d", len(got), len(e.shadow)))
				}
				for _, p := range got {
					kt, _ := p.k.(hx.TV)
					vt, ok := e.resolve(p.v)
					if want, has := e.shadow[kt]; !has || !ok || want != vt {
						e.violation("C13", fmt.Sprintf("pop yielded %v=%v, dictionary has %v", kt, vt, want))
						break
					}
				}
				e.shadow = map[hx.TV]hx.TV{}
				e.insSeq = map[hx.TV]uint64{}
			}
			e.emitEffects()
			for _, p := range got {
				e.dispose(p.v)
			}
		case "type":
			e.ty = hx.TI(uint64(e.rng.Intn(100)))
			w.L("OP mtype h=0 ty=%d", uint64(e.ty))
			if err := e.m.SetType(e.ty); err != nil {
				w.L("OBS err:%s", hx.ErrKind(err))
			} else {
				w.L("OBS ok")
			}
			e.emitEffects()
		case "read":
			switch q := e.rng.Intn(10); {
			case q < 4:
				w.L("OP mget h=0 k=%s", e.keyStr(k))
				v, err := e.m.Get(hx.CompareKey, e.hip, k)
				if err != nil {
					w.L("OBS err:%s", hx.ErrKind(err))
					if present || hx.ErrKind(err) != "KeyNotFound:User" {
						e.violation("C02", fmt.Sprintf("get(%v) failed with %s (present=%v)", k, hx.ErrKind(err), present))
					} else if d := hx.ErrNames(err, "KeyNotFound", k); d != "" {
						e.violation("C18", fmt.Sprintf("get of the absent key %v: %s", k, d))
					}
				} else {
					w.L("OBS ok:%s", renderValue(v))
					if tv, _ := v.(hx.TV); !present || tv != e.shadow[k] {
						e.violation("C02", fmt.Sprintf("get(%v) = %v, dictionary has %v (present=%v)", k, v, e.shadow[k], present))
					}
				}
			case q < 6:
				w.L("OP mhas h=0 k=%s", e.keyStr(k))
				has, err := e.m.Has(hx.CompareKey, e.hip, k)
				if err != nil {
					w.L("OBS err:%s", hx.ErrKind(err))
					e.violation("C02", "Has failed: "+err.Error())
				} else {
					w.L("OBS ok:%v", has)
					if has != present {
						e.violation("C02", fmt.Sprintf("has(%v) = %v, dictionary says %v", k, has, present))
					}
				}
			case q < 7:
				w.L("OP mcnt h=0")
				w.L("OBS ok:%d", e.m.Count())
				if int(e.m.Count()) != len(e.shadow) {
					e.violation("C02", fmt.Sprintf("count %d, dictionary has %d", e.m.Count(), len(e.shadow)))
				}
			default:
				e.iterate(q)
			}
		}
		if e.step%25 == 24 || e.step == nOps-1 {
			w.L("FULL h=0 %s", hx.DumpTree(e.ps, atree.VerifMapRoot(e.m)))
			err := atree.VerifyMap(e.m, e.addr, e.ty, func(a, b atree.TypeInfo) bool { return a == b }, e.hip, true)
			// the verdict of the library's own checker, matched by its Lean transcription on the replayed tree
			w.L("VFY h=0 ty=%d r=%s", uint64(e.ty), hx.VerifyClass(err))
			if err != nil {
				// VerifyMap recomputes digests with the map's builder: valid for every digest mode
				e.violation("C05", "VerifyMap: "+err.Error())
				if e.st.Stream == "mapcollide" {
					// C12: "keeps dictionary semantics and a valid structure" under adversarial digests
					e.violation("C12", "VerifyMap: "+err.Error())
				}
			}
			// C09: one live map, everything handed back has been disposed of: exactly its slabs remain
			e.health()
			// C18: values whose large-value slab is absent are reported, not dereferenced (dangling.go)
			e.danglingProbe()
		}
	}
	e.st.Ops += nOps
	if len(e.st.Samples) < 3 {
		e.st.Samples = append(e.st.Samples, fmt.Sprintf("T=%d ops=%d digestMode=%d L=%d climit=%d keys=%d final-count=%d", e.T, nOps, mode, e.L, e.climit, len(e.keyUniv), len(e.shadow)))
	}
}

func (e *mapEnv) iterate(q int) {
	w := e.w
	type kv struct{ k, v hx.TV }
	var got []kv
	var err error
	mode := ""
	switch q {
	case 7:
		mode = "ro"
		w.L("OP miter h=0 mode=ro")
		err = e.m.IterateReadOnly(func(k, v atree.Value) (bool, error) {
			kt, _ := k.(hx.TV)
			vt, _ := v.(hx.TV)
			got = append(got, kv{kt, vt})
			return true, nil
		})
	case 8:
		mode = "mut"
		w.L("OP miter h=0 mode=mut")
		err = e.m.Iterate(hx.CompareKey, e.hip, func(k, v atree.Value) (bool, error) {
			kt, _ := k.(hx.TV)
			vt, _ := v.(hx.TV)
			got = append(got, kv{kt, vt})
			return true, nil
		})
	default:
		mode = "keys"
		w.L("OP miter h=0 mode=keys")
		err = e.m.IterateReadOnlyKeys(func(k atree.Value) (bool, error) {
			kt, _ := k.(hx.TV)
			got = append(got, kv{kt, e.shadow[kt]})
			return true, nil
		})
	}
	e.st.Hit("iter:" + mode)
	if err != nil {
		w.L("OBS err:%s", hx.ErrKind(err))
		e.violation("C13", mode+" iteration failed: "+err.Error())
		return
	}
	parts := make([]string, len(got))
	for i, p := range got {
		parts[i] = fmt.Sprintf("%d:v%d=%d:v%d", p.k.Size, p.k.Pay, p.v.Size, p.v.Pay)
	}
	w.L("OBS ok:[%s]", strings.Join(parts, ","))
	if len(got) != len(e.shadow) {
		e.violation("C13", fmt.Sprintf("%s iteration yielded %d pairs, dictionary has %d", mode, len(got), len(e.shadow)))
		return
	}
	seen := map[hx.TV]bool{}
	for _, p := range got {
		if seen[p.k] {
			e.violation("C13", fmt.Sprintf("%s iteration yielded key %v twice", mode, p.k))
			return
		}
		seen[p.k] = true
		if want, ok := e.shadow[p.k]; !ok || want != p.v {
			e.violation("C13", fmt.Sprintf("%s iteration yielded %v=%v, dictionary has %v", mode, p.k, p.v, want))
			return
		}
	}
	// canonical order: ascending digest path; fully colliding keys in insertion order (checked by the model)
	digs := make([][]uint64, len(got))
	for i, p := range got {
		digs[i], _ = hx.DigestsWith(e.b, e.hip, p.k)
	}
	if !sort.SliceIsSorted(digs, func(i, j int) bool {
		for l := range digs[i] {
			if digs[i][l] != digs[j][l] {
				return digs[i][l] < digs[j][l]
			}
		}
		return false
	}) {
		e.violation("C13", mode+" iteration is not in ascending digest order")
	}
	// keys whose digests agree on EVERY level come out in the order in which they were inserted
	for i := 1; i < len(got); i++ {
		same := len(digs[i]) == len(digs[i-1])
		for l := 0; same && l < len(digs[i]); l++ {
			same = digs[i][l] == digs[i-1][l]
		}
		a, okA := e.insSeq[got[i-1].k]
		b, okB := e.insSeq[got[i].k]
		if same && okA && okB && a > b {
			e.st.Hit("iter:full-collision-pair")
			e.violation("C13", fmt.Sprintf("%s iteration: keys %v and %v collide on every digest level but come out in the reverse of their insertion order", mode, got[i-1].k, got[i].k))
			return
		} else if same && okA && okB {
			e.st.Hit("iter:full-collision-pair")
		}
	}
}

// persistStep: commit / crash / reload for maps (see arrEnv.persistStep).
func (e *mapEnv) persistStep() bool {
	w := e.w
	r := e.rng.Intn(100)
	commitEvery := []int{4, 8, 15, 40}[e.prog%4]
	switch {
	case r < commitEvery:
		e.ledger.ResetCalls()
		w.L("COMMIT workers=2")
		err := e.ps.FastCommit(2)
		w.L("OBS %s", obsErr(err))
		var parts []string
		for _, c := range e.ledger.Log {
			if c.Kind == 'S' {
				parts = append(parts, "S:"+hx.IDStr(c.ID))
			} else {
				parts = append(parts, "R:"+hx.IDStr(c.ID))
			}
		}
		if len(parts) == 0 {
			parts = []string{"-"}
		}
		w.L("LOG %s", strings.Join(parts, " "))
		e.ledger.ResetCalls()
		if err != nil {
			e.violation("C03", "fault-free commit failed: "+err.Error())
			return true
		}
		e.committed = map[hx.TV]hx.TV{}
		for k, v := range e.shadow {
			e.committed[k] = v
		}
		e.committedTy = e.ty
		e.hasCommit = true
		fresh := hx.NewStorage(e.ledger)
		for _, id := range e.ledger.SortedIDs() {
			s, ok, err := fresh.Retrieve(id)
			if err != nil || !ok {
				w.L("REG %s=UNDECODABLE", hx.IDStr(id))
				e.violation("C03", fmt.Sprintf("register %s does not decode after commit: %v", hx.IDStr(id), err))
				continue
			}
			w.L("REG %s", atree.VerifDumpSlab(s, hx.Describe))
		}
		w.L("ENDREG")
		e.checkReload("after commit")
		e.st.Hit("persist:commit")
		return true
	case r < commitEvery+2 && e.hasCommit:
		if len(e.ledger.Log) != 0 {
			e.violation("C03", fmt.Sprintf("the ledger was written outside a commit (%d calls)", len(e.ledger.Log)))
		}
		w.L("CRASH")
		rootID := e.m.SlabID()
		e.ps = hx.NewStorage(e.ledger)
		e.rec = hx.NewRecStorage(e.ps)
		m, err := atree.NewMapWithRootID(e.rec, rootID, e.b)
		if err != nil {
			e.violation("C03", "cannot reopen map after crash: "+err.Error())
			e.st.HarnessErr = "reopen failed"
			return true
		}
		e.m = m
		e.shadow = map[hx.TV]hx.TV{}
		e.insSeq = map[hx.TV]uint64{} // insertion times of the restored keys are not tracked: only later insertions are judged
		for k, v := range e.committed {
			e.shadow[k] = v
		}
		e.ty = e.committedTy
		w.L("FULL h=0 %s", hx.DumpTree(e.ps, atree.VerifMapRoot(e.m)))
		e.checkReload("after crash")
		e.st.Hit("persist:crash")
		return true
	}
	if len(e.ledger.Log) != 0 {
		e.violation("C03", fmt.Sprintf("the ledger was written outside a commit (%d calls)", len(e.ledger.Log)))
		e.ledger.ResetCalls()
	}
	return false
}

func (e *mapEnv) checkReload(when string) {
	if !e.hasCommit {
		return
	}
	fresh := hx.NewStorage(e.ledger)
	m, err := atree.NewMapWithRootID(fresh, e.m.SlabID(), e.b)
	if err != nil {
		e.violation("C03", "reload "+when+": "+err.Error())
		return
	}
	if m.Count() != uint64(len(e.committed)) {
		e.violation("C03", fmt.Sprintf("reload %s: count %d, committed content has %d", when, m.Count(), len(e.committed)))
		return
	}
	n := 0
	_ = m.IterateReadOnly(func(k, v atree.Value) (bool, error) {
		kt, _ := k.(hx.TV)
		vt, _ := v.(hx.TV)
		if want, ok := e.committed[kt]; !ok || want != vt {
			e.violation("C03", fmt.Sprintf("reload %s: %v=%v, committed content says %v", when, k, v, want))
			return false, nil
		}
		n++
		return true, nil
	})
	if n != len(e.committed) && len(e.st.Violations) == 0 {
		e.violation("C03", fmt.Sprintf("reload %s: iterated %d pairs, committed content has %d", when, n, len(e.committed)))
	}
	if err := atree.VerifyMap(m, e.addr, e.committedTy, func(a, b atree.TypeInfo) bool { return a == b }, e.hip, true); err != nil {
		e.violation("C03", "reload "+when+": the committed registers do not form a valid map: "+err.Error())
	}
}
