package main

import (
	"fmt"

	"github.com/onflow/atree"

	"verifharness/hx"
)

// Two scripted, model-free scenarios run once per nested-stream run, for the corners of
// array.go / map.go / inline_utils.go that the World model has no vocabulary for (audit a5, item 6:
// mutants N3 and N4 survived because no stream reaches these lines):
//
//   K  a container used as a map KEY and removed again.  OrderedMap.Remove hands the key back like it
//      hands the value back: an inlined container is first turned into a stored standalone slab
//      (map.go Remove -> uninlineStorableIfNeeded on the key storable; C11 mechanism "removed /
//      overwritten inlined child converted to a stored standalone slab", inline_utils.go).
//   W  a child container under a wrapper LARGER than the parent's per-element limit (the wrapper moves
//      itself to a StorableSlab, as Cadence's SomeStorable does when it is too large).  The inline
//      budget captured by the parent's callback is then 0, not `limit - wrapperSize` wrapped around
//      (array.go / map.go setCallbackWithChild: `if maxInlineSize < wrapperSize { maxInlineSize = 0 }`):
//      the child can never be inlined, its callback returns early and stays installed (C10 state
//      anchor `parentUpdater`).

// padSome is a wrapper value with a caller-chosen overhead; too large for its budget, it moves
// itself (wrapper and wrapped storable) to a StorableSlab.
type padSome struct {
	V   atree.Value
	Pad uint32
}

var _ atree.WrapperValue = padSome{}

func (s padSome) Storable(st atree.SlabStorage, addr atree.Address, maxInline uint32) (atree.Storable, error) {
	var b uint32
	if maxInline > s.Pad {
		b = maxInline - s.Pad
	}
	in, err := s.V.Storable(st, addr, b)
	if err != nil {
		return nil, err
	}
	ps := padStorable{S: in, Pad: s.Pad}
	if ps.ByteSize() > maxInline {
		return atree.NewStorableSlab(st, addr, ps, ps.ByteSize())
	}
	return ps, nil
}

func (s padSome) UnwrapAtreeValue() (atree.Value, uint32) {
	if w, ok := s.V.(atree.WrapperValue); ok {
		v, n := w.UnwrapAtreeValue()
		return v, n + s.Pad
	}
	return s.V, s.Pad
}

type padStorable struct {
	S   atree.Storable
	Pad uint32
}

var _ atree.WrapperStorable = padStorable{}
var _ atree.ContainerStorable = padStorable{}

func (s padStorable) Encode(e *atree.Encoder) error {
	// tag 166, then [padding byte string, wrapped storable]: exactly Pad bytes of overhead for Pad >= 8
	if err := e.CBOR.EncodeRawBytes([]byte{0xd8, 166, 0x82}); err != nil {
		return err
	}
	n := int(s.Pad) - 3
	switch {
	case n-1 < 24:
		n--
	case n-2 < 256:
		n -= 2
	default:
		n -= 3
	}
	if n < 0 {
		n = 0
	}
	if err := e.CBOR.EncodeBytes(make([]byte, n)); err != nil {
		return err
	}
	return s.S.Encode(e)
}
func (s padStorable) ByteSize() uint32 { return s.Pad + s.S.ByteSize() }
func (s padStorable) StoredValue(st atree.SlabStorage) (atree.Value, error) {
	v, err := s.S.StoredValue(st)
	if err != nil {
		return nil, err
	}
	return padSome{V: v, Pad: s.Pad}, nil
}
func (s padStorable) ChildStorables() []atree.Storable { return []atree.Storable{s.S} }
func (s padStorable) CanCopyNonRefSimple() bool        { return false }
func (s padStorable) CopyNonRefSimple() (atree.Storable, error) {
	return nil, fmt.Errorf("padStorable is not a simple non-reference storable")
}
func (s padStorable) HasPointer() bool {
	if c, ok := s.S.(atree.ContainerStorable); ok {
		return c.HasPointer()
	}
	_, isRef := s.S.(atree.SlabIDStorable)
	return isRef
}
func (s padStorable) UnwrapAtreeStorable() atree.Storable {
	if w, ok := s.S.(atree.WrapperStorable); ok {
		return w.UnwrapAtreeStorable()
	}
	return s.S
}
func (s padStorable) WrapAtreeStorable(x atree.Storable) atree.Storable {
	return padStorable{S: x, Pad: s.Pad}
}

// containerKeyOps: comparator / hash-input provider that accept arrays as keys (identity = value ID)
// besides the harness's plain keys.
func containerKeyCompare(st atree.SlabStorage, v atree.Value, s atree.Storable) (bool, error) {
	a, ok := v.(*atree.Array)
	if !ok {
		if _, isCont := storableContainerIDOf(s); isCont {
			return false, nil
		}
		return hx.CompareKey(st, v, s)
	}
	id, isCont := storableContainerIDOf(s)
	if !isCont {
		return false, nil
	}
	vid := a.ValueID()
	return fmt.Sprintf("0x%x.%d", id.AddressAsUint64(), id.IndexAsUint64()) == vid.String(), nil
}

func storableContainerIDOf(s atree.Storable) (atree.SlabID, bool) {
	switch x := s.(type) {
	case atree.ArraySlab:
		return x.SlabID(), true
	case atree.MapSlab:
		return x.SlabID(), true
	}
	return atree.SlabID{}, false
}

func containerKeyHashInput(v atree.Value, buf []byte) ([]byte, error) {
	if a, ok := v.(*atree.Array); ok {
		vid := a.ValueID()
		return append([]byte{0xC0}, vid[:]...), nil
	}
	return hx.HashInput(v, buf)
}

func nestedExotic(st *hx.Stats, cfg *Config, w *hx.W) {
	viol := func(prop, what string) {
		st.Violations = append(st.Violations, hx.Violation{Property: prop, Stream: st.Stream, Seed: cfg.Seed, Program: -1, What: what, Trace: w.Path, Line: w.Lines})
	}
	for _, T := range []uint32{256, 512} {
		atree.VerifSetThreshold(T)
		exoticContainerKey(st, viol, T)
		for _, parentKind := range []byte{'a', 'm'} {
			exoticFatWrapper(st, viol, T, parentKind)
		}
	}
	atree.VerifSetThreshold(1024)
}

// scenario K
func exoticContainerKey(st *hx.Stats, viol func(prop, what string), T uint32) {
	fail := func(what string, err error) {
		st.HarnessErr = fmt.Sprintf("container-as-key scenario (T=%d): %s: %v", T, what, err)
	}
	ledger := hx.NewLedger()
	ps := hx.NewStorage(ledger)
	addr := hx.MkAddr(5)
	m, err := atree.NewMap(ps, addr, atree.NewDefaultDigesterBuilder(), hx.TI(1))
	if err != nil {
		fail("NewMap", err)
		return
	}
	for i := 0; i < 3; i++ {
		if _, err := m.Set(containerKeyCompare, containerKeyHashInput, hx.TV{Size: 9, Pay: uint64(1 + i)}, hx.TV{Size: 12, Pay: uint64(10 + i)}); err != nil {
			fail("Set(plain key)", err)
			return
		}
	}
	k, err := atree.NewArray(ps, addr, hx.TI(2))
	if err != nil {
		fail("NewArray", err)
		return
	}
	for i := 0; i < 2; i++ {
		if err := k.Append(hx.TV{Size: 5, Pay: uint64(20 + i)}); err != nil {
			fail("Append to the future key", err)
			return
		}
	}
	vid := k.ValueID().String()
	if _, err := m.Set(containerKeyCompare, containerKeyHashInput, k, hx.TV{Size: 7, Pay: 30}); err != nil {
		fail("Set(container key)", err)
		return
	}
	st.Hit(fmt.Sprintf("exotic-container-key-inlined=%v", k.Inlined()))
	if v, err := m.Get(containerKeyCompare, containerKeyHashInput, k); err != nil {
		viol("C10", fmt.Sprintf("a map entry whose key is a container cannot be read back: %v", err))
	} else if tv, ok := v.(hx.TV); !ok || tv.Pay != 30 {
		viol("C10", fmt.Sprintf("a map entry whose key is a container reads back %v", v))
	}
	ks, vs, err := m.Remove(containerKeyCompare, containerKeyHashInput, k)
	if err != nil {
		viol("C11", fmt.Sprintf("removing the map entry whose key is a container failed: %v", err))
		return
	}
	_ = vs
	// C11: the removed container is handed back as a reference to a stored standalone slab
	id, kind, ok := storableContainerID(ks)
	switch {
	case !ok:
		viol("C11", fmt.Sprintf("a container removed from a map (it was the KEY of the entry) is handed back as %T", ks))
		return
	case kind != 'r':
		viol("C11", fmt.Sprintf("a container removed from a map (it was the KEY of the entry) is handed back as an inlined slab (%s), not as a reference to a stored standalone slab: the removed key was not un-inlined", renderStorable(ks)))
	case fmt.Sprintf("0x%x.%d", id.AddressAsUint64(), id.IndexAsUint64()) != vid:
		viol("C11", fmt.Sprintf("a container removed from a map (key) changed identity: %s vs %s", hx.IDStr(id), vid))
	}
	if k.Inlined() {
		viol("C11", "a container removed from a map (it was the KEY of the entry) still claims to be inlined")
	}
	if sl, found, err := ps.Retrieve(id); err != nil || !found || sl == nil {
		viol("C11", fmt.Sprintf("a container removed from a map (key) is not a stored slab afterwards (%s: found=%v err=%v)", hx.IDStr(id), found, err))
		return
	}
	// ... intact, mutable, and a root of its own
	if err := k.Append(hx.TV{Size: 5, Pay: 22}); err != nil {
		viol("C11", fmt.Sprintf("a container removed from a map (key) cannot be mutated afterwards: %v", err))
	}
	if k.Count() != 3 {
		viol("C11", fmt.Sprintf("a container removed from a map (key) holds %d elements, 3 expected", k.Count()))
	}
	if _, err := atree.CheckStorageHealth(ps, 2); err != nil {
		viol("C11", "after removing a container key the storage is not exactly the map and the removed container: "+err.Error())
	}
	if err := ps.FastCommit(2); err != nil {
		viol("C11", "commit after removing a container key failed: "+err.Error())
		return
	}
	fresh := hx.NewStorage(ledger)
	if a, err := atree.NewArrayWithRootID(fresh, id); err != nil {
		viol("C11", fmt.Sprintf("a container removed from a map (key) cannot be reloaded by its slab ID: %v", err))
	} else if a.Count() != 3 {
		viol("C11", fmt.Sprintf("a container removed from a map (key) reloads with %d elements, 3 expected", a.Count()))
	}
}

// scenario W
func exoticFatWrapper(st *hx.Stats, viol func(prop, what string), T uint32, parentKind byte) {
	fail := func(what string, err error) {
		st.HarnessErr = fmt.Sprintf("oversized-wrapper scenario (T=%d, parent %c): %s: %v", T, parentKind, what, err)
	}
	ps := hx.NewStorage(hx.NewLedger())
	addr := hx.MkAddr(6)
	_, _, _, maxArr, _, _ := atree.VerifThresholds()
	pad := maxArr + 40 // more than any per-element limit
	child, err := atree.NewArray(ps, addr, hx.TI(3))
	if err != nil {
		fail("NewArray", err)
		return
	}
	if err := child.Append(hx.TV{Size: 5, Pay: 1}); err != nil {
		fail("Append", err)
		return
	}
	key := hx.TV{Size: 9, Pay: 77}
	var pa *atree.Array
	var pm *atree.OrderedMap
	if parentKind == 'a' {
		pa, err = atree.NewArray(ps, addr, hx.TI(4))
		if err == nil {
			err = pa.Append(padSome{V: child, Pad: pad})
		}
	} else {
		pm, err = atree.NewMap(ps, addr, atree.NewDefaultDigesterBuilder(), hx.TI(4))
		if err == nil {
			_, err = pm.Set(hx.CompareKey, hx.HashInput, key, padSome{V: child, Pad: pad})
		}
	}
	if err != nil {
		fail("inserting the wrapped child", err)
		return
	}
	st.Hit(fmt.Sprintf("exotic-fat-wrapper-in-%c", parentKind))
	check := func(when string, want uint64) {
		if child.Inlined() {
			viol("C10", fmt.Sprintf("oversized wrapper (%d bytes, limit %d), %s: the child is stored inline", pad, maxArr, when))
		}
		if !atree.VerifArrayHasParentUpdater(child) {
			viol("C10", fmt.Sprintf("a child container under a wrapper of %d bytes (more than the parent's per-element limit, so its inline budget is 0) sits in its parent but, %s, its handle has lost the parent callback: the callback did not return early for a child that can never be inlined (budget computed as limit - wrapperSize without the underflow guard?)", pad, when))
		}
		var v atree.Value
		var err error
		if parentKind == 'a' {
			v, err = pa.Get(0)
		} else {
			v, err = pm.Get(hx.CompareKey, hx.HashInput, key)
		}
		if err != nil {
			viol("C10", fmt.Sprintf("oversized wrapper, %s: reading the child through the parent failed: %v", when, err))
			return
		}
		ws, ok := v.(padSome)
		if !ok {
			viol("C10", fmt.Sprintf("oversized wrapper, %s: the parent holds %T", when, v))
			return
		}
		a, ok := ws.V.(*atree.Array)
		if !ok || a.ValueID() != child.ValueID() || a.Count() != want {
			viol("C10", fmt.Sprintf("oversized wrapper, %s: the child read through the parent is %v (count %d expected)", when, ws.V, want))
		}
		// (the handle just handed out replaces the old one: one current handle per container)
		if ok {
			child = a
		}
	}
	check("after insertion", 1)
	for i := 0; i < 3; i++ {
		if err := child.Append(hx.TV{Size: 5, Pay: uint64(2 + i)}); err != nil {
			viol("C10", fmt.Sprintf("oversized wrapper: mutation through the child handle failed: %v", err))
			return
		}
		check(fmt.Sprintf("after %d mutation(s) through its handle", i+1), uint64(2+i))
	}
}
