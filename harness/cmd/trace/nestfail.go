package main

import (
	"fmt"
	"math/rand"
	"path/filepath"
	"sort"
	"strings"

	"github.com/onflow/atree"

	"verifharness/hx"
)

// Stream "nestfail" (C10, C18; sweep s2, section 2.1: mutants NerrA, NerrM, CBe2, MCBe2 survived because
// no stream made a caller-supplied component fail INSIDE a nested operation).  Model-free: the trace it
// writes is the history of a failing input, nothing replays it.
//
// A program is a nested history like those of the `nested` stream (same shadow, same generators: new
// children, mutations at every depth, restructured parents, detach / re-attach, re-fetched handles,
// commits, reopen) over containers that are grown until they have an index root, so that a child's
// notification of its parent has to READ slabs of the ancestors.  About a third of the steps are
//
//   failed notification: a mutation (Insert / Set / Remove / SetType) through the handle of a nested
//   container while the slabs of its ancestors cannot be read - the recording SlabStorage fails the
//   Retrieve of every non-root slab of every ancestor's tree, or its k-th Retrieve; or everything is
//   committed, the read cache dropped and the LEDGER fails those reads; or (array children below a map)
//   the comparator / hash-input provider the parent map captured fails - followed, once the component
//   is healthy again, by the NEXT mutation through the same handle.
//
// Oracles.
//   C18 (last sentence): if the injected failure fired, the request reports an error, and the error is
//        External.  (A request during which nothing failed is an ordinary served request.)
//   What the failed request left behind is OBSERVED, not judged: C18's "leaves no trace" speaks about
//        requests rejected because of their arguments, and the parent notification runs after the
//        child's own change (DESIGN 13.4, O5).  The child is read through its own handle and the
//        shadow follows what the library did (`observation:failed-notification:child-changed` /
//        `...:child-unchanged`); a child in neither state ends the program with an observation.
//   C10: the next mutation through the same handle is SERVED and, being a mutation through a handle to
//        a container that lives inside another container, is visible when reading through the
//        outermost container, leaves every ancestor structurally valid (VerifyArray / VerifyMap), is
//        persisted by the next commit (commit + reload on a fresh storage), and the handle still
//        carries its parent callback (state anchor `parentUpdater`); the inline rule holds again.

func init() { streams["nestfail"] = nestFailStream }

var nestFailRequired = []string{
	"notify-fail:fired:parent=a", "notify-fail:fired:parent=m", "notify-fail:fired:child=a", "notify-fail:fired:child=m",
	"notify-fail:fired:mode=storage-all", "notify-fail:fired:mode=storage-kth", "notify-fail:fired:mode=ledger",
	"notify-fail:fired:mode=comparator", "notify-fail:fired:mode=hash-input",
	"notify-fail:fired:level=direct", "notify-fail:fired:level=higher", "notify-fail:fired:wrapped-child",
	"notify-fail:fired:child-inlined", "notify-fail:fired:child-standalone",
	"notify-fail:healed", "notify-fail:healed:commit-reload",
}

func nestFailStream(cfg *Config) *hx.Stats {
	st := hx.NewStats("nestfail", cfg.Seed)
	rng := rand.New(rand.NewSource(cfg.Seed*7919 + 101))
	w := hx.NewW(filepath.Join(cfg.Out, fmt.Sprintf("nestfail-%d.trace", cfg.Seed)))
	defer w.Close()
	nProg := int(16 * cfg.Scale)
	if nProg < 2 {
		nProg = 2
	}
	defer func(old int) { hx.DecNesting = old }(hx.DecNesting)
	hx.DecNesting = 1024
	defer hx.ArmKeyFaults(0, 0)
	seen := map[string]bool{}
	for p := 0; p < nProg && st.HarnessErr == ""; p++ {
		T := []uint32{256, 512, 256, 1024}[p%4]
		e := &nestEnv{w: w, st: st, cfg: cfg, rng: rng, T: T, prog: p, ext: true, coll: p%4 == 3}
		runNestFailProgram(e, 100+rng.Intn(100))
		st.Programs++
		seen[fmt.Sprintf("%d/%d/%d", T, len(e.nodes), e.step)] = true
		if len(st.Violations) > 10 {
			break
		}
	}
	if st.HarnessErr == "" && len(st.Violations) == 0 && cfg.Scale >= 1 {
		var missing []string
		for _, t := range nestFailRequired {
			if st.Dist[t] == 0 {
				missing = append(missing, t)
			}
		}
		if len(missing) > 0 {
			st.HarnessErr = "nestfail: situations never produced: " + strings.Join(missing, "; ")
		}
	}
	st.Distinct = len(seen)
	st.TraceLines = w.Lines
	atree.VerifSetThreshold(1024)
	return st
}

func runNestFailProgram(e *nestEnv, nOps int) {
	atree.VerifSetThreshold(e.T)
	e.ledger = hx.NewLedger()
	e.ps = hx.NewStorage(e.ledger)
	e.rec = hx.NewRecStorage(e.ps)
	e.addr = hx.MkAddr(uint64(1 + e.rng.Intn(3)))
	e.w.L("CFG T=%d", e.T)
	rootKind := byte('a')
	if e.rng.Intn(2) == 0 {
		rootKind = 'm'
	}
	e.root = e.newNode(rootKind)
	if e.root == nil {
		return
	}
	e.fatten(e.root)
	for e.step = 0; e.step < nOps && e.st.HarnessErr == "" && len(e.st.Violations) <= 10; e.step++ {
		switch r := e.rng.Intn(100); {
		case r < 10:
			e.opNewChild()
		case r < 13:
			e.opNewChildStandalone()
		case r < 21:
			if n := e.pickContainer(func(n *node) bool { return e.attached(n) && hasChild(n) && !multiSlab(n) }); n != nil {
				e.fatten(n)
			}
		case r < 33:
			e.opMutate(false)
		case r < 37:
			e.opMutate(true)
		case r < 43:
			e.opRestructureParent()
		case r < 47:
			e.opDetach()
		case r < 50:
			e.opReattach()
		case r < 53:
			e.opCommitReload()
		case r < 58:
			e.opRefetch()
		case r < 60:
			e.opReopen()
		case r < 62:
			e.opSetType()
		default:
			e.opNotifyFail()
		}
		if e.abandoned {
			break
		}
		if e.st.HarnessErr == "" {
			e.handleState()
		}
		if e.step%20 == 19 || e.step == nOps-1 {
			e.fullCheck()
		}
	}
	e.st.Ops += nOps
	if len(e.st.Samples) < 2 {
		e.st.Samples = append(e.st.Samples, fmt.Sprintf("T=%d ops=%d containers=%d: nested history with failed parent notifications (storage read / ledger read / comparator / hash input failing while a child notifies its ancestors), each followed by a served mutation through the same handle", e.T, nOps, len(e.nodes)))
	}
}

// multiSlab: the tree of n has slabs besides its root (children of an index root, external collision groups).
func multiSlab(n *node) bool { return len(atree.VerifChildSlabIDs(n.rootSlab())) > 0 }

// fatten inserts plain values into n until its tree has slabs besides the root.
func (e *nestEnv) fatten(n *node) {
	e.st.Hit("fatten")
	e.force = 1
	defer func() { e.force = 0 }()
	nv := len(e.st.Violations)
	for i := 0; i < 300 && !multiSlab(n) && len(e.st.Violations) == nv && e.st.HarnessErr == ""; i++ {
		e.mutatePlain(n, "C10")
	}
}

// quietly runs a comparison helper and reports whether it filed anything, discarding what it filed.
func (e *nestEnv) quietly(f func()) bool {
	nv := len(e.st.Violations)
	f()
	clean := len(e.st.Violations) == nv
	e.st.Violations = e.st.Violations[:nv]
	return clean
}

// matchesShadow: container n, read through its own handle, holds what its shadow says.
func (e *nestEnv) matchesShadow(n *node) bool {
	return e.quietly(func() {
		if n.kind == 'a' {
			e.compareArray("own handle", n.arr, n)
		} else {
			e.compareMap("own handle", n.mp, n)
		}
	})
}

// nfRequest is one mutation of container c with small plain values: the OP line, the call, and the
// change of the shadow if the library applied it (undo restores the shadow).
type nfRequest struct {
	name        string
	call        func() error
	apply, undo func()
}

func (e *nestEnv) nfPick(c *node, shrink bool) nfRequest {
	w := e.w
	small := func(v sval) bool { return v.child == nil && v.tv.Size <= 23 }
	e.nextPay++
	nv := hx.TV{Size: uint32(3 + e.rng.Intn(5)), Pay: e.nextPay % 200}
	if !shrink && e.rng.Intn(8) == 0 {
		oldTy := c.ty
		ty := uint64(60 + e.rng.Intn(30))
		return nfRequest{name: "SetType", call: func() error {
			w.L("OP sty h=%d ty=%d", c.h, ty)
			if c.kind == 'a' {
				return c.arr.SetType(hx.TI(ty))
			}
			return c.mp.SetType(hx.TI(ty))
		}, apply: func() { c.ty = ty }, undo: func() { c.ty = oldTy }}
	}
	if c.kind == 'a' {
		var idx []int
		for i, v := range c.elems {
			if small(v) {
				idx = append(idx, i)
			}
		}
		saved := append([]sval(nil), c.elems...)
		undo := func() { c.elems = append([]sval(nil), saved...) }
		r := e.rng.Intn(10)
		if shrink {
			r = 9
		}
		switch {
		case r < 5 || len(idx) == 0:
			i := e.rng.Intn(len(c.elems) + 1)
			return nfRequest{name: "Insert", call: func() error {
				w.L("OP ains h=%d i=%d v=%d:%d", c.h, i, nv.Size, nv.Pay)
				return c.arr.Insert(uint64(i), nv)
			}, apply: func() {
				c.elems = append(c.elems, sval{})
				copy(c.elems[i+1:], c.elems[i:])
				c.elems[i] = sval{tv: nv}
			}, undo: undo}
		case r < 7:
			i := idx[e.rng.Intn(len(idx))]
			return nfRequest{name: "Set", call: func() error {
				w.L("OP aset h=%d i=%d v=%d:%d", c.h, i, nv.Size, nv.Pay)
				_, err := c.arr.Set(uint64(i), nv)
				return err
			}, apply: func() { c.elems[i] = sval{tv: nv} }, undo: undo}
		default:
			i := idx[e.rng.Intn(len(idx))]
			return nfRequest{name: "Remove", call: func() error {
				w.L("OP arem h=%d i=%d", c.h, i)
				_, err := c.arr.Remove(uint64(i))
				return err
			}, apply: func() { c.elems = append(c.elems[:i:i], c.elems[i+1:]...) }, undo: undo}
		}
	}
	var keys []hx.TV
	for _, k := range e.sortedKeys(c) {
		if small(c.kv[k]) {
			keys = append(keys, k)
		}
	}
	saved := map[hx.TV]sval{}
	for k, v := range c.kv {
		saved[k] = v
	}
	undo := func() {
		c.kv = map[hx.TV]sval{}
		for k, v := range saved {
			c.kv[k] = v
		}
	}
	r := e.rng.Intn(10)
	if shrink {
		r = 9
	}
	switch {
	case r < 5 || len(keys) == 0:
		k := hx.TV{Size: 9, Pay: uint64(200 + e.rng.Intn(80))}
		for {
			if _, ok := c.kv[k]; !ok {
				break
			}
			k.Pay++
		}
		return nfRequest{name: "Set(new key)", call: func() error {
			w.L("OP mset h=%d k=%s v=%d:%d", c.h, e.keyStr(c, k), nv.Size, nv.Pay)
			_, err := c.mp.Set(hx.CompareKey, e.hi(), k, nv)
			return err
		}, apply: func() { c.kv[k] = sval{tv: nv} }, undo: undo}
	case r < 7:
		k := keys[e.rng.Intn(len(keys))]
		return nfRequest{name: "Set(existing key)", call: func() error {
			w.L("OP mset h=%d k=%s v=%d:%d", c.h, e.keyStr(c, k), nv.Size, nv.Pay)
			_, err := c.mp.Set(hx.CompareKey, e.hi(), k, nv)
			return err
		}, apply: func() { c.kv[k] = sval{tv: nv} }, undo: undo}
	default:
		k := keys[e.rng.Intn(len(keys))]
		return nfRequest{name: "Remove", call: func() error {
			w.L("OP mrem h=%d k=%s", c.h, e.keyStr(c, k))
			_, _, err := c.mp.Remove(hx.CompareKey, e.hi(), k)
			return err
		}, apply: func() { delete(c.kv, k) }, undo: undo}
	}
}

// opNotifyFail: see the head of this file.
func (e *nestEnv) opNotifyFail() {
	ancestorHasSlabs := func(n *node) bool {
		for x := n.parent; x != nil; x = x.parent {
			if multiSlab(x) {
				return true
			}
		}
		return false
	}
	c := e.pickContainer(func(n *node) bool { return n.parent != nil && e.target(n) && ancestorHasSlabs(n) })
	shrink := false
	if e.rng.Intn(3) == 0 {
		// a child that is a SEPARATE slab and about to fit its slot again: brought (healthy) to within a few
		// bytes of its slot's budget; the failing request then removes an element
		if s := e.pickContainer(func(n *node) bool {
			return n.parent != nil && e.target(n) && ancestorHasSlabs(n) && !n.inlinedNow() && !multiSlab(n) && len(n.elems)+len(n.kv) > 0
		}); s != nil {
			c, shrink = s, true
			b := slotBudget(c.parent, c.wrap)
			e.tiny, e.force = true, 2
			nv := len(e.st.Violations)
			for i := 0; i < 80 && len(e.st.Violations) == nv && !c.inlinedNow(); i++ {
				if sz, ok := c.inlinedSize(e.T); !ok || sz <= b+7 {
					break
				}
				e.mutatePlain(c, "C10")
			}
			e.tiny, e.force = false, 0
			if c.inlinedNow() || len(e.st.Violations) > nv {
				return
			}
		}
	}
	if c == nil {
		e.st.Hit("notify-fail:no-candidate")
		return
	}
	// the slabs a notification may have to read: every non-root slab of every ancestor's tree
	failIDs := map[atree.SlabID]*node{}
	mapAbove := false
	for x := c.parent; x != nil; x = x.parent {
		root := x.rootSlab()
		for id := range treeIDs(e.ps, root) {
			if id != root.SlabID() {
				failIDs[id] = x
			}
		}
		mapAbove = mapAbove || x.kind == 'm'
	}
	ancestorIDs := map[atree.SlabID]*node{}
	for id, x := range failIDs {
		ancestorIDs[id] = x
	}
	for x := c.parent; x != nil; x = x.parent {
		if !x.inlinedNow() {
			ancestorIDs[x.vidSlabID()] = x
		}
	}
	childRoot := c.vidSlabID()
	modes := []string{"storage-all", "storage-all", "ledger"}
	if !multiSlab(c) {
		modes = append(modes, "storage-kth", "storage-kth") // every read of the request is an ancestor's
	}
	if c.kind == 'a' && !multiSlab(c) && mapAbove {
		modes = append(modes, "comparator", "comparator", "hash-input", "hash-input") // every callback call is an ancestor's
	}
	mode := modes[e.rng.Intn(len(modes))]
	if mode == "ledger" {
		// Dropping the read cache orphans the slab OBJECTS the handles of inlined containers work on (a slab
		// that is read again is decoded into new objects; value-level storage model, DESIGN O7): once the
		// scenario is over every nested handle is fetched again, top-down, as after a reopen.
		defer func() {
			if e.abandoned || e.st.HarnessErr != "" {
				return
			}
			for _, n := range append([]*node{e.root}, e.detached...) {
				if !e.refetchBelow(n) {
					e.st.HarnessErr = "re-fetch after dropping the cache failed (see violation)"
					return
				}
			}
		}()
	}
	inlinedBefore := c.inlinedNow()
	e.tiny = true
	defer func() { e.tiny = false }()
	q := e.nfPick(c, shrink)

	// arm
	firstCall := false
	e.rec.Reset()
	switch mode {
	case "storage-all":
		for id := range failIDs {
			e.rec.FailRetrieve[id] = true
		}
	case "storage-kth":
		e.rec.Retrieves, e.rec.FailRetrieveAt = 0, 1+e.rng.Intn(3)
	case "ledger":
		e.w.L("COMMIT workers=2")
		if err := e.ps.FastCommit(2); err != nil {
			e.violation("C10", "commit failed: "+err.Error())
			return
		}
		e.ps.DropCache()
		for id := range failIDs {
			e.ledger.ReadFail[id] = true
		}
	case "comparator":
		k := 1 + e.rng.Intn(2)
		firstCall = k == 1
		hx.ArmKeyFaults(k, 0)
	case "hash-input":
		firstCall = true
		hx.ArmKeyFaults(0, 1)
	}
	e.rec.FailHits, e.ledger.ReadFailHits = 0, 0
	e.w.L("FAULT mode=%s", mode)
	err := q.call()
	e.w.L("OBS %s", obsErr(err))
	// heal
	fired := e.rec.FailHits+e.ledger.ReadFailHits+hx.KeyFaults.Hits > 0
	var failedAt *node
	switch mode {
	case "storage-all", "storage-kth":
		failedAt = failIDs[e.rec.LastFailID]
	case "ledger":
		failedAt = failIDs[e.ledger.LastReadFail]
	}
	e.rec.FailRetrieve, e.rec.FailRetrieveAt = map[atree.SlabID]bool{}, 0
	e.ledger.ReadFail = map[atree.SlabID]bool{}
	hx.ArmKeyFaults(0, 0)
	if mode == "ledger" {
		// (the health check judges the loaded slabs: load every register again)
		for _, id := range e.ledger.SortedIDs() {
			_, _, _ = e.ps.Retrieve(id)
		}
	}
	effs := hx.NetEffect(e.rec.Effs)
	// did the request write into an ancestor before it failed?  (after the failure it wrote nothing: the error
	// travels straight back.)  Stores of the child's own slabs belong to the child's own change.
	ancestorWritten, reqEffs := false, append([]hx.Eff(nil), e.rec.Effs...)
	for _, ef := range reqEffs {
		if ef.Kind == 'a' {
			continue
		}
		if _, anc := ancestorIDs[ef.ID]; anc || (ef.Kind == 'r' && ef.ID == childRoot) {
			ancestorWritten = true
		}
	}
	e.emitEffects()
	what := fmt.Sprintf("%s through the handle of container %d (%s in container %d, %d wrappers, inlined=%v) with failure mode %s", q.name, c.h, string(c.kind), c.parent.h, c.wrap, inlinedBefore, mode)

	if !fired {
		e.st.Hit("notify-fail:not-fired:mode=" + mode)
		if err != nil {
			e.violation("C10", fmt.Sprintf("%s: no injected failure fired, yet the request failed: %v", what, err))
			return
		}
		q.apply()
		e.mutatedDetached(c)
		e.checkInlineRule(c)
		return
	}
	swallowed := err == nil
	if swallowed {
		// C18: "an error raised by a caller-supplied component ... is reported as an external error"
		e.violation("C18", fmt.Sprintf("%s: the caller-supplied component failed while the ancestors were being notified (effects of the request: %s), but the request reported success", what, effs))
		e.violation("C10", fmt.Sprintf("%s: the notification of the ancestors failed on a caller-supplied component, yet the mutation was reported as served: its propagation to the ancestors cannot have happened", what))
	} else if cat := hx.ErrCategory(err); cat != "External" {
		e.violation("C18", fmt.Sprintf("%s: the failure of a caller-supplied component is reported as %s (%v), want an External error", what, hx.ErrKind(err), errLine(err)))
	}
	// Where did the failure hit?  Every level of the notification chain first LOOKS the child up in its parent
	// and then re-sets it there.
	//   direct:  the lookup in the child's own parent failed: no ancestor has changed, only the child has.
	//   higher:  a lookup further up failed; the levels below it are completely updated.
	//   partial: the failure came AFTER a parent had begun to change (it had re-set the child in a leaf and was
	//            fetching a sibling to merge / rebalance with, or the slab of the next level): the partial change
	//            of observation O5, now inside an ancestor.
	level := "higher"
	switch {
	case failedAt == nil: // comparator / hash-input: the first call of a request through an array is the parent map's lookup
		if ancestorWritten {
			level = "partial"
		} else if c.parent.kind == 'm' && firstCall {
			level = "direct"
		}
	default:
		for _, ef := range reqEffs {
			if ef.Kind != 'a' && (ancestorIDs[ef.ID] == failedAt || (ef.Kind == 'r' && ef.ID == childRoot && failedAt == c.parent)) {
				level = "partial"
			}
		}
		if level != "partial" && failedAt == c.parent && !ancestorWritten {
			level = "direct"
		}
	}
	for _, t := range []string{"parent=" + string(c.parent.kind), "child=" + string(c.kind), "mode=" + mode, "level=" + level} {
		e.st.Hit("notify-fail:fired:" + t)
	}
	if c.wrap > 0 {
		e.st.Hit("notify-fail:fired:wrapped-child")
	}
	if inlinedBefore {
		e.st.Hit("notify-fail:fired:child-inlined")
	} else {
		e.st.Hit("notify-fail:fired:child-standalone")
	}
	// C10, state anchor `parentUpdater` (installed when the child is handed out or inserted; C11 mechanism:
	// "callback cleared after a NOT-FOUND"): a notification that failed is not a notification that did not
	// find the child.  Every container of the chain that sits in a parent still carries its parent callback,
	// whatever the level at which the failure hit.
	for x := c; x != nil && x.parent != nil; x = x.parent {
		if !x.hasUpdater() {
			e.violation("C10", fmt.Sprintf("%s: the request failed with %s; container %d still sits in container %d, but its handle has lost the parent callback (a failed notification was treated like a not-found): later mutations through it cannot reach its parent", what, hx.ErrKind(err), x.h, x.parent.h))
			break
		}
	}
	if len(e.st.Violations) > 10 {
		return
	}
	if mode == "ledger" && level != "direct" {
		// Dropping the read cache orphaned the slab objects of the inlined ancestors' handles; the levels the
		// failed request did update were updated on those objects, not on what the storage now reads.  Only
		// failures in the child's own parent are followed up in this mode.
		e.st.Hit("observation:failed-notification:ledger-mode-level-" + level + "-not-continued")
		e.abandoned = true
		return
	}
	// what did the failed request leave in the child?  (observed through the child's own handle)
	if e.matchesShadow(c) {
		e.st.Hit("observation:failed-notification:child-unchanged")
	} else {
		q.apply()
		if !e.matchesShadow(c) {
			q.undo()
			e.st.Hit("observation:failed-notification:child-in-neither-state")
			e.abandoned = true
			return
		}
		e.st.Hit("observation:failed-notification:child-changed")
	}
	if !swallowed && !e.quietly(func() { e.verifyRoot(""); e.checkDetached() }) {
		e.st.Hit("observation:failed-notification:ancestors-not-valid-after-the-failed-request:level=" + level)
	}
	if level == "partial" && !swallowed {
		// neither C18 nor C10 says that later requests repair a half-applied change of an ancestor: counted, and
		// nothing more is demanded of this history
		e.st.Hit("observation:failed-notification:partial-change-in-ancestor:mode=" + mode)
		e.abandoned = true
		return
	}

	// the NEXT mutation through the same handle, everything healthy
	nv := len(e.st.Violations)
	e.force = 0
	for i := 0; i < 4; i++ {
		if i > 0 {
			e.force = 1
		}
		e.mutatePlain(c, "C10")
		if e.mutated || len(e.st.Violations) > nv {
			break
		}
	}
	e.force = 0
	if !e.mutated && len(e.st.Violations) == nv {
		return
	}
	if len(e.st.Violations) == nv {
		e.handleState()
		e.opReadBack()
		e.verifyRoot("outermost container")
		e.checkDetached()
	}
	if level == "higher" && !swallowed {
		// The levels below the failed lookup were updated by the failed request; the next mutation through the
		// child repairs the level above only if it propagates that far (a child that the failed request turned
		// into a separate slab that does not fit its slot has nothing to tell its parent).  What C10 says about
		// the served mutation presupposes ancestors that were valid before it: repaired histories go on (and
		// are held to everything from here on), the others are counted and end.
		if len(e.st.Violations) == nv && e.rng.Intn(2) == 0 {
			e.opCommitReload() // (repaired also means: what a commit persists is what the handles show)
		}
		if len(e.st.Violations) == nv {
			e.st.Hit("notify-fail:healed:level=higher")
			return
		}
		e.st.Violations = e.st.Violations[:nv]
		e.st.Hit("observation:failed-notification:higher-level-not-repaired-by-the-next-mutation-of-the-child")
		e.abandoned = true
		return
	}
	if len(e.st.Violations) == nv {
		e.st.Hit("notify-fail:healed")
		if e.rng.Intn(2) == 0 {
			e.opCommitReload()
			if len(e.st.Violations) == nv {
				e.st.Hit("notify-fail:healed:commit-reload")
			}
		}
	}
	for i := nv; i < len(e.st.Violations); i++ {
		e.st.Violations[i].What = fmt.Sprintf("after %s, which failed with %s in the lookup of the child in its parent (no ancestor had changed), and the NEXT (served) mutation through the same handle: %s", what, hx.ErrKind(err), e.st.Violations[i].What)
	}
}

var _ = sort.Strings
