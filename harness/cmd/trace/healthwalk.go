package main

import (
	"encoding/binary"
	"fmt"
	"sort"
	"strings"

	"github.com/onflow/atree"

	"verifharness/hx"
)

// ---------------------------------------------------------------------------------------------
// An INDEPENDENT reading of "which slabs does this slab refer to": the harness's own walk over the
// encoded register (format version 1).  It uses neither Slab.ChildStorables nor the library's
// decoder.  Layout (see the Encode functions of the library):
//
//	byte 0: version<<4 | hasNextSlabID(0x02) | hasInlinedSlabs(0x01)
//	byte 1: root(0x80) | hasPointers(0x40) | anySize(0x20) | slab type (low 5 bits)
//	data slabs (array data 0x00, map data 0x08, collision group 0x0b):
//	    [extra data: one CBOR item, if root] [inlined extra data: one CBOR item, if flagged]
//	    [next slab ID: 16 raw bytes, if flagged] elements: one CBOR item
//	index slabs (array 0x01, map 0x09):
//	    [extra data, if root] shared address (8) child count (2) then per child
//	    index (8) + 6 more bytes (array: count 4, size 2) resp. 10 more (map: first key 8, size 2)
//	large-value slab (0x1f): one CBOR item
//
// A reference is a CBOR tag 255 around a 16-byte byte string (SlabIDStorable); an external
// collision group is tag 254 around such a reference, so the generic CBOR walk finds both.

type cborWalk struct {
	b    []byte
	refs []atree.SlabID
	err  error
}

func (w *cborWalk) fail(format string, a ...any) int {
	if w.err == nil {
		w.err = fmt.Errorf(format, a...)
	}
	return len(w.b) + 1
}

// item walks one CBOR data item starting at pos and returns the position behind it.
func (w *cborWalk) item(pos int, collect bool, depth int) int {
	if w.err != nil {
		return len(w.b) + 1
	}
	if depth > 200 {
		return w.fail("nesting too deep")
	}
	if pos >= len(w.b) {
		return w.fail("truncated item at %d", pos)
	}
	b := w.b[pos]
	major, ai := b>>5, b&0x1f
	pos++
	var n uint64
	switch {
	case ai < 24:
		n = uint64(ai)
	case ai == 24:
		if pos+1 > len(w.b) {
			return w.fail("truncated head")
		}
		n = uint64(w.b[pos])
		pos++
	case ai == 25:
		if pos+2 > len(w.b) {
			return w.fail("truncated head")
		}
		n = uint64(binary.BigEndian.Uint16(w.b[pos:]))
		pos += 2
	case ai == 26:
		if pos+4 > len(w.b) {
			return w.fail("truncated head")
		}
		n = uint64(binary.BigEndian.Uint32(w.b[pos:]))
		pos += 4
	case ai == 27:
		if pos+8 > len(w.b) {
			return w.fail("truncated head")
		}
		n = binary.BigEndian.Uint64(w.b[pos:])
		pos += 8
	default:
		return w.fail("indefinite length or reserved head 0x%02x at %d", b, pos-1)
	}
	switch major {
	case 0, 1, 7:
		return pos
	case 2, 3:
		if uint64(len(w.b)-pos) < n {
			return w.fail("truncated string")
		}
		return pos + int(n)
	case 4:
		for i := uint64(0); i < n; i++ {
			pos = w.item(pos, collect, depth+1)
			if w.err != nil {
				return pos
			}
		}
		return pos
	case 5:
		for i := uint64(0); i < 2*n; i++ {
			pos = w.item(pos, collect, depth+1)
			if w.err != nil {
				return pos
			}
		}
		return pos
	default: // 6: tag
		if n == 255 {
			if pos+17 > len(w.b) || w.b[pos] != 0x50 {
				return w.fail("tag 255 is not followed by a 16-byte string at %d", pos)
			}
			if collect {
				id, err := atree.NewSlabIDFromRawBytes(w.b[pos+1 : pos+17])
				if err != nil {
					return w.fail("slab id: %v", err)
				}
				w.refs = append(w.refs, id)
			}
			return pos + 17
		}
		return w.item(pos, collect, depth+1)
	}
}

// regRefs lists the slab references of one encoded register, with multiplicity, in encoding order.
func regRefs(reg []byte) ([]atree.SlabID, error) {
	if len(reg) < 2 {
		return nil, fmt.Errorf("register of %d bytes", len(reg))
	}
	if reg[0]>>4 != 1 {
		return nil, fmt.Errorf("format version %d", reg[0]>>4)
	}
	hasNext, hasInl := reg[0]&0x02 != 0, reg[0]&0x01 != 0
	root := reg[1]&0x80 != 0
	w := &cborWalk{b: reg}
	pos := 2
	switch typ := reg[1] & 0x1f; typ {
	case 0x1f:
		pos = w.item(pos, true, 0)
	case 0x00, 0x08, 0x0b:
		if root {
			pos = w.item(pos, false, 0)
		}
		if hasInl {
			pos = w.item(pos, true, 0)
		}
		if hasNext && w.err == nil {
			pos += 16
		}
		pos = w.item(pos, true, 0)
	case 0x01, 0x09:
		if root {
			pos = w.item(pos, false, 0)
		}
		if w.err != nil {
			break
		}
		if pos+10 > len(reg) {
			return nil, fmt.Errorf("truncated index slab header")
		}
		var addr atree.Address
		copy(addr[:], reg[pos:pos+8])
		n := int(binary.BigEndian.Uint16(reg[pos+8:]))
		pos += 10
		per := 14
		if typ == 0x09 {
			per = 18
		}
		if pos+n*per > len(reg) {
			return nil, fmt.Errorf("truncated child headers")
		}
		for i := 0; i < n; i++ {
			var idx atree.SlabIndex
			copy(idx[:], reg[pos:pos+8])
			w.refs = append(w.refs, atree.NewSlabID(addr, idx))
			pos += per
		}
	default:
		return nil, fmt.Errorf("unknown slab type 0x%02x", typ)
	}
	if w.err != nil {
		return nil, w.err
	}
	if pos != len(reg) {
		return nil, fmt.Errorf("walk ended at %d of %d bytes", pos, len(reg))
	}
	return w.refs, nil
}

// refsByBytes: references of an in-memory slab, read off its encoding by the harness's walker.
func refsByBytes(s atree.Slab) ([]atree.SlabID, error) {
	b, err := atree.EncodeSlab(s, hx.EncMode())
	if err != nil {
		return nil, err
	}
	return regRefs(b)
}

// refsByChildStorables: the library's own enumeration (Slab.ChildStorables, descending into
// whatever is not a reference), as CheckStorageHealth / SlabIterator / GetAllChildReferences do.
func refsByChildStorables(s atree.Slab) []atree.SlabID {
	var refs []atree.SlabID
	todo := s.ChildStorables()
	for len(todo) > 0 {
		var next []atree.Storable
		for _, c := range todo {
			if r, ok := c.(atree.SlabIDStorable); ok {
				refs = append(refs, atree.SlabID(r))
			}
			next = append(next, c.ChildStorables()...)
		}
		todo = next
	}
	return refs
}

func sortedIDStrs(ids []atree.SlabID) string {
	c := append([]atree.SlabID(nil), ids...)
	hx.SortIDs(c)
	return strings.Join(idStrs(c), ",")
}

// ---------------------------------------------------------------------------------------------
// heaps and storage states as the model sees them

type hslab struct {
	id   atree.SlabID
	self atree.SlabID
	refs []atree.SlabID
	nil_ bool // a nil entry (pending or cached deletion); only in storage-state dumps
	// a cache entry whose identifier is also a key of the write set: every reader of the storage
	// takes the pending entry, the cached OBJECT may be dead (a data slab merged into its sibling by
	// a request through a handle keeps nil elements and no longer encodes): dumped by key only
	shadowed bool
}

// absSlab reduces one in-memory slab to (self, references) with the independent walker and
// cross-checks the library's enumeration against it; a difference is reported through diff.
func absSlab(id atree.SlabID, s atree.Slab, diff func(string)) hslab {
	h := hslab{id: id, self: s.SlabID()}
	refs, err := refsByBytes(s)
	if err != nil {
		diff(fmt.Sprintf("slab %s cannot be read by the register walker: %v", hx.IDStr(id), err))
		refs = refsByChildStorables(s)
	}
	h.refs = refs
	if cs := refsByChildStorables(s); sortedIDStrs(cs) != sortedIDStrs(refs) {
		diff(fmt.Sprintf("ChildStorables of slab %s (%T) enumerate references [%s], its encoding holds [%s]",
			hx.IDStr(id), s, sortedIDStrs(cs), sortedIDStrs(refs)))
	}
	return h
}

// liveHeap lists every slab visible through the storage (write set over cache), all loaded.
func liveHeap(ps *atree.PersistentSlabStorage, diff func(string)) []hslab {
	deltas := atree.VerifDeltas(ps)
	cache := atree.VerifCache(ps)
	seen := map[atree.SlabID]bool{}
	var out []hslab
	add := func(id atree.SlabID, s atree.Slab) {
		if seen[id] {
			return
		}
		seen[id] = true
		if s == nil {
			return
		}
		out = append(out, absSlab(id, s, diff))
	}
	for id, s := range deltas {
		add(id, s)
	}
	for id, s := range cache {
		add(id, s)
	}
	sort.Slice(out, func(i, j int) bool { return hx.IDLess(out[i].id, out[j].id) })
	return out
}

// storageState dumps write set, cache and ledger as abstract slabs (ledger registers are read by
// the register walker directly).
func storageState(ps *atree.PersistentSlabStorage, ledger *hx.Ledger, diff func(string)) (d, c, b []hslab) {
	deltas := atree.VerifDeltas(ps)
	conv := func(m map[atree.SlabID]atree.Slab, isCache bool) []hslab {
		var out []hslab
		for id, s := range m {
			if s == nil {
				out = append(out, hslab{id: id, nil_: true})
				continue
			}
			if _, pending := deltas[id]; isCache && pending {
				out = append(out, hslab{id: id, shadowed: true})
				continue
			}
			out = append(out, absSlab(id, s, diff))
		}
		sort.Slice(out, func(i, j int) bool { return hx.IDLess(out[i].id, out[j].id) })
		return out
	}
	d = conv(deltas, false)
	c = conv(atree.VerifCache(ps), true)
	for _, id := range ledger.SortedIDs() {
		refs, err := regRefs(ledger.Seg[id])
		if err != nil {
			diff(fmt.Sprintf("register %s cannot be read by the register walker: %v", hx.IDStr(id), err))
		}
		b = append(b, hslab{id: id, self: id, refs: refs})
	}
	return
}

func heapLine(h []hslab) string {
	parts := make([]string, len(h))
	for i, s := range h {
		if s.nil_ {
			parts[i] = hx.IDStr(s.id) + ":nil"
			continue
		}
		if s.shadowed {
			parts[i] = hx.IDStr(s.id) + ":shadowed"
			continue
		}
		parts[i] = fmt.Sprintf("%s:%d:%s", hx.IDStr(s.id), s.self.AddressAsUint64(), strings.Join(idStrs(s.refs), ","))
	}
	return strings.Join(parts, ";")
}

// oracleHealthy is the model-free reading of "healthy": every reference resolves, every slab is
// referenced at most once, owners agree along references, every slab hangs under a root.
// It returns the sorted roots when healthy.
func oracleHealthy(h []hslab) (bool, string, []atree.SlabID) {
	byID := map[atree.SlabID]hslab{}
	for _, s := range h {
		byID[s.id] = s
	}
	incoming := map[atree.SlabID]int{}
	for _, s := range h {
		for _, r := range s.refs {
			t, ok := byID[r]
			if !ok {
				return false, "dangling reference " + hx.IDStr(r) + " in " + hx.IDStr(s.id), nil
			}
			if t.self.Address() != s.self.Address() {
				return false, "owner mismatch " + hx.IDStr(s.id) + " -> " + hx.IDStr(r), nil
			}
			incoming[r]++
			if incoming[r] > 1 {
				return false, "double reference to " + hx.IDStr(r), nil
			}
		}
	}
	var roots []atree.SlabID
	for _, s := range h {
		if incoming[s.id] == 0 {
			roots = append(roots, s.id)
		}
	}
	// reachability from the roots
	seen := map[atree.SlabID]bool{}
	var walk func(id atree.SlabID)
	walk = func(id atree.SlabID) {
		if seen[id] {
			return
		}
		seen[id] = true
		for _, r := range byID[id].refs {
			walk(r)
		}
	}
	for _, r := range roots {
		walk(r)
	}
	if len(seen) != len(h) {
		return false, "slabs not reachable from any root (cycle)", nil
	}
	hx.SortIDs(roots)
	return true, "", roots
}

func reachableRefs(h []hslab, root atree.SlabID) []atree.SlabID {
	r, _ := refsAndBroken(h, root)
	return r
}

// refsAndBroken: what GetAllChildReferences must report for root on heap h (as sets): the
// resolvable and the unresolvable targets of references found in slabs reachable from root
// through resolvable slabs.
func refsAndBroken(h []hslab, root atree.SlabID) (refs, broken []atree.SlabID) {
	byID := map[atree.SlabID]hslab{}
	for _, s := range h {
		byID[s.id] = s
	}
	seen := map[atree.SlabID]bool{}
	var walk func(id atree.SlabID)
	walk = func(id atree.SlabID) {
		for _, r := range byID[id].refs {
			if seen[r] {
				continue
			}
			seen[r] = true
			if _, ok := byID[r]; !ok {
				broken = append(broken, r)
				continue
			}
			refs = append(refs, r)
			walk(r)
		}
	}
	walk(root)
	hx.SortIDs(refs)
	hx.SortIDs(broken)
	return
}

// expectedYield is the harness's own reading of what PersistentSlabStorage.SlabIterator has to
// yield (identifiers with multiplicity): every non-nil pending slab, every non-nil cached slab
// whose identifier is not a key of the write set and, level by level below each of them, every
// referenced slab whose identifier is a key of NEITHER layer, read from the ledger each time it is
// met (the references of a ledger register are read by the register walker).  notFound: a
// reference met on the way resolves nowhere (the iterator must fail with SlabNotFound).
// ok=false: no prediction (a register the walker cannot read, or more than 200000 fetches: a
// reference cycle among registers that are not loaded).
func expectedYield(ps *atree.PersistentSlabStorage, ledger *hx.Ledger) (ids []atree.SlabID, notFound bool, ok bool) {
	deltas := atree.VerifDeltas(ps)
	cache := atree.VerifCache(ps)
	fetches := 0
	below := func(s atree.Slab) bool {
		level, err := refsByBytes(s)
		if err != nil {
			return false
		}
		for len(level) > 0 {
			var next []atree.SlabID
			for _, r := range level {
				if _, in := deltas[r]; in {
					continue
				}
				if _, in := cache[r]; in {
					continue
				}
				reg, in := ledger.Seg[r]
				if !in || len(reg) == 0 {
					notFound = true
					return true
				}
				if fetches++; fetches > 200000 {
					return false
				}
				ids = append(ids, r)
				rr, err := regRefs(reg)
				if err != nil {
					return false
				}
				next = append(next, rr...)
			}
			level = next
		}
		return true
	}
	for id, s := range deltas {
		if s == nil {
			continue
		}
		ids = append(ids, id)
		if !below(s) {
			return nil, false, false
		}
	}
	for id, s := range cache {
		if _, in := deltas[id]; in || s == nil {
			continue
		}
		ids = append(ids, id)
		if !below(s) {
			return nil, false, false
		}
	}
	hx.SortIDs(ids)
	return ids, notFound, true
}

// sameSlabObjects: two snapshots of a layer hold the same keys and the same slab objects.
func sameSlabObjects(a, b map[atree.SlabID]atree.Slab) bool {
	if len(a) != len(b) {
		return false
	}
	for k, v := range a {
		if w, ok := b[k]; !ok || w != v {
			return false
		}
	}
	return true
}
