package main

// Stream "iter", part 3 (audit a1 F8): containers whose elements are child containers (no model:
// implementation oracles, like iterNestedOracle).
//
//   (a) children obtained through every READ-ONLY way of enumerating the parent (callback flavours,
//       iterator objects, ranges, the WithMutationCallback variants with a real and with a nil
//       callback) are mutated: the mutation must be refused with ReadOnlyIteratorElementMutationError
//       (Fatal), the mutation callback - if one was given - must have been called with that child, no
//       slab of the PARENT's tree may be stored or removed, and after dropping the storage the
//       committed parent reads back unchanged;
//   (b) the same mutations through every MUTABLE way succeed, are visible in the parent (live, and
//       after commit + reload), the iteration neither skips nor repeats, children change between
//       inlined and stand-alone, VerifyArray / VerifyMap accept the result;
//   (c) every iterator flavour is run ON each child (inlined and stand-alone) obtained from the
//       parent and compared with the child's shadow, also after the parent was reloaded.

import (
	"fmt"
	"math/rand"
	"sort"

	"github.com/onflow/atree"

	"verifharness/hx"
)

var iterNestRequired = []string{
	"nestro:arr:IterateReadOnly", "nestro:arr:IterateReadOnlyWithMutationCallback", "nestro:arr:IterateReadOnlyWithMutationCallback(nil)",
	"nestro:arr:IterateReadOnlyRange", "nestro:arr:IterateReadOnlyRangeWithMutationCallback", "nestro:arr:IterateReadOnlyRangeWithMutationCallback(nil)",
	"nestro:arr:ReadOnlyIterator", "nestro:arr:ReadOnlyIteratorWithMutationCallback", "nestro:arr:ReadOnlyRangeIterator", "nestro:arr:ReadOnlyRangeIteratorWithMutationCallback",
	"nestro:map:IterateReadOnly", "nestro:map:IterateReadOnlyWithMutationCallback", "nestro:map:IterateReadOnlyValues",
	"nestro:map:IterateReadOnlyValuesWithMutationCallback", "nestro:map:ReadOnlyIterator.Next", "nestro:map:ReadOnlyIteratorWithMutationCallback.NextValue",
	"nestro:refused:inlined-child", "nestro:refused:standalone-child", "nestro:refused:child-array", "nestro:refused:child-map",
	"nestro:callback-called",
	"nestmut:arr:Iterate", "nestmut:arr:IterateRange", "nestmut:arr:Iterator", "nestmut:map:Iterate", "nestmut:map:IterateValues", "nestmut:map:Iterator.Next",
	"nestmut:child:inlined->standalone", "nestmut:child:standalone->inlined", "nestmut:after-reload",
	"nestchild:array:inlined", "nestchild:array:standalone", "nestchild:map:inlined", "nestchild:map:standalone", "nestchild:after-reload",
}

type inChild struct {
	isMap bool
	arr   []hx.TV
	kv    map[hx.TV]hx.TV
	ty    uint64
}

type inSlot struct {
	key   hx.TV // parent maps
	plain hx.TV // Size 0 when the slot holds a child
	child *inChild
}

type inEnv struct {
	cfg      *Config
	st       *hx.Stats
	w        *hx.W
	rng      *rand.Rand
	prog     int
	T        uint32
	ledger   *hx.Ledger
	ps       *atree.PersistentSlabStorage
	addr     atree.Address
	isMap    bool
	pa       *atree.Array
	pm       *atree.OrderedMap
	slots    []inSlot // parent arrays: in index order; parent maps: in enumeration order (refreshed)
	nextPay  uint64
	maxElem  uint32
	failed   bool
	mutCalls int
}

func (e *inEnv) viol(what string) {
	e.failed = true
	e.st.Violations = append(e.st.Violations, hx.Violation{Property: "C13", Stream: e.st.Stream, Seed: e.cfg.Seed, Program: e.prog, What: what, Trace: e.w.Path, Line: e.w.Lines})
}

func (e *inEnv) tv(size uint32) hx.TV {
	e.nextPay++
	return itFitValue(size, e.nextPay)
}

func tyEqual(a, b atree.TypeInfo) bool { return a == b }

func (e *inEnv) builder() atree.DigesterBuilder { return atree.NewDefaultDigesterBuilder() }

// newChild creates a child container holding n small elements.
func (e *inEnv) newChild(st atree.SlabStorage, isMap bool, n int) (atree.Value, *inChild, error) {
	c := &inChild{isMap: isMap, ty: uint64(2 + e.rng.Intn(50)), kv: map[hx.TV]hx.TV{}}
	if isMap {
		m, err := atree.NewMap(st, e.addr, e.builder(), hx.TI(c.ty))
		if err != nil {
			return nil, nil, err
		}
		for i := 0; i < n; i++ {
			k, v := e.tv(uint32(3+e.rng.Intn(6))), e.tv(uint32(3+e.rng.Intn(12)))
			if _, err := m.Set(hx.CompareKey, hx.HashInput, k, v); err != nil {
				return nil, nil, err
			}
			c.kv[k] = v
		}
		return m, c, nil
	}
	a, err := atree.NewArray(st, e.addr, hx.TI(c.ty))
	if err != nil {
		return nil, nil, err
	}
	for i := 0; i < n; i++ {
		v := e.tv(uint32(3 + e.rng.Intn(12)))
		if err := a.Append(v); err != nil {
			return nil, nil, err
		}
		c.arr = append(c.arr, v)
	}
	return a, c, nil
}

// childSizeFor draws an element count: small children stay inlined, big ones are stand-alone.
func (e *inEnv) childSizeFor() int {
	switch e.rng.Intn(4) {
	case 0:
		return 0
	case 1, 2:
		return 1 + e.rng.Intn(4)
	default:
		return int(e.maxElem/6) + e.rng.Intn(int(e.maxElem/4)+1)
	}
}

func (e *inEnv) build() bool {
	n := 6 + e.rng.Intn(40)
	var err error
	if e.isMap {
		e.pm, err = atree.NewMap(e.ps, e.addr, e.builder(), hx.TI(1))
	} else {
		e.pa, err = atree.NewArray(e.ps, e.addr, hx.TI(1))
	}
	if err != nil {
		e.st.HarnessErr = err.Error()
		return false
	}
	for i := 0; i < n; i++ {
		sl := inSlot{}
		var val atree.Value
		if e.rng.Intn(5) == 0 {
			sl.plain = e.tv(uint32(3 + e.rng.Intn(20)))
			val = sl.plain
		} else {
			v, c, err := e.newChild(e.ps, e.rng.Intn(2) == 0, e.childSizeFor())
			if err != nil {
				e.st.HarnessErr = err.Error()
				return false
			}
			sl.child, val = c, v
		}
		if e.isMap {
			// keys of very different sizes: the inline budget of a value depends on its key's size
			ks := uint32(3 + e.rng.Intn(8))
			if e.rng.Intn(2) == 0 {
				ks = e.maxElem/3 + uint32(e.rng.Intn(int(e.maxElem/8)))
			}
			sl.key = e.tv(ks)
			if _, err := e.pm.Set(hx.CompareKey, hx.HashInput, sl.key, val); err != nil {
				e.st.HarnessErr = err.Error()
				return false
			}
		} else if err := e.pa.Append(val); err != nil {
			e.st.HarnessErr = err.Error()
			return false
		}
		e.slots = append(e.slots, sl)
	}
	if e.isMap {
		e.orderSlots(e.pm)
	}
	return !e.failed
}

// orderSlots sorts the slots of a parent map into the map's enumeration order.
func (e *inEnv) orderSlots(m *atree.OrderedMap) {
	pos := map[hx.TV]int{}
	i := 0
	_ = m.IterateReadOnlyKeys(func(k atree.Value) (bool, error) { pos[k.(hx.TV)] = i; i++; return true, nil })
	if i != len(e.slots) {
		e.viol(fmt.Sprintf("parent map enumerates %d keys, %d were inserted", i, len(e.slots)))
		return
	}
	sort.SliceStable(e.slots, func(a, b int) bool { return pos[e.slots[a].key] < pos[e.slots[b].key] })
}

func childInlined(v atree.Value) bool {
	switch c := v.(type) {
	case *atree.Array:
		return c.Inlined()
	case *atree.OrderedMap:
		return c.Inlined()
	}
	return false
}

// sameChild compares a container value with its shadow (contents, type, order of arrays).
func (e *inEnv) sameChild(v atree.Value, c *inChild) string {
	switch x := v.(type) {
	case *atree.Array:
		if c.isMap {
			return "is an array, shadow is a map"
		}
		if x.Type() != hx.TI(c.ty) {
			return fmt.Sprintf("has type %v, shadow %d", x.Type(), c.ty)
		}
		var got []hx.TV
		bad := false
		if err := x.IterateReadOnly(collectTV(&got, &bad)); err != nil || bad || !equalTV(got, c.arr) {
			return fmt.Sprintf("holds %d elements, shadow %d (or contents differ; %v)", len(got), len(c.arr), err)
		}
	case *atree.OrderedMap:
		if !c.isMap {
			return "is a map, shadow is an array"
		}
		if x.Type() != hx.TI(c.ty) {
			return fmt.Sprintf("has type %v, shadow %d", x.Type(), c.ty)
		}
		if x.Count() != uint64(len(c.kv)) {
			return fmt.Sprintf("holds %d entries, shadow %d", x.Count(), len(c.kv))
		}
		for k, want := range c.kv {
			got, err := x.Get(hx.CompareKey, hx.HashInput, k)
			if tv, _ := got.(hx.TV); err != nil || tv != want {
				return fmt.Sprintf("has %v=%v (%v), shadow %v", k, got, err, want)
			}
		}
	default:
		return fmt.Sprintf("is a %T", v)
	}
	return ""
}

// checkParent compares the parent (on any storage) with the shadow, slot by slot.
func (e *inEnv) checkParent(when string, pa *atree.Array, pm *atree.OrderedMap) {
	check := func(i int, v atree.Value, sl inSlot) bool {
		if sl.child == nil {
			if tv, _ := v.(hx.TV); tv != sl.plain {
				e.viol(fmt.Sprintf("%s: slot %d holds %v, shadow %v", when, i, v, sl.plain))
				return false
			}
			return true
		}
		if d := e.sameChild(v, sl.child); d != "" {
			e.viol(fmt.Sprintf("%s: child in slot %d %s", when, i, d))
			return false
		}
		return true
	}
	if pa != nil {
		if pa.Count() != uint64(len(e.slots)) {
			e.viol(fmt.Sprintf("%s: parent array has %d elements, shadow %d", when, pa.Count(), len(e.slots)))
			return
		}
		for i, sl := range e.slots {
			v, err := pa.Get(uint64(i))
			if err != nil {
				e.viol(fmt.Sprintf("%s: Get(%d): %s", when, i, errLine(err)))
				return
			}
			if !check(i, v, sl) {
				return
			}
		}
		if err := atree.VerifyArray(pa, e.addr, hx.TI(1), tyEqual, hx.HashInput, true); err != nil {
			e.viol(when + ": VerifyArray(parent): " + errLine(err))
		}
		return
	}
	if pm.Count() != uint64(len(e.slots)) {
		e.viol(fmt.Sprintf("%s: parent map has %d entries, shadow %d", when, pm.Count(), len(e.slots)))
		return
	}
	for i, sl := range e.slots {
		v, err := pm.Get(hx.CompareKey, hx.HashInput, sl.key)
		if err != nil {
			e.viol(fmt.Sprintf("%s: Get(%v): %s", when, sl.key, errLine(err)))
			return
		}
		if !check(i, v, sl) {
			return
		}
	}
	if err := atree.VerifyMap(pm, e.addr, hx.TI(1), tyEqual, hx.HashInput, true); err != nil {
		e.viol(when + ": VerifyMap(parent): " + errLine(err))
	}
}

func (e *inEnv) commit() bool {
	if err := e.ps.FastCommit(2); err != nil {
		e.viol("fault-free commit failed: " + errLine(err))
		return false
	}
	return true
}

// reopen opens the committed parent on a fresh storage behind an effect recorder.
func (e *inEnv) reopen() (*hx.RecStorage, *atree.Array, *atree.OrderedMap, bool) {
	rec := hx.NewRecStorage(hx.NewStorage(e.ledger))
	if e.isMap {
		m, err := atree.NewMapWithRootID(rec, e.pm.SlabID(), e.builder())
		if err != nil {
			e.viol("cannot reopen the committed parent map: " + errLine(err))
			return nil, nil, nil, false
		}
		return rec, nil, m, true
	}
	a, err := atree.NewArrayWithRootID(rec, e.pa.SlabID())
	if err != nil {
		e.viol("cannot reopen the committed parent array: " + errLine(err))
		return nil, nil, nil, false
	}
	return rec, a, nil, true
}

// treeIDs: the slabs of the parent's own tree (index and data slabs, collision-group slabs).
func treeIDs(st atree.SlabStorage, root atree.Slab) map[atree.SlabID]bool {
	out := map[atree.SlabID]bool{}
	var rec func(s atree.Slab)
	rec = func(s atree.Slab) {
		out[s.SlabID()] = true
		for _, id := range atree.VerifChildSlabIDs(s) {
			if c, ok, err := st.Retrieve(id); err == nil && ok {
				rec(c)
			}
		}
	}
	rec(root)
	return out
}

// mutateChild applies one random mutation to a child container; `apply` says whether the shadow
// follows (mutable access) or the mutation is expected to be refused.  Returns the error of the
// mutation, its name and whether a refusal is expected from a read-only source.
func (e *inEnv) mutateChild(v atree.Value, c *inChild, apply bool, grow int) (err error, name string, mustRefuse bool) {
	defer func() {
		if r := recover(); r != nil {
			err = fmt.Errorf("PANIC: %v", r)
			name += " (panicked)"
		}
	}()
	mustRefuse = true
	switch x := v.(type) {
	case *atree.Array:
		n := len(c.arr)
		op := e.rng.Intn(5)
		if grow > 0 {
			op = 0
		} else if grow < 0 && n > 0 {
			op = 3
		}
		switch {
		case op == 0 || n == 0 && op != 4:
			nv := e.tv(uint32(3 + e.rng.Intn(10)))
			name, err = "Array.Append", x.Append(nv)
			if apply && err == nil {
				c.arr = append(c.arr, nv)
			}
		case op == 1:
			nv := e.tv(uint32(3 + e.rng.Intn(10)))
			name, err = "Array.Insert", x.Insert(0, nv)
			if apply && err == nil {
				c.arr = append([]hx.TV{nv}, c.arr...)
			}
		case op == 2:
			nv := e.tv(uint32(3 + e.rng.Intn(10)))
			i := e.rng.Intn(n)
			name = "Array.Set"
			_, err = x.Set(uint64(i), nv)
			if apply && err == nil {
				c.arr[i] = nv
			}
		case op == 3:
			i := e.rng.Intn(n)
			name = "Array.Remove"
			_, err = x.Remove(uint64(i))
			if apply && err == nil {
				c.arr = append(c.arr[:i:i], c.arr[i+1:]...)
			}
		default:
			nt := uint64(60 + e.rng.Intn(30))
			// SetType notifies the parent only when the child is inlined (array.go SetType)
			mustRefuse = x.Inlined()
			name, err = "Array.SetType", x.SetType(hx.TI(nt))
			if (apply || !mustRefuse) && err == nil {
				c.ty = nt
			}
		}
	case *atree.OrderedMap:
		keys := make([]hx.TV, 0, len(c.kv))
		for k := range c.kv {
			keys = append(keys, k)
		}
		sort.Slice(keys, func(i, j int) bool { return keys[i].Pay < keys[j].Pay })
		op := e.rng.Intn(4)
		if grow > 0 {
			op = 0
		} else if grow < 0 && len(keys) > 0 {
			op = 2
		}
		switch {
		case op == 0 || len(keys) == 0 && op != 3:
			k, nv := e.tv(uint32(3+e.rng.Intn(6))), e.tv(uint32(3+e.rng.Intn(10)))
			name = "OrderedMap.Set(new key)"
			_, err = x.Set(hx.CompareKey, hx.HashInput, k, nv)
			if apply && err == nil {
				c.kv[k] = nv
			}
		case op == 1:
			k, nv := keys[e.rng.Intn(len(keys))], e.tv(uint32(3+e.rng.Intn(10)))
			name = "OrderedMap.Set(existing key)"
			_, err = x.Set(hx.CompareKey, hx.HashInput, k, nv)
			if apply && err == nil {
				c.kv[k] = nv
			}
		case op == 2:
			k := keys[e.rng.Intn(len(keys))]
			name = "OrderedMap.Remove"
			_, _, err = x.Remove(hx.CompareKey, hx.HashInput, k)
			if apply && err == nil {
				delete(c.kv, k)
			}
		default:
			nt := uint64(60 + e.rng.Intn(30))
			mustRefuse = x.Inlined()
			name, err = "OrderedMap.SetType", x.SetType(hx.TI(nt))
			if (apply || !mustRefuse) && err == nil {
				c.ty = nt
			}
		}
	default:
		return fmt.Errorf("value is a %T", v), "?", true
	}
	return err, name, mustRefuse
}

// ---------------------------------------------------------------------------------------------
// (a) mutation attempts through read-only enumerations

func (e *inEnv) readOnlyAttempts() {
	n := len(e.slots)
	kinds := []string{"IterateReadOnly", "IterateReadOnlyWithMutationCallback", "IterateReadOnlyWithMutationCallback(nil)",
		"IterateReadOnlyRange", "IterateReadOnlyRangeWithMutationCallback", "IterateReadOnlyRangeWithMutationCallback(nil)",
		"ReadOnlyIterator", "ReadOnlyIteratorWithMutationCallback", "ReadOnlyRangeIterator", "ReadOnlyRangeIteratorWithMutationCallback"}
	if e.isMap {
		kinds = []string{"IterateReadOnly", "IterateReadOnlyWithMutationCallback", "IterateReadOnlyValues",
			"IterateReadOnlyValuesWithMutationCallback", "ReadOnlyIterator.Next", "ReadOnlyIteratorWithMutationCallback.NextValue"}
	}
	for _, kind := range kinds {
		if e.failed {
			return
		}
		rec, pa, pm, ok := e.reopen()
		if !ok {
			return
		}
		tag := "nestro:arr:" + kind
		var parentTree map[atree.SlabID]bool
		if e.isMap {
			tag = "nestro:map:" + kind
			parentTree = treeIDs(rec, atree.VerifMapRoot(pm))
		} else {
			parentTree = treeIDs(rec, atree.VerifArrayRoot(pa))
		}
		rec.Reset()
		// the mutation callback: counts its calls and remembers the value it was handed
		var cbVals []atree.Value
		cb := func(v atree.Value) { cbVals = append(cbVals, v) }
		lo, hi := 0, n
		if kind == "IterateReadOnlyRange" || kind == "ReadOnlyRangeIterator" || e.rng.Intn(2) == 0 {
			lo = e.rng.Intn(n/2 + 1)
			hi = n - e.rng.Intn(n/3+1)
		}
		withCB := kind == "IterateReadOnlyWithMutationCallback" || kind == "IterateReadOnlyRangeWithMutationCallback" ||
			kind == "ReadOnlyIteratorWithMutationCallback" || kind == "ReadOnlyRangeIteratorWithMutationCallback" ||
			kind == "IterateReadOnlyValuesWithMutationCallback" || kind == "ReadOnlyIteratorWithMutationCallback.NextValue"
		idx := 0 // position in e.slots of the element being visited
		attempts := 0
		visit := func(v atree.Value) (bool, error) {
			i := idx
			idx++
			if i >= len(e.slots) {
				e.viol(fmt.Sprintf("%s: more elements than the parent holds", kind))
				return false, nil
			}
			sl := e.slots[i]
			if sl.child == nil {
				if tv, _ := v.(hx.TV); tv != sl.plain {
					e.viol(fmt.Sprintf("%s: position %d yielded %v, shadow %v", kind, i, v, sl.plain))
					return false, nil
				}
				return true, nil
			}
			if d := e.sameChild(v, sl.child); d != "" {
				e.viol(fmt.Sprintf("%s: child at position %d %s", kind, i, d))
				return false, nil
			}
			if e.rng.Intn(3) == 0 {
				return true, nil
			}
			inl := childInlined(v)
			before := len(cbVals)
			shadowCopy := *sl.child // the shadow must not follow a refused mutation
			err, name, mustRefuse := e.mutateChild(v, &shadowCopy, false, 0)
			attempts++
			if !mustRefuse {
				// SetType on a stand-alone child stores the child's own slab and never asks the parent
				if err != nil {
					e.viol(fmt.Sprintf("%s: %s on a stand-alone child failed: %s", kind, name, errLine(err)))
					return false, nil
				}
				e.st.Hit("observation:readonly-iterator:SetType-on-standalone-child-is-not-refused")
				return true, nil
			}
			if err == nil {
				e.viol(fmt.Sprintf("%s: %s on the child at position %d (inlined=%v) obtained from a read-only iterator was NOT refused", kind, name, i, inl))
				return false, nil
			}
			if k := hx.ErrKind(err); k != "ReadOnlyIteratorElementMutation:Fatal" {
				e.viol(fmt.Sprintf("%s: %s on the child at position %d (inlined=%v) obtained from a read-only iterator failed with %s (%s), want ReadOnlyIteratorElementMutation:Fatal", kind, name, i, inl, k, errLine(err)))
				return false, nil
			}
			// ... naming the element that was mutated and the container whose iterator handed it out (C18)
			if d := roErrNames(err, v, pa, pm); d != "" {
				e.viol(fmt.Sprintf("%s: %s on the child at position %d obtained from a read-only iterator was refused, but %s", kind, name, i, d))
				return false, nil
			}
			if inl {
				e.st.Hit("nestro:refused:inlined-child")
			} else {
				e.st.Hit("nestro:refused:standalone-child")
			}
			if sl.child.isMap {
				e.st.Hit("nestro:refused:child-map")
			} else {
				e.st.Hit("nestro:refused:child-array")
			}
			if withCB {
				if len(cbVals) != before+1 || cbVals[before] != v {
					e.viol(fmt.Sprintf("%s: %s was refused but the mutation callback was called %d time(s) with the mutated child (want once)", kind, name, len(cbVals)-before))
					return false, nil
				}
				e.st.Hit("nestro:callback-called")
			}
			return true, nil
		}
		var err error
		func() {
			defer func() {
				if r := recover(); r != nil {
					err = fmt.Errorf("PANIC: %v", r)
				}
			}()
			drive := func(it atree.ArrayIterator, ierr error) error {
				if ierr != nil {
					return ierr
				}
				if it.CanMutate() {
					e.viol(kind + ": CanMutate() of a read-only iterator is true")
				}
				for {
					v, err := it.Next()
					if err != nil || v == nil {
						return err
					}
					if resume, _ := visit(v); !resume {
						return nil
					}
				}
			}
			if !e.isMap {
				switch kind {
				case "IterateReadOnly":
					lo, hi = 0, n
					err = pa.IterateReadOnly(visit)
				case "IterateReadOnlyWithMutationCallback":
					lo, hi = 0, n
					err = pa.IterateReadOnlyWithMutationCallback(visit, cb)
				case "IterateReadOnlyWithMutationCallback(nil)":
					lo, hi = 0, n
					err = pa.IterateReadOnlyWithMutationCallback(visit, nil)
				case "IterateReadOnlyRange":
					idx = lo
					err = pa.IterateReadOnlyRange(uint64(lo), uint64(hi), visit)
				case "IterateReadOnlyRangeWithMutationCallback":
					idx = lo
					err = pa.IterateReadOnlyRangeWithMutationCallback(uint64(lo), uint64(hi), visit, cb)
				case "IterateReadOnlyRangeWithMutationCallback(nil)":
					idx = lo
					err = pa.IterateReadOnlyRangeWithMutationCallback(uint64(lo), uint64(hi), visit, nil)
				case "ReadOnlyIterator":
					lo, hi = 0, n
					err = drive(pa.ReadOnlyIterator())
				case "ReadOnlyIteratorWithMutationCallback":
					lo, hi = 0, n
					err = drive(pa.ReadOnlyIteratorWithMutationCallback(cb))
				case "ReadOnlyRangeIterator":
					idx = lo
					err = drive(pa.ReadOnlyRangeIterator(uint64(lo), uint64(hi)))
				default:
					idx = lo
					err = drive(pa.ReadOnlyRangeIteratorWithMutationCallback(uint64(lo), uint64(hi), cb))
				}
				return
			}
			lo, hi = 0, n
			pair := func(k, v atree.Value) (bool, error) {
				if idx < len(e.slots) && k != atree.Value(e.slots[idx].key) {
					e.viol(fmt.Sprintf("%s: position %d yielded key %v, enumeration order says %v", kind, idx, k, e.slots[idx].key))
					return false, nil
				}
				return visit(v)
			}
			switch kind {
			case "IterateReadOnly":
				err = pm.IterateReadOnly(pair)
			case "IterateReadOnlyWithMutationCallback":
				err = pm.IterateReadOnlyWithMutationCallback(pair, nil, cb)
			case "IterateReadOnlyValues":
				err = pm.IterateReadOnlyValues(visit)
			case "IterateReadOnlyValuesWithMutationCallback":
				err = pm.IterateReadOnlyValuesWithMutationCallback(visit, cb)
			case "ReadOnlyIterator.Next":
				it, ierr := pm.ReadOnlyIterator()
				for err = ierr; err == nil; {
					var k, v atree.Value
					k, v, err = it.Next()
					if err != nil || k == nil {
						break
					}
					if resume, _ := pair(k, v); !resume {
						break
					}
				}
			default:
				it, ierr := pm.ReadOnlyIteratorWithMutationCallback(nil, cb)
				for err = ierr; err == nil; {
					var v atree.Value
					v, err = it.NextValue()
					if err != nil || v == nil {
						break
					}
					if resume, _ := visit(v); !resume {
						break
					}
				}
			}
		}()
		e.st.Hit(tag)
		if e.failed {
			return
		}
		if err != nil {
			e.viol(fmt.Sprintf("%s over a parent of %d elements with mutation attempts on its children failed: %s", kind, n, errLine(err)))
			return
		}
		if idx != hi {
			e.viol(fmt.Sprintf("%s over [%d,%d): visited up to position %d", kind, lo, hi, idx))
			return
		}
		// no slab of the parent's own tree was written
		for _, ef := range rec.Effs {
			if ef.Kind != 'a' && parentTree[ef.ID] {
				e.viol(fmt.Sprintf("%s: a refused child mutation wrote slab %s of the PARENT's tree (effects %s)", kind, hx.IDStr(ef.ID), hx.NetEffect(rec.Effs)))
				return
			}
		}
		if attempts > 0 && len(rec.Effs) > 0 {
			e.st.Hit("observation:readonly-iterator:refused-mutation-of-standalone-child-is-stored-in-the-child-slab")
		}
		// the storage is dropped without a commit: the committed parent is what it was
		_, pa2, pm2, ok := e.reopen()
		if !ok {
			return
		}
		e.checkParent("after dropping the storage used for "+kind, pa2, pm2)
	}
}

// ---------------------------------------------------------------------------------------------
// (b) the same mutations through mutable enumerations

func (e *inEnv) mutableMutations() {
	n := len(e.slots)
	kinds := []string{"Iterate", "IterateRange", "Iterator"}
	if e.isMap {
		kinds = []string{"Iterate", "IterateValues", "Iterator.Next"}
	}
	for _, kind := range kinds {
		if e.failed {
			return
		}
		lo, hi := 0, n
		if kind == "IterateRange" {
			lo = e.rng.Intn(n/2 + 1)
			hi = n - e.rng.Intn(n/3+1)
		}
		idx := lo
		// direction of this pass: grow children (inlined -> stand-alone), shrink them, or mixed
		dir := e.rng.Intn(3) - 1
		visit := func(v atree.Value) (bool, error) {
			i := idx
			idx++
			if i >= len(e.slots) {
				e.viol(fmt.Sprintf("mutable %s: more elements than the parent holds (repeat)", kind))
				return false, nil
			}
			sl := e.slots[i]
			if sl.child == nil {
				if tv, _ := v.(hx.TV); tv != sl.plain {
					e.viol(fmt.Sprintf("mutable %s: position %d yielded %v, shadow %v (skip or repeat)", kind, i, v, sl.plain))
					return false, nil
				}
				return true, nil
			}
			if d := e.sameChild(v, sl.child); d != "" {
				e.viol(fmt.Sprintf("mutable %s: child at position %d %s (skip or repeat)", kind, i, d))
				return false, nil
			}
			was := childInlined(v)
			reps := 1 + e.rng.Intn(int(e.maxElem/5)+2)
			if e.rng.Intn(3) == 0 {
				reps = 1
			}
			for j := 0; j < reps; j++ {
				err, name, _ := e.mutateChild(v, sl.child, true, dir)
				if err != nil {
					e.viol(fmt.Sprintf("mutable %s: %s on the child at position %d failed: %s", kind, name, i, errLine(err)))
					return false, nil
				}
			}
			if now := childInlined(v); was && !now {
				e.st.Hit("nestmut:child:inlined->standalone")
			} else if !was && now {
				e.st.Hit("nestmut:child:standalone->inlined")
			}
			return true, nil
		}
		var err error
		func() {
			defer func() {
				if r := recover(); r != nil {
					err = fmt.Errorf("PANIC: %v", r)
				}
			}()
			pair := func(k, v atree.Value) (bool, error) {
				if idx < len(e.slots) && k != atree.Value(e.slots[idx].key) {
					e.viol(fmt.Sprintf("mutable %s: position %d yielded key %v, enumeration order says %v (skip or repeat)", kind, idx, k, e.slots[idx].key))
					return false, nil
				}
				return visit(v)
			}
			switch {
			case !e.isMap && kind == "Iterate":
				err = e.pa.Iterate(visit)
			case !e.isMap && kind == "IterateRange":
				err = e.pa.IterateRange(uint64(lo), uint64(hi), visit)
			case !e.isMap:
				it, ierr := e.pa.Iterator()
				for err = ierr; err == nil; {
					var v atree.Value
					v, err = it.Next()
					if err != nil || v == nil {
						break
					}
					if resume, _ := visit(v); !resume {
						break
					}
				}
			case kind == "Iterate":
				err = e.pm.Iterate(hx.CompareKey, hx.HashInput, pair)
			case kind == "IterateValues":
				err = e.pm.IterateValues(hx.CompareKey, hx.HashInput, visit)
			default:
				it, ierr := e.pm.Iterator(hx.CompareKey, hx.HashInput)
				for err = ierr; err == nil; {
					var k, v atree.Value
					k, v, err = it.Next()
					if err != nil || k == nil {
						break
					}
					if resume, _ := pair(k, v); !resume {
						break
					}
				}
			}
		}()
		if e.isMap {
			e.st.Hit("nestmut:map:" + kind)
		} else {
			e.st.Hit("nestmut:arr:" + kind)
		}
		if e.failed {
			return
		}
		if err != nil {
			e.viol(fmt.Sprintf("mutable %s with mutations of the children failed: %s", kind, errLine(err)))
			return
		}
		if idx != hi {
			e.viol(fmt.Sprintf("mutable %s over [%d,%d) with mutations of the children: visited up to position %d (skip)", kind, lo, hi, idx))
			return
		}
		e.checkParent("after mutating children through mutable "+kind, e.pa, e.pm)
		if e.failed || !e.commit() {
			return
		}
		_, pa2, pm2, ok := e.reopen()
		if !ok {
			return
		}
		e.checkParent("after mutating children through mutable "+kind+", commit and reload", pa2, pm2)
		e.st.Hit("nestmut:after-reload")
	}
}

// ---------------------------------------------------------------------------------------------
// (c) every iterator flavour ON a child obtained from its parent

func (e *inEnv) iterateChildren(when string, pa *atree.Array, pm *atree.OrderedMap) {
	for i, sl := range e.slots {
		if sl.child == nil || e.failed {
			continue
		}
		var v atree.Value
		var err error
		if pa != nil {
			v, err = pa.Get(uint64(i))
		} else {
			v, err = pm.Get(hx.CompareKey, hx.HashInput, sl.key)
		}
		if err != nil {
			e.viol(fmt.Sprintf("%s: fetching the child in slot %d failed: %s", when, i, errLine(err)))
			return
		}
		where := fmt.Sprintf("%s: child in slot %d (inlined=%v)", when, i, childInlined(v))
		state := "standalone"
		if childInlined(v) {
			state = "inlined"
		}
		switch c := v.(type) {
		case *atree.Array:
			e.st.Hit("nestchild:array:" + state)
			e.iterChildArray(where, c, sl.child.arr)
		case *atree.OrderedMap:
			e.st.Hit("nestchild:map:" + state)
			e.iterChildMap(where, c, sl.child.kv)
		default:
			e.viol(fmt.Sprintf("%s is a %T", where, v))
		}
	}
}

func (e *inEnv) iterChildArray(where string, c *atree.Array, want []hx.TV) {
	n := len(want)
	lo := e.rng.Intn(n + 1)
	hi := lo + e.rng.Intn(n-lo+1)
	run := func(name string, wantL []hx.TV, f func(fn atree.ArrayIterationFunc) error) {
		var got []hx.TV
		bad := false
		if err := f(collectTV(&got, &bad)); err != nil || bad || !equalTV(got, wantL) {
			e.viol(fmt.Sprintf("%s: %s yielded %d elements, the child holds %d (or contents / order differ; %v)", where, name, len(got), len(wantL), err))
		}
	}
	obj := func(name string, wantL []hx.TV, wantCM bool, it atree.ArrayIterator, err error) {
		if err != nil {
			e.viol(fmt.Sprintf("%s: %s failed: %s", where, name, errLine(err)))
			return
		}
		if it.CanMutate() != wantCM {
			e.viol(fmt.Sprintf("%s: %s.CanMutate() = %v", where, name, !wantCM))
		}
		for i := 0; i < len(wantL)+2; i++ {
			v, err := it.Next()
			if err != nil {
				e.viol(fmt.Sprintf("%s: %s.Next() call %d failed: %s", where, name, i, errLine(err)))
				return
			}
			if i < len(wantL) {
				if tv, _ := v.(hx.TV); tv != wantL[i] {
					e.viol(fmt.Sprintf("%s: %s.Next() call %d returned %v, the child holds %v there", where, name, i, v, wantL[i]))
					return
				}
			} else if v != nil {
				e.viol(fmt.Sprintf("%s: %s.Next() call %d after the end returned %v", where, name, i, v))
				return
			}
		}
	}
	run("IterateReadOnly", want, c.IterateReadOnly)
	run("Iterate", want, c.Iterate)
	run("IterateReadOnlyLoadedValues", want, c.IterateReadOnlyLoadedValues)
	run("IterateRange", want[lo:hi], func(fn atree.ArrayIterationFunc) error { return c.IterateRange(uint64(lo), uint64(hi), fn) })
	run("IterateReadOnlyRange", want[lo:hi], func(fn atree.ArrayIterationFunc) error { return c.IterateReadOnlyRange(uint64(lo), uint64(hi), fn) })
	it1, err1 := c.Iterator()
	obj("Iterator", want, true, it1, err1)
	it2, err2 := c.ReadOnlyIterator()
	obj("ReadOnlyIterator", want, false, it2, err2)
	it3, err3 := c.ReadOnlyRangeIterator(uint64(lo), uint64(hi))
	obj("ReadOnlyRangeIterator", want[lo:hi], false, it3, err3)
	it4, err4 := c.RangeIterator(uint64(lo), uint64(hi))
	obj("RangeIterator", want[lo:hi], true, it4, err4)
	it5, err5 := c.ReadOnlyLoadedValueIterator()
	obj("ReadOnlyLoadedValueIterator", want, false, it5, err5)
	if err := c.IterateReadOnlyRange(uint64(n+1), uint64(n+2), func(atree.Value) (bool, error) { return true, nil }); hx.ErrKind(err) != "SliceOutOfBounds:User" {
		e.viol(fmt.Sprintf("%s: IterateReadOnlyRange past the end answered %s", where, hx.ErrKind(err)))
	}
}

func (e *inEnv) iterChildMap(where string, c *atree.OrderedMap, want map[hx.TV]hx.TV) {
	var ref []kvTV
	pairInto := func(dst *[]kvTV) atree.MapEntryIterationFunc {
		return func(k, v atree.Value) (bool, error) {
			kt, _ := k.(hx.TV)
			vt, _ := v.(hx.TV)
			*dst = append(*dst, kvTV{kt, vt})
			return true, nil
		}
	}
	if err := c.IterateReadOnly(pairInto(&ref)); err != nil {
		e.viol(fmt.Sprintf("%s: IterateReadOnly failed: %s", where, errLine(err)))
		return
	}
	seen := map[hx.TV]bool{}
	for _, p := range ref {
		if w, ok := want[p.k]; !ok || w != p.v || seen[p.k] {
			e.viol(fmt.Sprintf("%s: IterateReadOnly yielded %v=%v (present=%v, shadow %v, repeated=%v)", where, p.k, p.v, ok, w, seen[p.k]))
			return
		}
		seen[p.k] = true
	}
	if len(ref) != len(want) {
		e.viol(fmt.Sprintf("%s: IterateReadOnly yielded %d entries, the child holds %d", where, len(ref), len(want)))
		return
	}
	cmp := func(name string, got []kvTV, err error, comp byte) {
		ok := err == nil && len(got) == len(ref)
		for i := 0; ok && i < len(ref); i++ {
			switch comp {
			case 'K':
				ok = got[i].k == ref[i].k
			case 'V':
				ok = got[i].v == ref[i].v
			default:
				ok = got[i] == ref[i]
			}
		}
		if !ok {
			e.viol(fmt.Sprintf("%s: %s yielded %d entries, IterateReadOnly %d (or contents / order differ; %v)", where, name, len(got), len(ref), err))
		}
	}
	var a, b, ks, rks, vs, rvs []kvTV
	errA := c.Iterate(hx.CompareKey, hx.HashInput, pairInto(&a))
	cmp("Iterate", a, errA, 'N')
	errB := c.IterateReadOnlyLoadedValues(pairInto(&b))
	cmp("IterateReadOnlyLoadedValues", b, errB, 'N')
	keyInto := func(dst *[]kvTV) atree.MapElementIterationFunc {
		return func(k atree.Value) (bool, error) { kt, _ := k.(hx.TV); *dst = append(*dst, kvTV{k: kt}); return true, nil }
	}
	valInto := func(dst *[]kvTV) atree.MapElementIterationFunc {
		return func(v atree.Value) (bool, error) { vt, _ := v.(hx.TV); *dst = append(*dst, kvTV{v: vt}); return true, nil }
	}
	err := c.IterateKeys(hx.CompareKey, hx.HashInput, keyInto(&ks))
	cmp("IterateKeys", ks, err, 'K')
	err = c.IterateReadOnlyKeys(keyInto(&rks))
	cmp("IterateReadOnlyKeys", rks, err, 'K')
	err = c.IterateValues(hx.CompareKey, hx.HashInput, valInto(&vs))
	cmp("IterateValues", vs, err, 'V')
	err = c.IterateReadOnlyValues(valInto(&rvs))
	cmp("IterateReadOnlyValues", rvs, err, 'V')
	// one object of each flavour, the three step methods in rotation
	for _, fl := range []string{"Iterator", "ReadOnlyIterator", "ReadOnlyLoadedValueIterator"} {
		var it atree.MapIterator
		var err error
		switch fl {
		case "Iterator":
			it, err = c.Iterator(hx.CompareKey, hx.HashInput)
		case "ReadOnlyIterator":
			it, err = c.ReadOnlyIterator()
		default:
			it, err = c.ReadOnlyLoadedValueIterator()
		}
		if err != nil {
			e.viol(fmt.Sprintf("%s: %s failed: %s", where, fl, errLine(err)))
			continue
		}
		off := e.rng.Intn(3)
		for i := 0; i < len(ref)+2; i++ {
			var k, v atree.Value
			call := "NKV"[(i+off)%3]
			switch call {
			case 'N':
				k, v, err = it.Next()
			case 'K':
				k, err = it.NextKey()
			default:
				v, err = it.NextValue()
			}
			if err != nil {
				e.viol(fmt.Sprintf("%s: %s call %d (%c) failed: %s", where, fl, i, call, errLine(err)))
				break
			}
			if i >= len(ref) {
				if k != nil || v != nil {
					e.viol(fmt.Sprintf("%s: %s call %d (%c) after the end returned %v, %v", where, fl, i, call, k, v))
					break
				}
				continue
			}
			kt, _ := k.(hx.TV)
			vt, _ := v.(hx.TV)
			if (call != 'V' && kt != ref[i].k) || (call != 'K' && vt != ref[i].v) || (call == 'V' && k != nil) || (call == 'K' && v != nil) {
				e.viol(fmt.Sprintf("%s: %s call %d (%c) returned %v, %v; the %d-th pair is %v=%v", where, fl, i, call, k, v, i, ref[i].k, ref[i].v))
				break
			}
		}
	}
}

// iterNestedReadOnly is one program of parts (a), (b), (c).
func iterNestedReadOnly(cfg *Config, st *hx.Stats, w *hx.W, rng *rand.Rand, p int) {
	T := []uint32{256, 512, 1024, 300}[(p/2)%4]
	atree.VerifSetThreshold(T)
	_, _, _, _, maxElem, _ := atree.VerifThresholds()
	e := &inEnv{cfg: cfg, st: st, w: w, rng: rng, prog: p, T: T, ledger: hx.NewLedger(), isMap: p%2 == 1, maxElem: maxElem,
		addr: hx.MkAddr(uint64(1 + rng.Intn(3))), nextPay: 1000}
	e.ps = hx.NewStorage(e.ledger)
	if !e.build() {
		return
	}
	e.checkParent("after building", e.pa, e.pm)
	if e.failed || !e.commit() {
		return
	}
	e.iterateChildren("live parent", e.pa, e.pm)
	if _, pa2, pm2, ok := e.reopen(); ok && !e.failed {
		e.checkParent("after commit and reload", pa2, pm2)
		e.iterateChildren("reloaded parent", pa2, pm2)
		e.st.Hit("nestchild:after-reload")
	}
	e.loadedPartial("committed parent")
	for round := 0; round < 2 && !e.failed; round++ {
		e.readOnlyAttempts()
		if e.failed {
			return
		}
		e.mutableMutations()
		if e.failed {
			return
		}
		e.iterateChildren("live parent after mutable-iterator mutations", e.pa, e.pm)
		e.loadedPartial("committed parent after mutable-iterator mutations")
	}
}
