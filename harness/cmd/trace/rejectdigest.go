package main

// callbackfail extension: a caller-supplied DigesterBuilder / Digester returning RAW errors (the library's
// own builder wraps the hash-input provider's error itself, which hides the wraps at its call sites), and
// failing element providers / storables / digesters inside the bulk builds (see rejectext.go).

import (
	"fmt"

	"github.com/onflow/atree"

	"verifharness/hx"
)

// digestTable: keys 2j and 2j+1 (below 100) share the first-level digest only: an odd key meets a single
// resident even key (re-hash of the resident key); keys from 100 on all share the first-level digest and
// form one group with three second-level digests.
func digestTable(fd, fl *hx.FailSwitch) *hx.TableDigesterBuilder {
	return &hx.TableDigesterBuilder{L: 3, FailDigest: fd, FailLevel: fl, Fn: func(k hx.TV, l uint) uint64 {
		switch {
		case k.Pay >= 100 && l == 0:
			return 999999
		case k.Pay >= 100 && l == 1:
			return k.Pay % 3
		case l == 0:
			return k.Pay / 2 * 1000
		}
		return k.Pay*10 + uint64(l)
	}}
}

func (x *cbx) rawDigester() {
	atree.VerifSetThreshold(256)
	type keyClass struct {
		name string
		key  hx.TV
	}
	classes := []keyClass{
		{"single-resident", tvs(9, 8)},    // present, alone under its first-level digest
		{"meets-resident", tvs(9, 9)},     // absent, shares the first-level digest of the single resident key 8
		{"group-member", tvs(9, 104)},     // present, inside the group
		{"new-group-member", tvs(9, 131)}, // absent, belongs into the group
		{"absent", tvs(9, 71)},            // absent, first-level digest unused
	}
	droppedSamples := map[string]bool{}
	for _, kind := range mapKinds {
		for _, kc := range classes {
			for _, comp := range []string{"builder", "level"} {
				for at := 1; at <= 4; at++ {
					if x.stop() {
						return
					}
					s := newXStore()
					fd, fl := &hx.FailSwitch{}, &hx.FailSwitch{}
					b := digestTable(fd, fl)
					m, err := atree.NewMap(s.rec, hx.MkAddr(2), b, hx.TI(3))
					for j := uint64(1); j <= 20 && err == nil; j++ {
						_, err = m.Set(hx.CompareKey, hx.HashInput, tvs(9, 2*j), tvs(12, j))
					}
					for k := uint64(100); k < 112 && err == nil; k++ {
						_, err = m.Set(hx.CompareKey, hx.HashInput, tvs(9, k), tvs(12, k))
					}
					if err != nil {
						x.st.HarnessErr = "digester setup: " + err.Error()
						return
					}
					s.maps = []*atree.OrderedMap{m}
					s.rec.Reset()
					before := s.snapshot()
					if comp == "builder" {
						fd.Arm(at)
					} else {
						fl.Arm(at)
					}
					c := &cbMap{m: m}
					what := fmt.Sprintf("map.%s/digester-%s", kind, comp)
					err = x.guard(what, func() error { return mapRequest(c, kind, hx.CompareKey, hx.HashInput, kc.key, 77) })
					fired := fd.Fired || fl.Fired
					fd.Arm(0)
					fl.Arm(0)
					if !fired || err == errPanicked {
						continue
					}
					switch {
					case comp == "builder" && at >= 2:
						what = "map.Set/digester-builder-for-resident-key"
					case comp == "level" && b.FailedKey != kc.key:
						what = "map.Set/digester-level-of-resident-key"
					case comp == "level" && b.FailedAtLevel >= 1:
						// inlineCollisionGroup / externalCollisionGroup .Get/.Set/.Remove/.getElementAndNextKey:
						// `hkey, _ := digester.Digest(level)`: the error of the caller's Digester is DROPPED and
						// digest 0 used.  Recorded as an observation, not raised.
						x.st.Ops++
						x.st.Hit("observation:digester-error-dropped-in-collision-group")
						label := fmt.Sprintf("%s of a %s key, Digester.Digest(%d) failed", kind, kc.name, b.FailedAtLevel)
						if !droppedSamples[label] && x.e.p == 0 {
							droppedSamples[label] = true
							after := ""
							if kind == "Set" && err == nil {
								_, gerr := m.Get(hx.CompareKey, hx.HashInput, kc.key)
								verr := atree.VerifyMap(m, hx.MkAddr(2), hx.TI(3), func(a, b atree.TypeInfo) bool { return a == b }, hx.HashInput, true)
								after = fmt.Sprintf("; afterwards Get of that key with a healthy digester: %s, Count()=%d, VerifyMap fails: %v", hx.ErrKind(gerr), m.Count(), verr != nil)
							}
							x.st.Samples = append(x.st.Samples, fmt.Sprintf("observation (not raised): %s: the request returned %s%s", label, hx.ErrKind(err), after))
						}
						continue
					case comp == "level":
						what = fmt.Sprintf("map.%s/digester-level0", kind)
					}
					x.external(what, err)
					x.unchanged(what, s, before)
				}
			}
		}
	}
}

// rawDigesterIterations: the mutable iterations look every key up again (OrderedMap.getElementAndNextKey /
// getNextKey): a failing DigesterBuilder / first-level Digester call there must surface as External.
func (x *cbx) rawDigesterIterations() {
	okv := func(atree.Value) (bool, error) { return true, nil }
	okkv := func(atree.Value, atree.Value) (bool, error) { return true, nil }
	for _, fl := range []string{"Iterate", "IterateKeys", "IterateValues"} {
		for _, comp := range []string{"builder", "level"} {
			for try := 0; try < 6 && !x.stop(); try++ {
				s := newXStore()
				fd, fsw := &hx.FailSwitch{}, &hx.FailSwitch{}
				b := digestTable(fd, fsw)
				m, err := atree.NewMap(s.rec, hx.MkAddr(2), b, hx.TI(3))
				for j := uint64(1); j <= 20 && err == nil; j++ {
					_, err = m.Set(hx.CompareKey, hx.HashInput, tvs(9, 2*j), tvs(12, j))
				}
				for k := uint64(100); k < 106 && err == nil; k++ {
					_, err = m.Set(hx.CompareKey, hx.HashInput, tvs(9, k), tvs(12, k))
				}
				if err != nil {
					x.st.HarnessErr = "digester setup: " + err.Error()
					return
				}
				s.maps = []*atree.OrderedMap{m}
				s.rec.Reset()
				before := s.snapshot()
				at := 1 + x.rng.Intn(20)
				if comp == "builder" {
					fd.Arm(at)
				} else {
					fsw.Arm(at)
				}
				what := fmt.Sprintf("map.%s/digester-%s", fl, comp)
				err = x.guard(what, func() error {
					switch fl {
					case "Iterate":
						return m.Iterate(hx.CompareKey, hx.HashInput, okkv)
					case "IterateKeys":
						return m.IterateKeys(hx.CompareKey, hx.HashInput, okv)
					}
					return m.IterateValues(hx.CompareKey, hx.HashInput, okv)
				})
				fired := fd.Fired || fsw.Fired
				fd.Arm(0)
				fsw.Arm(0)
				if !fired || err == errPanicked {
					continue
				}
				if comp == "level" && b.FailedAtLevel >= 1 {
					x.st.Ops++
					x.st.Hit("observation:digester-error-dropped-in-collision-group")
					continue
				}
				if comp == "level" {
					what += "0"
				}
				x.external(what, err)
				x.unchanged(what, s, before)
			}
		}
	}
}

// failingProviders: the bulk builds with a failing element provider, a value / key whose Storable() fails,
// a failing DigesterBuilder / Digester, each at a random element position.  Category and cause only: a
// refused bulk build leaves the slabs it had stored (recorded finding batch-build:rejected-build-leaves-slabs).
func (x *cbx) failingProviders() {
	atree.VerifSetThreshold(256)
	rng := x.rng
	const n = 120
	// arrays
	for _, comp := range []string{"provider", "value-storable"} {
		if x.stop() {
			return
		}
		s := newXStore()
		failAt, i := 1+rng.Intn(n), 0
		sw := &hx.FailSwitch{At: 1}
		what := "NewArrayFromBatchData/" + comp
		var a *atree.Array
		err := x.guard(what, func() (err error) {
			a, err = atree.NewArrayFromBatchData(s.rec, hx.MkAddr(1), hx.TI(4), func() (atree.Value, error) {
				i++
				switch {
				case i > n:
					return nil, nil
				case i == failAt && comp == "provider":
					sw.Fired = true
					return nil, errCallback
				case i == failAt:
					return hx.FV{TV: tvs(20, uint64(i)), OnStorable: sw}, nil
				}
				return tvs(20, uint64(i)), nil
			})
			return
		})
		if sw.Fired && x.external(what, err) && a != nil {
			x.viol(what + ": a container was returned next to the error")
		}
	}
	// maps: triples of keys share the first-level digest (the collision path of the bulk build is taken too)
	for _, comp := range []string{"provider", "key-storable", "value-storable", "digester-builder", "digester-level0"} {
		for rep := 0; rep < 2; rep++ {
			if x.stop() {
				return
			}
			s := newXStore()
			fd, fl := &hx.FailSwitch{}, &hx.FailSwitch{}
			b := &hx.TableDigesterBuilder{L: 3, FailDigest: fd, FailLevel: fl, Fn: func(k hx.TV, l uint) uint64 {
				if l == 0 {
					return k.Pay / 3
				}
				return k.Pay*10 + uint64(l)
			}}
			failAt, i := 1+rng.Intn(n), 0
			sw := &hx.FailSwitch{At: 1}
			if comp == "digester-builder" {
				fd.Arm(failAt)
			}
			what := "NewMapFromBatchData/" + comp
			var m *atree.OrderedMap
			err := x.guard(what, func() (err error) {
				m, err = atree.NewMapFromBatchData(s.rec, hx.MkAddr(2), b, hx.TI(3), hx.CompareKey, hx.HashInput, 7,
					func() (atree.Value, atree.Value, error) {
						i++
						k, v := tvs(9, uint64(i)), tvs(14, uint64(i))
						switch {
						case i > n:
							return nil, nil, nil
						case i != failAt:
							return k, v, nil
						}
						switch comp {
						case "provider":
							sw.Fired = true
							return nil, nil, errCallback
						case "key-storable":
							return hx.FV{TV: k, OnStorable: sw}, v, nil
						case "value-storable":
							return k, hx.FV{TV: v, OnStorable: sw}, nil
						case "digester-level0":
							fl.Arm(1) // the next Digester.Digest call is Digest(0) of this key
						}
						return k, v, nil
					})
				return
			})
			fired := sw.Fired || fd.Fired || fl.Fired
			if fl.Fired && b.FailedAtLevel != 0 {
				fired = false // a deeper level of a colliding key: dropped by the group (see rawDigester)
				x.st.Hit("observation:digester-error-dropped-in-collision-group")
			}
			if fired && x.external(what, err) && m != nil {
				x.viol(what + ": a container was returned next to the error")
			}
		}
	}
}

// appended to callbackRequired
var callbackRequiredDigest = []string{
	"map.Get/digester-builder", "map.Has/digester-builder", "map.Set/digester-builder", "map.Remove/digester-builder",
	"map.Get/digester-level0", "map.Has/digester-level0", "map.Set/digester-level0", "map.Remove/digester-level0",
	"map.Set/digester-builder-for-resident-key", "map.Set/digester-level-of-resident-key",
	"observation:digester-error-dropped-in-collision-group",
	"map.Iterate/digester-builder", "map.IterateKeys/digester-builder", "map.IterateValues/digester-builder",
	"map.Iterate/digester-level0", "map.IterateKeys/digester-level0", "map.IterateValues/digester-level0",
	"NewArrayFromBatchData/provider", "NewArrayFromBatchData/value-storable",
	"NewMapFromBatchData/provider", "NewMapFromBatchData/key-storable", "NewMapFromBatchData/value-storable",
	"NewMapFromBatchData/digester-builder", "NewMapFromBatchData/digester-level0",
}
