package main

import (
	"bytes"
	"encoding/binary"
	"encoding/hex"
	"errors"
	"fmt"
	"math/rand"
	"path/filepath"
	"sort"
	"strings"

	"github.com/onflow/atree"
	testutils "github.com/onflow/atree/test_utils"

	"verifharness/hx"
)

func init() { streams["slabid"] = slabidStream }

// slabidStream exercises the byte-level identifier functions (slab_id.go, value_id.go,
// slab_id_storable.go), the ledger key mapping and the three simple storages
// (LedgerBaseStorage over the map ledger below, test_utils.InMemBaseStorage, BasicSlabStorage) on
// random and boundary identifiers; every output is written to the trace and recomputed by the Lean
// model (lean/AtreeModel/SlabIdBytes.lean, SlabIdStorages.lean; replayer Replay/SlabId.lean).
//
// Trace grammar (one record per line, fields separated by single spaces):
//
//	ID a=<hex16> i=<hex16> raw= str= au= iu= temp= valid= next= key= iskey= vid= vstr= veq= enc= size= sv=
//	CMP x=<hex32> y=<hex32> r=<-1|0|1>
//	FROMRAW b=<hex> res=ok:<hex32>|err:<len>
//	TORAW id=<hex32> b=<hex> res=ok:<n>:<hex>|err:<len>
//	DEC content=<hex>|- res=ok:<hex32>|err:dec|err:id:<len>
//	ISKEY k=<hex> r=<0|1>
//	SORT in=<hex32,...> out=<hex32,...>          order of the ledger writes of FastCommit
//	BNEW / BOP <op> ... / OBS ...                 BasicSlabStorage
//	MNEW / MOP <op> ... / OBS ...                 InMemBaseStorage
//	LNEW keep= fail= junk= / LOP <op> ... / OBS ... / LREGS ...   LedgerBaseStorage over mapLedger
//	PNEW / POP gen a= / OBS id=                   PersistentSlabStorage.GenerateSlabID over it
func slabidStream(cfg *Config) (res *hx.Stats) {
	st := hx.NewStats("slabid", cfg.Seed)
	w := hx.NewW(filepath.Join(cfg.Out, fmt.Sprintf("slabid-%d.trace", cfg.Seed)))
	defer w.Close()
	st.TraceFiles = append(st.TraceFiles, w.Path)
	rng := rand.New(rand.NewSource(cfg.Seed*7919 + 11))
	e := &sidEnv{w: w, st: st, cfg: cfg, rng: rng}
	defer func() { st.TraceLines = w.Lines }()
	defer recoverAsViolation(st, w, &res)

	// --- Part A: identifier functions on boundary x boundary and random identifiers
	addrs := boundaryWords(rng, 6)
	idxs := boundaryWords(rng, 10)
	var ids []atree.SlabID
	for _, a := range addrs {
		for _, i := range idxs {
			ids = append(ids, mkSID(a, i))
		}
	}
	nRandom := int(300 * cfg.Scale)
	for k := 0; k < nRandom; k++ {
		ids = append(ids, mkSID(randWord(rng), randWord(rng)))
	}
	for _, id := range ids {
		e.idLine(id)
	}
	st.Dist["ids"] = len(ids)

	// Compare: all pairs of a boundary sample, neighbours, random pairs
	sample := ids
	if len(sample) > 60 {
		sample = nil
		for k := 0; k < 60; k++ {
			sample = append(sample, ids[rng.Intn(len(ids))])
		}
		// the pairs that differ in exactly one byte position / by a carry
		for _, i := range idxs[:min(len(idxs), 40)] {
			sample = append(sample, mkSID(addrs[1], i))
		}
	}
	nc := 0
	for _, x := range sample {
		for _, y := range sample {
			if rng.Intn(3) != 0 && x != y {
				continue
			}
			e.w.L("CMP x=%s y=%s r=%d", rawHex(x), rawHex(y), x.Compare(y))
			nc++
			// model-free oracle: antisymmetry and agreement with the numeric order
			if x.Compare(y) != -y.Compare(x) {
				e.violation("C04", fmt.Sprintf("Compare not antisymmetric on %s %s", x, y))
			}
			num := 0
			if hx.IDLess(x, y) {
				num = -1
			} else if hx.IDLess(y, x) {
				num = 1
			}
			if x.Compare(y) != num {
				e.violation("C04", fmt.Sprintf("Compare(%s,%s)=%d but numeric order says %d", x, y, x.Compare(y), num))
			}
		}
	}
	st.Dist["compare"] = nc
	st.Ops += len(ids) + nc

	// raw bytes: every buffer length 0..20, 32, with non-zero prior content and trailing bytes
	for k := 0; k < 40; k++ {
		id := ids[rng.Intn(len(ids))]
		for _, n := range []int{0, 1, 7, 8, 9, 15, 16, 17, 20, 32} {
			buf := make([]byte, n)
			rng.Read(buf)
			e.toRaw(id, buf)
			src := make([]byte, n)
			rng.Read(src)
			e.fromRaw(src)
		}
	}
	// the storable form: decoding of well-formed, too-short, TOO-LONG byte strings and non-byte-strings
	for k := 0; k < 60; k++ {
		id := ids[rng.Intn(len(ids))]
		raw := rawBytes(id)
		e.dec(raw, true)
		e.dec(raw[:rng.Intn(16)], true)
		e.dec(append(append([]byte{}, raw...), byte(rng.Intn(256))), true)
		long := make([]byte, 16+1+rng.Intn(40))
		rng.Read(long)
		e.dec(long, true)
		e.dec(nil, false)
	}
	// LedgerKeyIsSlabKey on keys of the right shape and on others
	for k := 0; k < 40; k++ {
		id := ids[rng.Intn(len(ids))]
		key := atree.SlabIndexToLedgerKey(id.Index())
		e.isKey(key)
		e.isKey(key[:1])
		e.isKey(key[1:])
		e.isKey(append([]byte{'$'}, make([]byte, rng.Intn(20))...))
		e.isKey([]byte{})
		e.isKey([]byte{'#', '$'})
	}

	// --- Part B: the commit order of FastCommit on boundary identifiers (the real sort.Slice)
	for k := 0; k < int(12*cfg.Scale)+4; k++ {
		e.sortProgram(ids)
	}

	// --- Part C: the storages
	nProg := int(20*cfg.Scale) + 4
	for p := 0; p < nProg; p++ {
		e.prog = p
		e.basicProgram(addrs, ids)
		e.inmemProgram(addrs, ids)
		e.ledgerPrograms(addrs, ids)
		e.persistGenProgram(addrs)
		st.Programs += 5
	}
	st.Distinct = len(ids) + st.Programs
	st.Samples = append(st.Samples,
		fmt.Sprintf("identifier %s: raw %s, ledger key %x, storable %x", ids[17], rawHex(ids[17]), atree.SlabIndexToLedgerKey(ids[17].Index()), encStorable(ids[17])),
		"boundary words: 0, 1, 2^(8k)-1, 2^(8k), 2^(8k)+1 for k=1..7, 2^63, 2^64-2, 2^64-1, random")
	return st
}

type sidEnv struct {
	w    *hx.W
	st   *hx.Stats
	cfg  *Config
	rng  *rand.Rand
	prog int
}

func (e *sidEnv) violation(prop, what string) {
	if len(e.st.Violations) > 60 {
		return
	}
	e.st.Violations = append(e.st.Violations, hx.Violation{
		Property: prop, Stream: "slabid", Seed: e.cfg.Seed, Program: e.prog, What: what, Trace: e.w.Path,
	})
}

// boundaryWords: the 8-byte values at which a carry or a borrow crosses a byte boundary, the
// extremes, and n random ones.
func boundaryWords(rng *rand.Rand, n int) [][8]byte {
	var nums []uint64
	nums = append(nums, 0, 1, 2)
	for k := uint(1); k <= 7; k++ {
		nums = append(nums, (uint64(1)<<(8*k))-1, uint64(1)<<(8*k), (uint64(1)<<(8*k))+1)
	}
	nums = append(nums, 1<<63-1, 1<<63, 1<<63+1, ^uint64(0)-1, ^uint64(0), 0x0102030405060708, 0xff00ff00ff00ff00, 0x00ff00ff00ff00ff)
	for i := 0; i < n; i++ {
		nums = append(nums, rng.Uint64())
	}
	var out [][8]byte
	for _, v := range nums {
		var b [8]byte
		for i := 7; i >= 0; i-- {
			b[i] = byte(v)
			v >>= 8
		}
		out = append(out, b)
	}
	return out
}

func randWord(rng *rand.Rand) [8]byte {
	var b [8]byte
	switch rng.Intn(4) {
	case 0: // sparse
		b[rng.Intn(8)] = byte(rng.Intn(256))
	case 1: // runs of ff
		for i := rng.Intn(8); i < 8; i++ {
			b[i] = 0xff
		}
	default:
		rng.Read(b[:])
	}
	return b
}

func mkSID(a, i [8]byte) atree.SlabID { return atree.NewSlabID(atree.Address(a), atree.SlabIndex(i)) }

func rawBytes(id atree.SlabID) []byte {
	a := id.Address()
	i := id.Index()
	return append(append([]byte{}, a[:]...), i[:]...)
}

func rawHex(id atree.SlabID) string { return hex.EncodeToString(rawBytes(id)) }

func hx0(b []byte) string {
	if len(b) == 0 {
		return "-"
	}
	return hex.EncodeToString(b)
}

func encStorable(id atree.SlabID) []byte {
	var buf bytes.Buffer
	enc := atree.NewEncoder(&buf, hx.EncMode())
	if err := atree.SlabIDStorable(id).Encode(enc); err != nil {
		panic(err)
	}
	if err := enc.CBOR.Flush(); err != nil {
		panic(err)
	}
	return buf.Bytes()
}

// presetStorage hands out one preset identifier: NewArray on it has that identifier as root, so
// Array.ValueID() / SlabID() exercise slabIDToValueID on arbitrary bytes.
type presetStorage struct {
	*atree.BasicSlabStorage
	next atree.SlabID
}

func (p *presetStorage) GenerateSlabID(atree.Address) (atree.SlabID, error) { return p.next, nil }

func slabIDErrLen(err error, n int) string {
	var se *atree.SlabIDError
	var fe *atree.FatalError
	if !errors.As(err, &se) || !errors.As(err, &fe) {
		return "err:notSlabIDError"
	}
	if !strings.Contains(err.Error(), fmt.Sprintf("incorrect slab ID buffer length %d", n)) {
		return "err:?" + err.Error()
	}
	return fmt.Sprintf("err:%d", n)
}

func (e *sidEnv) idLine(id atree.SlabID) {
	raw := make([]byte, 16)
	n, err := id.ToRawBytes(raw)
	if err != nil || n != 16 {
		panic("ToRawBytes on 16 bytes failed")
	}
	valid := "ok"
	if err := id.Valid(); err != nil {
		var se *atree.SlabIDError
		var fe *atree.FatalError
		switch {
		case !errors.As(err, &se) || !errors.As(err, &fe):
			valid = "notSlabIDError"
		case strings.Contains(err.Error(), "undefined slab ID"):
			valid = "id"
		case strings.Contains(err.Error(), "undefined slab index"):
			valid = "index"
		default:
			valid = "?"
		}
	}
	next := id.Index().Next()
	key := atree.SlabIndexToLedgerKey(id.Index())
	// value identifier of a container whose root slab has this identifier
	ps := &presetStorage{BasicSlabStorage: atree.NewBasicSlabStorage(hx.EncMode(), hx.DecMode(), hx.DecodeStorable, hx.DecodeTypeInfo), next: id}
	vid, vstr, veq := "-", "-", "-"
	if arr, err := atree.NewArray(ps, id.Address(), hx.TI(1)); err == nil {
		v := arr.ValueID()
		vid = hex.EncodeToString(v[:])
		vstr = v.String()
		// the same bytes through the map constructor
		if id.Valid() == nil {
			if m, err := atree.NewMap(ps, id.Address(), atree.NewDefaultDigesterBuilder(), hx.TI(1)); err == nil {
				mv := m.ValueID()
				veq = fmt.Sprintf("%d", b2i(mv == v && arr.SlabID() == id))
			}
		}
	}
	// StoredValue: Valid() first, then the storage lookup (nothing stored: not found)
	sv := "?"
	empty := atree.NewBasicSlabStorage(hx.EncMode(), hx.DecMode(), hx.DecodeStorable, hx.DecodeTypeInfo)
	_, err = atree.SlabIDStorable(id).StoredValue(empty)
	var nf *atree.SlabNotFoundError
	var se *atree.SlabIDError
	switch {
	case errors.As(err, &se):
		sv = "invalid"
	case errors.As(err, &nf):
		sv = "notfound"
	}
	enc := encStorable(id)
	e.w.L("ID a=%x i=%x raw=%x str=%s au=%d iu=%d temp=%d valid=%s next=%x key=%x iskey=%d vid=%s vstr=%s veq=%s enc=%x size=%d sv=%s",
		id.Address(), id.Index(), raw, id.String(), id.AddressAsUint64(), id.IndexAsUint64(), b2i(id.HasTempAddress()),
		valid, next, key, b2i(atree.LedgerKeyIsSlabKey(string(key))), vid, vstr, veq, enc,
		atree.SlabIDStorable(id).ByteSize(), sv)
	if vid != "-" && vid != hex.EncodeToString(raw) {
		e.violation("C10", fmt.Sprintf("value identifier %s of a container whose root slab is %x", vid, raw))
	}
	// model-free: the successor of an index is the big-endian index + 1 (computed with
	// encoding/binary), an identifier has the temporary address iff its address is all zero
	var wantNext atree.SlabIndex
	idx := id.Index()
	binary.BigEndian.PutUint64(wantNext[:], binary.BigEndian.Uint64(idx[:])+1)
	if next != wantNext {
		e.violation("C09", fmt.Sprintf("SlabIndex(%x).Next() = %x, the big-endian successor is %x", id.Index(), next, wantNext))
	}
	if id.HasTempAddress() != (id.Address() == atree.Address{}) {
		for _, p := range []string{"C03", "C15"} {
			e.violation(p, fmt.Sprintf("HasTempAddress() = %v on the identifier %s", id.HasTempAddress(), rawHex(id)))
		}
	}
	if int(atree.SlabIDStorable(id).ByteSize()) != len(enc) {
		e.violation("C06", fmt.Sprintf("SlabIDStorable(%s): ByteSize %d, encoded %d bytes", id, atree.SlabIDStorable(id).ByteSize(), len(enc)))
	}
}

// freshOracle (C09): an identifier handed out is new, has the requested address and a non-zero index.
func (e *sidEnv) freshOracle(who string, seen map[atree.SlabID]bool, a atree.Address, id atree.SlabID) {
	if seen[id] {
		e.violation("C09", fmt.Sprintf("%s.GenerateSlabID returned %s twice", who, id))
	}
	seen[id] = true
	if id.Address() != a || id.Index() == atree.SlabIndexUndefined {
		e.violation("C09", fmt.Sprintf("%s.GenerateSlabID(%x) returned %s", who, a, id))
	}
}

func b2i(b bool) int {
	if b {
		return 1
	}
	return 0
}

func (e *sidEnv) toRaw(id atree.SlabID, buf []byte) {
	before := append([]byte{}, buf...)
	n, err := id.ToRawBytes(buf)
	res := ""
	if err != nil {
		res = slabIDErrLen(err, len(before))
		if !bytes.Equal(before, buf) {
			res += ":buffer-changed"
		}
	} else {
		res = fmt.Sprintf("ok:%d:%s", n, hx0(buf))
	}
	e.w.L("TORAW id=%s b=%s res=%s", rawHex(id), hx0(before), res)
	e.st.Ops++
}

func (e *sidEnv) fromRaw(b []byte) {
	id, err := atree.NewSlabIDFromRawBytes(b)
	res := ""
	if err != nil {
		res = slabIDErrLen(err, len(b))
	} else {
		res = "ok:" + rawHex(id)
	}
	e.w.L("FROMRAW b=%s res=%s", hx0(b), res)
	e.st.Ops++
	// model-free: fewer than 16 bytes are refused; 16 or more give the identifier made of the first 16
	if (len(b) < 16) != (err != nil) {
		e.violation("C15", fmt.Sprintf("NewSlabIDFromRawBytes on %d bytes: %s", len(b), res))
	}
	if err == nil && len(b) >= 16 {
		var a atree.Address
		var i atree.SlabIndex
		copy(a[:], b[:8])
		copy(i[:], b[8:16])
		if id != atree.NewSlabID(a, i) {
			e.violation("C15", fmt.Sprintf("NewSlabIDFromRawBytes(%x) = %s", b, rawHex(id)))
		}
	}
}

// dec feeds DecodeSlabIDStorable a stream decoder positioned at a byte string with the given
// content (isBytes) or at an unsigned integer (not a byte string).
func (e *sidEnv) dec(content []byte, isBytes bool) {
	var buf bytes.Buffer
	enc := hx.EncMode().NewStreamEncoder(&buf)
	if isBytes {
		if err := enc.EncodeBytes(content); err != nil {
			panic(err)
		}
	} else {
		if err := enc.EncodeUint64(7); err != nil {
			panic(err)
		}
	}
	if err := enc.Flush(); err != nil {
		panic(err)
	}
	d := hx.DecMode().NewByteStreamDecoder(buf.Bytes())
	s, err := atree.DecodeSlabIDStorable(d)
	res := ""
	var se *atree.SlabIDError
	var de *atree.DecodingError
	switch {
	case err == nil:
		res = "ok:" + rawHex(atree.SlabID(s.(atree.SlabIDStorable)))
	case errors.As(err, &se):
		res = strings.Replace(slabIDErrLen(err, len(content)), "err:", "err:id:", 1)
	case errors.As(err, &de):
		res = "err:dec"
	default:
		res = "err:?" + err.Error()
	}
	c := hx0(content)
	if !isBytes {
		c = "notbytes"
	}
	e.w.L("DEC content=%s res=%s", c, res)
	e.st.Ops++
}

func (e *sidEnv) isKey(k []byte) {
	e.w.L("ISKEY k=%s r=%d", hx0(k), b2i(atree.LedgerKeyIsSlabKey(string(k))))
	e.st.Ops++
}

// orderLedger records the order of Store / Remove calls of a commit.
type orderLedger struct {
	*hx.Ledger
	order []atree.SlabID
}

func (o *orderLedger) Store(id atree.SlabID, data []byte) error {
	o.order = append(o.order, id)
	return o.Ledger.Store(id, data)
}
func (o *orderLedger) Remove(id atree.SlabID) error {
	o.order = append(o.order, id)
	return o.Ledger.Remove(id)
}

func (e *sidEnv) sortProgram(ids []atree.SlabID) {
	ol := &orderLedger{Ledger: hx.NewLedger()}
	ps := hx.NewStorage(ol)
	n := 2 + e.rng.Intn(14)
	var in []atree.SlabID
	seen := map[atree.SlabID]bool{}
	for len(in) < n {
		id := ids[e.rng.Intn(len(ids))]
		if e.rng.Intn(3) == 0 && len(in) > 0 {
			// same address as an earlier one, neighbouring index: the index comparison decides
			prev := in[e.rng.Intn(len(in))]
			id = atree.NewSlabID(prev.Address(), prev.Index().Next())
		}
		if seen[id] || id == atree.SlabIDUndefined {
			continue
		}
		seen[id] = true
		in = append(in, id)
	}
	for k, id := range in {
		if e.rng.Intn(5) == 0 {
			if err := ps.Remove(id); err != nil {
				panic(err)
			}
		} else if err := ps.Store(id, mkSlab(id, k+1)); err != nil {
			panic(err)
		}
	}
	if err := ps.FastCommit(1 + e.rng.Intn(4)); err != nil {
		panic(err)
	}
	strs := func(l []atree.SlabID) string {
		var p []string
		for _, id := range l {
			p = append(p, rawHex(id))
		}
		if len(p) == 0 {
			return "-"
		}
		return strings.Join(p, ",")
	}
	e.w.L("SORT in=%s out=%s", strs(in), strs(ol.order))
	// model-free oracle (C04): the writes are in ascending bytes.Compare order of the 16 bytes
	for k := 1; k < len(ol.order); k++ {
		if bytes.Compare(rawBytes(ol.order[k-1]), rawBytes(ol.order[k])) >= 0 {
			e.violation("C04", fmt.Sprintf("commit wrote %s before %s: not ascending byte order", ol.order[k-1], ol.order[k]))
		}
	}
	e.st.Ops++
	e.st.Hit("sort")
}

// ---------------------------------------------------------------------------------------------
// BasicSlabStorage

func (e *sidEnv) pickID(pool *[]atree.SlabID, ids []atree.SlabID) atree.SlabID {
	if len(*pool) > 0 && e.rng.Intn(4) != 0 {
		return (*pool)[e.rng.Intn(len(*pool))]
	}
	var id atree.SlabID
	switch e.rng.Intn(10) {
	case 0:
		id = atree.SlabIDUndefined
	default:
		id = ids[e.rng.Intn(len(ids))]
	}
	*pool = append(*pool, id)
	return id
}

func verStr(s atree.Slab) string {
	if s == nil {
		return "nil"
	}
	return slabVer(s)
}

func (e *sidEnv) basicProgram(addrs [][8]byte, ids []atree.SlabID) {
	s := atree.NewBasicSlabStorage(hx.EncMode(), hx.DecMode(), hx.DecodeStorable, hx.DecodeTypeInfo)
	e.w.L("BNEW")
	var pool []atree.SlabID
	gen := map[atree.SlabID]bool{}
	var it atree.SlabIterator
	itCount := 0
	// model-free oracle: a Go map kept by the harness (a slab filed as nil is a key with a nil value)
	shadow := map[atree.SlabID]atree.Slab{}
	var itWant []string
	entries := func() []string {
		var p []string
		for id, sl := range shadow {
			p = append(p, rawHex(id)+":"+verStr(sl))
		}
		sort.Strings(p)
		return p
	}
	withUndef := e.prog%3 == 0 // one program in three may file a slab under SlabIDUndefined
	steps := 40 + e.rng.Intn(60)
	for k := 0; k < steps; k++ {
		e.st.Ops++
		switch c := e.rng.Intn(100); {
		case c < 15:
			a := atree.Address(addrs[e.rng.Intn(4)]) // few addresses: counters advance
			id, err := s.GenerateSlabID(a)
			if err != nil {
				panic(err)
			}
			e.freshOracle("BasicSlabStorage", gen, a, id)
			pool = append(pool, id)
			e.w.L("BOP gen a=%x", a)
			e.w.L("OBS id=%s", rawHex(id))
			e.st.Hit("basic.gen")
		case c < 45:
			id := e.pickID(&pool, ids)
			if id == atree.SlabIDUndefined && !withUndef {
				continue
			}
			ver := 1 + e.rng.Intn(900)
			var slab atree.Slab
			vs := "nil"
			if e.rng.Intn(12) != 0 {
				slab = mkSlab(id, ver)
				vs = fmt.Sprintf("%d", ver)
			}
			if err := s.Store(id, slab); err != nil {
				panic(err)
			}
			shadow[id] = slab
			e.w.L("BOP store id=%s v=%s", rawHex(id), vs)
			e.w.L("OBS ok")
			e.st.Hit("basic.store")
			if id == atree.SlabIDUndefined {
				e.st.Hit("basic.store-undefined-id")
			}
		case c < 58:
			id := e.pickID(&pool, ids)
			if err := s.Remove(id); err != nil {
				panic(err)
			}
			delete(shadow, id)
			e.w.L("BOP remove id=%s", rawHex(id))
			e.w.L("OBS ok")
		case c < 75:
			id := e.pickID(&pool, ids)
			slab, ok, err := s.Retrieve(id)
			if err != nil {
				panic(err)
			}
			e.w.L("BOP retrieve id=%s", rawHex(id))
			e.w.L("OBS slab=%s found=%d", verStr(slab), b2i(ok))
			if want, in := shadow[id]; slab != want || ok != in {
				e.violation("C15", fmt.Sprintf("BasicSlabStorage.Retrieve(%s) = (%s, %v), the map holds (%s, %v)", rawHex(id), verStr(slab), ok, verStr(want), in))
			}
		case c < 82:
			id := e.pickID(&pool, ids)
			e.w.L("BOP loaded id=%s", rawHex(id))
			got := s.RetrieveIfLoaded(id)
			e.w.L("OBS slab=%s", verStr(got))
			if got != shadow[id] {
				e.violation("C15", fmt.Sprintf("BasicSlabStorage.RetrieveIfLoaded(%s) = %s, the map holds %s", rawHex(id), verStr(got), verStr(shadow[id])))
			}
		case c < 87:
			e.w.L("BOP count")
			e.w.L("OBS n=%d", s.Count())
			if s.Count() != len(shadow) {
				e.violation("C15", fmt.Sprintf("BasicSlabStorage.Count() = %d, the map holds %d entries", s.Count(), len(shadow)))
			}
		case c < 91:
			l := s.SlabIDs()
			var p []string
			for _, id := range l {
				p = append(p, rawHex(id))
			}
			sort.Strings(p)
			e.w.L("BOP ids")
			e.w.L("OBS ids=%s", joinOrDash(p))
			var want []string
			for id := range shadow {
				want = append(want, rawHex(id))
			}
			sort.Strings(want)
			if joinOrDash(p) != joinOrDash(want) {
				e.violation("C15", fmt.Sprintf("BasicSlabStorage.SlabIDs() = %s, the map's keys are %s", joinOrDash(p), joinOrDash(want)))
			}
		case c < 95:
			var err error
			it, err = s.SlabIterator()
			if err != nil {
				panic(err)
			}
			itCount = s.Count()
			itWant = entries()
			if _, in := shadow[atree.SlabIDUndefined]; in {
				itWant = nil // an entry filed under the undefined identifier looks like the end-of-iteration sentinel: no prediction
			}
			e.w.L("BOP iternew")
			e.w.L("OBS ok")
		default:
			if it == nil {
				continue
			}
			// the iterator is a snapshot: call it (count at creation + 2) times
			var p []string
			drained := -1
			for j := 0; j < itCount+2; j++ {
				id, slab := it()
				if id == atree.SlabIDUndefined && drained < 0 {
					drained = j
				}
				p = append(p, rawHex(id)+":"+verStr(slab))
			}
			// model-free: the entries present when the iterator was made, each once, then the sentinel for good
			var yielded []string
			for _, x := range p {
				if !strings.HasPrefix(x, rawHex(atree.SlabIDUndefined)+":") {
					yielded = append(yielded, x)
				}
			}
			sort.Strings(yielded)
			if (itWant != nil || itCount == 0) && joinOrDash(yielded) != joinOrDash(itWant) {
				e.violation("C15", fmt.Sprintf("BasicSlabStorage.SlabIterator yielded %s, the map held %s when it was made", joinOrDash(yielded), joinOrDash(itWant)))
			}
			sort.Strings(p)
			e.w.L("BOP iternext n=%d", itCount+2)
			e.w.L("OBS ents=%s drain=%d", joinOrDash(p), b2i(drained == itCount))
			if drained != itCount {
				e.st.Hit("basic.iter-sentinel-truncated")
			}
			it = nil
			e.st.Hit("basic.iter")
		}
	}
}

func joinOrDash(p []string) string {
	if len(p) == 0 {
		return "-"
	}
	return strings.Join(p, ",")
}

// ---------------------------------------------------------------------------------------------
// InMemBaseStorage

func (e *sidEnv) inmemProgram(addrs [][8]byte, ids []atree.SlabID) {
	s := testutils.NewInMemBaseStorage()
	e.w.L("MNEW")
	var pool []atree.SlabID
	gen := map[atree.SlabID]bool{}
	state := func() string {
		return fmt.Sprintf("c=%d sz=%d br=%d bs=%d ret=%d upd=%d tch=%d", s.SegmentCounts(), s.Size(), s.BytesRetrieved(),
			s.BytesStored(), s.SegmentsReturned(), s.SegmentsUpdated(), s.SegmentsTouched())
	}
	steps := 30 + e.rng.Intn(50)
	for k := 0; k < steps; k++ {
		e.st.Ops++
		switch c := e.rng.Intn(100); {
		case c < 15:
			a := atree.Address(addrs[e.rng.Intn(4)])
			id, err := s.GenerateSlabID(a)
			if err != nil {
				panic(err)
			}
			e.freshOracle("InMemBaseStorage", gen, a, id)
			pool = append(pool, id)
			e.w.L("MOP gen a=%x", a)
			e.w.L("OBS id=%s %s", rawHex(id), state())
		case c < 50:
			id := e.pickID(&pool, ids)
			d := e.randData()
			if err := s.Store(id, d); err != nil {
				panic(err)
			}
			e.w.L("MOP store id=%s d=%s", rawHex(id), hx0(d))
			e.w.L("OBS ok %s", state())
			if len(d) == 0 {
				e.st.Hit("inmem.store-empty")
			}
		case c < 65:
			id := e.pickID(&pool, ids)
			if err := s.Remove(id); err != nil {
				panic(err)
			}
			e.w.L("MOP remove id=%s", rawHex(id))
			e.w.L("OBS ok %s", state())
		case c < 95:
			id := e.pickID(&pool, ids)
			d, ok, err := s.Retrieve(id)
			if err != nil {
				panic(err)
			}
			e.w.L("MOP retrieve id=%s", rawHex(id))
			e.w.L("OBS d=%s found=%d %s", hx0(d), b2i(ok), state())
		default:
			s.ResetReporter()
			e.w.L("MOP reset")
			e.w.L("OBS ok %s", state())
		}
	}
}

func (e *sidEnv) randData() []byte {
	switch e.rng.Intn(6) {
	case 0:
		return []byte{}
	case 1:
		return nil
	}
	d := make([]byte, 1+e.rng.Intn(12))
	e.rng.Read(d)
	return d
}

// ---------------------------------------------------------------------------------------------
// LedgerBaseStorage over a map ledger

// mapLedger is the atree.Ledger of this stream (model: MapLedger in SlabIdStorages.lean).
// keepEmpty=false: SetValue with an empty value deletes the register; keepEmpty=true: the empty
// value is kept as a register of length 0.  Calls are numbered; the ones in fail return an error
// (GetValue returns junk together with its error).
type mapLedger struct {
	regs      map[string][]byte
	ctr       map[string]uint64
	keepEmpty bool
	calls     int
	fail      map[int]bool
	junk      []byte
}

var errLedger = errors.New("injected ledger failure")

func rk(owner, key []byte) string { return string(owner) + "/" + string(key) }

func (l *mapLedger) failing() bool { f := l.fail[l.calls]; l.calls++; return f }

func (l *mapLedger) GetValue(owner, key []byte) ([]byte, error) {
	if l.failing() {
		return l.junk, errLedger
	}
	return l.regs[rk(owner, key)], nil
}

func (l *mapLedger) SetValue(owner, key, value []byte) error {
	if l.failing() {
		return errLedger
	}
	if len(value) == 0 && !l.keepEmpty {
		delete(l.regs, rk(owner, key))
	} else {
		l.regs[rk(owner, key)] = append([]byte{}, value...)
	}
	return nil
}

func (l *mapLedger) ValueExists(owner, key []byte) (bool, error) {
	_, ok := l.regs[rk(owner, key)]
	return ok, nil
}

func (l *mapLedger) AllocateSlabIndex(owner []byte) (atree.SlabIndex, error) {
	if l.failing() {
		return atree.SlabIndex{}, errLedger
	}
	l.ctr[string(owner)]++
	var idx atree.SlabIndex
	v := l.ctr[string(owner)]
	for i := 7; i >= 0; i-- {
		idx[i] = byte(v)
		v >>= 8
	}
	return idx, nil
}

func (l *mapLedger) dump() string {
	var p []string
	for k, v := range l.regs {
		// owner is always 8 bytes here
		p = append(p, fmt.Sprintf("%x/%x=%s", k[:8], k[9:], hx0(v)))
	}
	sort.Strings(p)
	return joinOrDash(p)
}

type lop struct {
	kind string
	id   atree.SlabID
	addr atree.Address
	data []byte
}

func (e *sidEnv) ledgerPrograms(addrs [][8]byte, ids []atree.SlabID) {
	// one request sequence, one fault plan; executed on a ledger that keeps empty registers and on
	// one that deletes them
	var pool []atree.SlabID
	var ops []lop
	steps := 30 + e.rng.Intn(50)
	for k := 0; k < steps; k++ {
		switch c := e.rng.Intn(100); {
		case c < 12:
			ops = append(ops, lop{kind: "gen", addr: atree.Address(addrs[e.rng.Intn(5)])})
		case c < 45:
			ops = append(ops, lop{kind: "store", id: e.pickID(&pool, ids), data: e.randData()})
		case c < 60:
			ops = append(ops, lop{kind: "remove", id: e.pickID(&pool, ids)})
		case c < 96:
			ops = append(ops, lop{kind: "retrieve", id: e.pickID(&pool, ids)})
		default:
			ops = append(ops, lop{kind: "reset"})
		}
	}
	// register isolation: identifiers that differ in exactly one of the 16 bytes hold different data
	base := ids[e.rng.Intn(len(ids))]
	sibs := []atree.SlabID{base}
	for pos := 0; pos < 16; pos++ {
		r := rawBytes(base)
		r[pos] ^= byte(1 << uint(e.rng.Intn(8)))
		sib, err := atree.NewSlabIDFromRawBytes(r)
		if err != nil {
			panic(err)
		}
		sibs = append(sibs, sib)
	}
	for k, sib := range sibs {
		ops = append(ops, lop{kind: "store", id: sib, data: []byte{byte(k + 1), 0xaa}})
	}
	for _, sib := range sibs {
		ops = append(ops, lop{kind: "retrieve", id: sib})
	}
	ops = append(ops, lop{kind: "remove", id: base})
	for _, sib := range sibs {
		ops = append(ops, lop{kind: "retrieve", id: sib})
	}
	steps = len(ops)
	fail := map[int]bool{}
	var failList []string
	if e.prog%2 == 1 {
		for k := 0; k < 1+e.rng.Intn(5); k++ {
			f := e.rng.Intn(steps)
			if !fail[f] {
				fail[f] = true
				failList = append(failList, fmt.Sprintf("%d", f))
			}
		}
	}
	if e.prog%2 == 1 {
		// directed (no draw): the ledger call of the first request of one kind fails, the kind rotating
		// with the program number, so that every run sees each of the four ledger calls fail
		kind := []string{"gen", "store", "remove", "retrieve"}[(e.prog/2)%4]
		call := 0
		for _, op := range ops {
			if op.kind == kind {
				if !fail[call] {
					fail[call] = true
					failList = append(failList, fmt.Sprintf("%d", call))
				}
				e.st.Hit("ledger.directed-fault:" + kind)
				break
			}
			if op.kind != "reset" {
				call++
			}
		}
	}
	junk := []byte{}
	if e.rng.Intn(2) == 0 {
		junk = []byte{0xde, 0xad, 0xbe}
	}
	var obs [2][]string
	for v, keep := range []bool{false, true} {
		l := &mapLedger{regs: map[string][]byte{}, ctr: map[string]uint64{}, keepEmpty: keep, fail: fail, junk: junk}
		s := atree.NewLedgerBaseStorage(l)
		e.w.L("LNEW keep=%d fail=%s junk=%s", b2i(keep), joinOrDash(failList), hx0(junk))
		state := func() string {
			return fmt.Sprintf("br=%d bs=%d z=%d", s.BytesRetrieved(), s.BytesStored(),
				s.SegmentCounts()+s.Size()+s.SegmentsReturned()+s.SegmentsUpdated()+s.SegmentsTouched())
		}
		errStr := func(err error) string {
			if hx.ErrCategory(err) != "External" || !errors.Is(err, errLedger) {
				// model-free: a failure of the caller's ledger comes back as an external error that wraps it
				e.violation("C15", fmt.Sprintf("LedgerBaseStorage reported the ledger's failure as %s (%v)", hx.ErrKind(err), err))
				return "err:notExternal:" + err.Error()
			}
			return "err"
		}
		shadow := map[atree.SlabID][]byte{} // model-free oracle: what a map of non-empty registers would hold
		genSeen := map[atree.SlabID]bool{}
		for _, op := range ops {
			e.st.Ops++
			var o string
			switch op.kind {
			case "gen":
				e.w.L("LOP gen a=%x", op.addr)
				id, err := s.GenerateSlabID(op.addr)
				if err != nil {
					o = errStr(err)
				} else {
					o = "id=" + rawHex(id)
					e.freshOracle("LedgerBaseStorage", genSeen, op.addr, id)
					// model-free: the identifier is made of the requested address and the index the ledger allocated
					var want atree.SlabIndex
					binary.BigEndian.PutUint64(want[:], l.ctr[string(op.addr[:])])
					if id != atree.NewSlabID(op.addr, want) {
						e.violation("C09", fmt.Sprintf("LedgerBaseStorage.GenerateSlabID(%x) returned %s, the ledger allocated index %x", op.addr, rawHex(id), want))
					}
				}
			case "store":
				e.w.L("LOP store id=%s d=%s", rawHex(op.id), hx0(op.data))
				if err := s.Store(op.id, op.data); err != nil {
					o = errStr(err)
				} else {
					o = "ok"
					if len(op.data) > 0 {
						shadow[op.id] = op.data
					} else {
						delete(shadow, op.id)
					}
				}
				if len(op.data) == 0 {
					e.st.Hit("ledger.store-empty")
				}
			case "remove":
				e.w.L("LOP remove id=%s", rawHex(op.id))
				if err := s.Remove(op.id); err != nil {
					o = errStr(err)
				} else {
					o = "ok"
					delete(shadow, op.id)
				}
			case "retrieve":
				e.w.L("LOP retrieve id=%s", rawHex(op.id))
				d, ok, err := s.Retrieve(op.id)
				if err != nil {
					o = errStr(err)
					e.st.Hit("ledger.failed-read")
				} else {
					o = fmt.Sprintf("d=%s found=%d", hx0(d), b2i(ok))
					if !ok {
						e.st.Hit("ledger.not-found")
					}
					if want, has := shadow[op.id]; has != ok || (ok && !bytes.Equal(want, d)) {
						e.violation("C15", fmt.Sprintf("LedgerBaseStorage.Retrieve(%s) = (%x, %v); a map of the registers written so far holds (%x, %v) (keepEmpty=%v)", op.id, d, ok, want, has, keep))
					}
				}
			case "reset":
				e.w.L("LOP reset")
				s.ResetReporter()
				o = "ok"
			}
			o += " " + state()
			e.w.L("OBS %s", o)
			obs[v] = append(obs[v], o)
		}
		e.w.L("LREGS %s", l.dump())
	}
	// model-free oracle (C15): a register holding zero bytes is indistinguishable from an absent
	// one — the two ledgers give the same observations
	for k := range obs[0] {
		if obs[0][k] != obs[1][k] {
			e.violation("C15", fmt.Sprintf("LedgerBaseStorage observation %d differs between a ledger that deletes and one that keeps empty registers: %q vs %q", k, obs[0][k], obs[1][k]))
			break
		}
	}
}

// ---------------------------------------------------------------------------------------------
// PersistentSlabStorage.GenerateSlabID over LedgerBaseStorage: temporary address = own counter

func (e *sidEnv) persistGenProgram(addrs [][8]byte) {
	l := &mapLedger{regs: map[string][]byte{}, ctr: map[string]uint64{}, fail: map[int]bool{}}
	ps := hx.NewStorage(atree.NewLedgerBaseStorage(l))
	e.w.L("PNEW")
	seen := map[atree.SlabID]bool{}
	for k := 0; k < 20+e.rng.Intn(20); k++ {
		e.st.Ops++
		a := atree.Address(addrs[e.rng.Intn(3)]) // addrs[0] is the zero address
		id, err := ps.GenerateSlabID(a)
		if err != nil {
			panic(err)
		}
		e.w.L("POP gen a=%x", a)
		e.w.L("OBS id=%s", rawHex(id))
		if seen[id] {
			e.violation("C09", fmt.Sprintf("GenerateSlabID returned %s twice", id))
		}
		seen[id] = true
		if id.Address() != a || id.Valid() != nil {
			e.violation("C09", fmt.Sprintf("GenerateSlabID(%x) returned %s", a, id))
		}
	}
}
