package main

import (
	"fmt"

	"github.com/onflow/atree"

	"verifharness/hx"
)

func init() { streams["dualhandle"] = dualHandleStream }

// dualHandleStream runs the histories that the value-level model excludes (hypothesis
// HandlesCurrent): two live handles to the SAME nested container.  Per-handle state (root pointer,
// mutableElementIndex, parent callback) is not shared between handles, so mutations through one
// handle can leave the other stale.  C10 quantifies over "any number of live handles", so a failure
// here is a violation of C10; the known ways to fail carry fixed signatures (known findings
// F2 / F2b / F2c) so that any OTHER failure is still reported.
func dualHandleStream(cfg *Config) *hx.Stats {
	st := hx.NewStats("dualhandle", cfg.Seed)
	tic := func(a, b atree.TypeInfo) bool { return a == b }
	viol := func(p int, sig, what string) {
		st.Violations = append(st.Violations, hx.Violation{Property: "C10", Stream: "dualhandle", Seed: cfg.Seed, Program: p, What: what, Sig: sig})
	}
	prog := 0
	for _, T := range []uint32{256, 512, 1024} {
		atree.VerifSetThreshold(T)
		// --- F2: second handle to a child goes stale when the child's root is replaced through the first
		{
			ps := hx.NewStorage(hx.NewLedger())
			addr := hx.MkAddr(1)
			parent, _ := atree.NewArray(ps, addr, hx.TI(1))
			child, _ := atree.NewArray(ps, addr, hx.TI(2))
			_ = parent.Append(child)
			v1, _ := parent.Get(0)
			v2, _ := parent.Get(0)
			h1, h2 := v1.(*atree.Array), v2.(*atree.Array)
			n := 0
			for h1.IsWithinSingleSlab() && n < 5000 {
				_ = h1.Append(hx.TV{Size: 12, Pay: uint64(n)})
				n++
			}
			for i := 0; i < 20; i++ { // a few more after the root split
				_ = h1.Append(hx.TV{Size: 12, Pay: uint64(n)})
				n++
			}
			st.Programs++
			st.Ops += n
			st.Hit("second-handle-after-root-split")
			bad := ""
			if h2.Count() != uint64(n) {
				bad = fmt.Sprintf("second handle sees %d elements, the container has %d", h2.Count(), n)
			}
			if err := h2.Append(hx.TV{Size: 12, Pay: 999999}); err == nil {
				got, _ := parent.Get(0)
				if got.(*atree.Array).Count() != uint64(n+1) {
					bad += fmt.Sprintf("; append through the second handle is not visible through the parent (%d vs %d)", got.(*atree.Array).Count(), n+1)
				}
			}
			if err := atree.VerifyArray(parent, addr, hx.TI(1), tic, hx.HashInput, true); err != nil {
				bad += "; parent no longer valid: " + err.Error()
			}
			if bad != "" {
				viol(prog, "dual-handle:child-root-replaced-through-other-handle", "mutation through handle B of a nested array after its root slab was replaced (split) through handle A: "+bad)
			}
			prog++
		}
		// --- F2b: callback bound to parent handle A after a positional change through parent handle B
		{
			ps := hx.NewStorage(hx.NewLedger())
			addr := hx.MkAddr(1)
			grand, _ := atree.NewArray(ps, addr, hx.TI(1))
			parent, _ := atree.NewArray(ps, addr, hx.TI(2))
			for i := 0; i < 3; i++ {
				_ = parent.Append(hx.TV{Size: 5, Pay: uint64(i)})
			}
			child, _ := atree.NewArray(ps, addr, hx.TI(3))
			_ = parent.Append(child)
			_ = grand.Append(parent)
			va, _ := grand.Get(0)
			vb, _ := grand.Get(0)
			pA, pB := va.(*atree.Array), vb.(*atree.Array)
			vc, _ := pA.Get(3)
			c := vc.(*atree.Array)
			_ = pB.Insert(0, hx.TV{Size: 5, Pay: 77})
			for i := 0; i < 5; i++ {
				_ = c.Append(hx.TV{Size: 5, Pay: uint64(100 + i)})
			}
			st.Programs++
			st.Ops += 8
			st.Hit("callback-bound-to-other-parent-handle")
			bad := ""
			if err := atree.VerifyArray(grand, addr, hx.TI(1), tic, hx.HashInput, true); err != nil {
				bad = "outermost container no longer valid: " + err.Error()
			}
			if bad != "" {
				viol(prog, "dual-handle:parent-index-shift-through-other-handle", "child callback bound to parent handle A after an insert through parent handle B: "+bad)
			}
			prog++
		}
		// --- F2c: the closure of a DETACHED child keeps the old handle object of its former parent (a map)
		// alive; the program itself works with ONE handle per container at any time (it re-fetches the
		// parent by lookup and goes on with the new handle only).  After the former parent's root has
		// been replaced through the new handle (collapse of a two-level tree), the next mutation of
		// the detached child - while it is small enough to be inlined, so that the callback does not
		// return early - walks the stale root: C11 "further mutation through any handle to it ...; the
		// detached container remains ... a value that can be mutated".
		{
			ps := hx.NewStorage(hx.NewLedger())
			addr := hx.MkAddr(1)
			grand, _ := atree.NewArray(ps, addr, hx.TI(1))
			pm, _ := atree.NewMap(ps, addr, atree.NewDefaultDigesterBuilder(), hx.TI(2))
			_ = grand.Append(pm)
			va, _ := grand.Get(0)
			pA := va.(*atree.OrderedMap)
			n := 0
			for pA.IsWithinSingleSlab() && n < 5000 { // (method of the handle: root is a data slab)
				_, _ = pA.Set(hx.CompareKey, hx.HashInput, hx.TV{Size: 9, Pay: uint64(1000 + n)}, hx.TV{Size: 40, Pay: uint64(n)})
				n++
			}
			// (several children under different keys: whether the stale walk reaches a removed slab
			// depends on where the key's digest falls)
			var kids []*atree.Array
			for k := 0; k < 8; k++ {
				child, _ := atree.NewArray(ps, addr, hx.TI(3))
				k0 := hx.TV{Size: 9, Pay: uint64(1 + k)}
				_, _ = pA.Set(hx.CompareKey, hx.HashInput, k0, child)
				_, _, _ = pA.Remove(hx.CompareKey, hx.HashInput, k0) // child detached; its closure names pA
				kids = append(kids, child)
			}
			vb, _ := grand.Get(0)
			pB := vb.(*atree.OrderedMap) // the program's handle from now on
			for i := 0; i < n && !pB.IsWithinSingleSlab(); i++ {
				_, _, _ = pB.Remove(hx.CompareKey, hx.HashInput, hx.TV{Size: 9, Pay: uint64(1000 + i)})
			}
			st.Programs++
			st.Ops += 2*n + 4
			st.Hit("detached-child-closure-on-old-parent-handle")
			bad := ""
			for k, child := range kids {
				if err := child.Append(hx.TV{Size: 5, Pay: 1}); err != nil && bad == "" {
					bad = fmt.Sprintf("Append through the handle of detached child %d fails (%v) after having appended (count %d)", k, err, child.Count())
				}
			}
			if err := atree.VerifyArray(grand, addr, hx.TI(1), tic, hx.HashInput, true); err != nil {
				bad += "; outermost container no longer valid: " + err.Error()
			}
			if bad != "" {
				viol(prog, "dual-handle:detached-child-closure-walks-stale-root-of-old-parent-handle", "a child detached from a map through handle A of the map, the map then re-fetched (handle B) and shrunk to a single slab through B: "+bad)
			}
			prog++
		}
		// --- control: the same histories through ONE handle must be fine (any failure here is new)
		{
			ps := hx.NewStorage(hx.NewLedger())
			addr := hx.MkAddr(1)
			parent, _ := atree.NewArray(ps, addr, hx.TI(1))
			child, _ := atree.NewArray(ps, addr, hx.TI(2))
			_ = parent.Append(child)
			v1, _ := parent.Get(0)
			h1 := v1.(*atree.Array)
			for i := 0; i < 300; i++ {
				_ = h1.Append(hx.TV{Size: 12, Pay: uint64(i)})
			}
			got, _ := parent.Get(0)
			st.Programs++
			st.Ops += 300
			st.Hit("single-handle-control")
			if got.(*atree.Array).Count() != 300 {
				viol(prog, "", "single handle: appends not visible through the parent")
			}
			if err := atree.VerifyArray(parent, addr, hx.TI(1), tic, hx.HashInput, true); err != nil {
				viol(prog, "", "single handle: parent invalid: "+err.Error())
			}
			prog++
		}
	}
	st.Distinct = 4
	st.Samples = append(st.Samples, "two handles from parent.Get(0) to one nested array, 1st grows it past a root split, 2nd is then used; two handles to one parent, child fetched through A, insert through B, child mutated; child detached from a map through handle A, map re-fetched and collapsed to one slab through B, detached child mutated; single-handle controls")
	atree.VerifSetThreshold(1024)
	return st
}
