package main

// callbackfail extension, storage side (see rejectext.go): the SlabStorage handed to the containers is
// the harness's own RecStorage, a caller-implemented SlabStorage returning RAW errors.

import (
	"fmt"
	"math/rand"
	"strings"

	"github.com/onflow/atree"

	"verifharness/hx"
)

// stScenario: build creates containers on s (deterministically: the same calls on every invocation) and
// returns the request sequence to run under fault injection; the sequence stops at its first error.
type stScenario struct {
	name  string
	build func(s *xStore) (func() error, error)
}

func tvs(size uint32, pay uint64) hx.TV { return hx.TV{Size: size, Pay: pay} }

func fillArray(s *xStore, n int, size uint32) (*atree.Array, error) {
	a, err := atree.NewArray(s.rec, hx.MkAddr(1), hx.TI(4))
	if err != nil {
		return nil, err
	}
	for i := 0; i < n; i++ {
		sz := size
		if i%41 == 7 {
			sz = 300 // a value in a slab of its own
		}
		if err := a.Append(tvs(sz, uint64(i))); err != nil {
			return nil, err
		}
	}
	return a, nil
}

// plainBuilder: distinct first-level digests in key order (no collisions)
func plainBuilder() *hx.TableDigesterBuilder {
	return &hx.TableDigesterBuilder{L: 2, Fn: func(k hx.TV, l uint) uint64 { return k.Pay*1000 + uint64(l) }}
}

// groupBuilder: four first-level digests, distinct second-level digests
func groupBuilder() *hx.TableDigesterBuilder {
	return &hx.TableDigesterBuilder{L: 3, Fn: func(k hx.TV, l uint) uint64 {
		if l == 0 {
			return k.Pay % 4 * 100
		}
		return k.Pay*10 + uint64(l)
	}}
}

func fillMap(s *xStore, b atree.DigesterBuilder, n int, vsize uint32) (*atree.OrderedMap, error) {
	m, err := atree.NewMap(s.rec, hx.MkAddr(2), b, hx.TI(3))
	if err != nil {
		return nil, err
	}
	for i := 1; i <= n; i++ {
		sz := vsize
		if i%37 == 5 {
			sz = 300
		}
		if _, err := m.Set(hx.CompareKey, hx.HashInput, tvs(9, uint64(i)), tvs(sz, uint64(i))); err != nil {
			return nil, err
		}
	}
	return m, nil
}

func storageScenarios() []stScenario {
	_, _, _, maxArrElem, maxMapElem, _ := atree.VerifThresholds()
	return []stScenario{
		{"array.New", func(s *xStore) (func() error, error) {
			return func() error { _, err := atree.NewArray(s.rec, hx.MkAddr(1), hx.TI(4)); return err }, nil
		}},
		{"array.grow", func(s *xStore) (func() error, error) {
			return func() error {
				a, err := atree.NewArray(s.rec, hx.MkAddr(1), hx.TI(4))
				if err != nil {
					return err
				}
				r := rand.New(rand.NewSource(11))
				for i := 0; i < 420; i++ {
					sz := uint32(12 + r.Intn(20))
					if i%50 == 9 {
						sz = 300
					}
					if err := a.Insert(uint64(r.Intn(i+1)), tvs(sz, uint64(i))); err != nil {
						return err
					}
				}
				return nil
			}, nil
		}},
		{"array.shrink", func(s *xStore) (func() error, error) {
			a, err := fillArray(s, 420, 20)
			return func() error {
				r := rand.New(rand.NewSource(12))
				for a.Count() > 0 {
					if _, err := a.Remove(uint64(r.Int63n(int64(a.Count())))); err != nil {
						return err
					}
				}
				return nil
			}, err
		}},
		{"array.set", func(s *xStore) (func() error, error) {
			a, err := fillArray(s, 120, 10)
			return func() error {
				for _, sz := range []uint32{70, 3} { // every element grows (splits on the Set path), then shrinks (merges)
					for i := uint64(0); i < a.Count(); i++ {
						if _, err := a.Set(i, tvs(sz, i)); err != nil {
							return err
						}
					}
				}
				return nil
			}, err
		}},
		{"array.PopIterate", func(s *xStore) (func() error, error) {
			a, err := fillArray(s, 420, 20)
			return func() error { return a.PopIterate(func(atree.Storable) {}) }, err
		}},
		{"array.nested-child", func(s *xStore) (func() error, error) {
			p, err := atree.NewArray(s.rec, hx.MkAddr(1), hx.TI(4))
			if err != nil {
				return nil, err
			}
			for c := 0; c < 3; c++ {
				ch, err := atree.NewArray(s.rec, hx.MkAddr(1), hx.TI(5))
				if err != nil {
					return nil, err
				}
				for i := 0; i < 2; i++ {
					if err := ch.Append(tvs(10, uint64(i))); err != nil {
						return nil, err
					}
				}
				if err := p.Append(ch); err != nil {
					return nil, err
				}
			}
			return func() error {
				v, err := p.Get(1)
				if err != nil {
					return err
				}
				ch := v.(*atree.Array)
				for i := 0; i < 60; i++ { // over the inline limit (stand-alone), then over the slab limit (its root splits)
					if err := ch.Append(tvs(14, uint64(i))); err != nil {
						return err
					}
				}
				for ch.Count() > 1 { // back under the inline limit
					if _, err := ch.Remove(0); err != nil {
						return err
					}
				}
				_, err = p.Remove(1) // the inlined child leaves its parent: it is stored as a slab of its own
				return err
			}, nil
		}},
		{"array.Storable", func(s *xStore) (func() error, error) {
			// Array.Storable is the exported method a parent calls: a stand-alone child that fits is inlined
			// (its slab removed from storage), an inlined one that no longer fits is stored again
			ch, err := atree.NewArray(s.rec, hx.MkAddr(1), hx.TI(5))
			if err == nil {
				err = ch.Append(tvs(10, 1))
			}
			return func() error {
				if _, err := ch.Storable(s.rec, hx.MkAddr(1), maxArrElem); err != nil {
					return err
				}
				_, err := ch.Storable(s.rec, hx.MkAddr(1), 1)
				return err
			}, err
		}},
		{"array.batch", func(s *xStore) (func() error, error) {
			return func() error {
				i := 0
				_, err := atree.NewArrayFromBatchData(s.rec, hx.MkAddr(1), hx.TI(4), func() (atree.Value, error) {
					i++
					if i > 900 { // several index slabs on the second level
						return nil, nil
					}
					if i%150 == 9 {
						return tvs(300, uint64(i)), nil
					}
					return tvs(20, uint64(i)), nil
				})
				return err
			}, nil
		}},
		{"array.CopyNonRefSimple", func(s *xStore) (func() error, error) {
			a, err := atree.NewArray(s.rec, hx.MkAddr(1), hx.TI(4))
			for i := 0; i < 5 && err == nil; i++ {
				err = a.Append(tvs(10, uint64(i)))
			}
			return func() error { _, err := a.CopyNonRefSimple(hx.MkAddr(5)); return err }, err
		}},
		{"NewStorableSlab", func(s *xStore) (func() error, error) {
			// what a caller's Value.Storable does for a value over the inline limit
			return func() error { _, err := atree.NewStorableSlab(s.rec, hx.MkAddr(1), tvs(300, 1), 300); return err }, nil
		}},
		{"map.New", func(s *xStore) (func() error, error) {
			return func() error { _, err := atree.NewMap(s.rec, hx.MkAddr(2), plainBuilder(), hx.TI(3)); return err }, nil
		}},
		{"map.grow", func(s *xStore) (func() error, error) {
			return func() error {
				m, err := atree.NewMap(s.rec, hx.MkAddr(2), plainBuilder(), hx.TI(3))
				if err != nil {
					return err
				}
				r := rand.New(rand.NewSource(13))
				for _, k := range r.Perm(420) {
					sz := uint32(12 + r.Intn(20))
					if k%50 == 9 {
						sz = 300
					}
					if _, err := m.Set(hx.CompareKey, hx.HashInput, tvs(9, uint64(k+1)), tvs(sz, uint64(k))); err != nil {
						return err
					}
				}
				return nil
			}, nil
		}},
		{"map.shrink", func(s *xStore) (func() error, error) {
			m, err := fillMap(s, plainBuilder(), 420, 16)
			return func() error {
				r := rand.New(rand.NewSource(14))
				for _, k := range r.Perm(420) {
					if _, _, err := m.Remove(hx.CompareKey, hx.HashInput, tvs(9, uint64(k+1))); err != nil {
						return err
					}
				}
				return nil
			}, err
		}},
		{"map.set", func(s *xStore) (func() error, error) {
			m, err := fillMap(s, plainBuilder(), 120, 10)
			return func() error {
				for _, sz := range []uint32{70, 3} {
					for k := uint64(1); k <= 120; k++ {
						if _, err := m.Set(hx.CompareKey, hx.HashInput, tvs(9, k), tvs(sz, k)); err != nil {
							return err
						}
					}
				}
				return nil
			}, err
		}},
		{"map.PopIterate", func(s *xStore) (func() error, error) {
			m, err := fillMap(s, plainBuilder(), 420, 16)
			return func() error { return m.PopIterate(func(atree.Storable, atree.Storable) {}) }, err
		}},
		{"map.collision-groups", func(s *xStore) (func() error, error) {
			// four first-level groups whose members do not fit inline: the groups move to slabs of their own,
			// and collapse again when all members but one are removed
			return func() error {
				m, err := atree.NewMap(s.rec, hx.MkAddr(2), groupBuilder(), hx.TI(3))
				if err != nil {
					return err
				}
				for k := uint64(1); k <= 24; k++ {
					if _, err := m.Set(hx.CompareKey, hx.HashInput, tvs(9, k), tvs(maxMapElem/2, k)); err != nil {
						return err
					}
				}
				for k := uint64(1); k <= 24; k++ {
					if _, _, err := m.Remove(hx.CompareKey, hx.HashInput, tvs(9, k)); err != nil {
						return err
					}
				}
				return nil
			}, nil
		}},
		{"map.collision-groups.PopIterate", func(s *xStore) (func() error, error) {
			m, err := atree.NewMap(s.rec, hx.MkAddr(2), groupBuilder(), hx.TI(3))
			for k := uint64(1); k <= 24 && err == nil; k++ {
				_, err = m.Set(hx.CompareKey, hx.HashInput, tvs(9, k), tvs(maxMapElem/2, k))
			}
			return func() error { return m.PopIterate(func(atree.Storable, atree.Storable) {}) }, err
		}},
		{"map.nested-child", func(s *xStore) (func() error, error) {
			p, err := atree.NewMap(s.rec, hx.MkAddr(2), plainBuilder(), hx.TI(3))
			if err != nil {
				return nil, err
			}
			for c := uint64(1); c <= 3; c++ {
				ch, err := atree.NewMap(s.rec, hx.MkAddr(2), plainBuilder(), hx.TI(6))
				if err != nil {
					return nil, err
				}
				if _, err := ch.Set(hx.CompareKey, hx.HashInput, tvs(9, 1), tvs(10, 1)); err != nil {
					return nil, err
				}
				if _, err := p.Set(hx.CompareKey, hx.HashInput, tvs(9, c), ch); err != nil {
					return nil, err
				}
			}
			return func() error {
				v, err := p.Get(hx.CompareKey, hx.HashInput, tvs(9, 2))
				if err != nil {
					return err
				}
				ch := v.(*atree.OrderedMap)
				for k := uint64(2); k <= 40; k++ {
					if _, err := ch.Set(hx.CompareKey, hx.HashInput, tvs(9, k), tvs(14, k)); err != nil {
						return err
					}
				}
				for k := uint64(2); k <= 40; k++ {
					if _, _, err := ch.Remove(hx.CompareKey, hx.HashInput, tvs(9, k)); err != nil {
						return err
					}
				}
				_, _, err = p.Remove(hx.CompareKey, hx.HashInput, tvs(9, 2))
				return err
			}, nil
		}},
		{"map.Storable", func(s *xStore) (func() error, error) {
			ch, err := atree.NewMap(s.rec, hx.MkAddr(2), plainBuilder(), hx.TI(6))
			if err == nil {
				_, err = ch.Set(hx.CompareKey, hx.HashInput, tvs(9, 1), tvs(10, 1))
			}
			return func() error {
				if _, err := ch.Storable(s.rec, hx.MkAddr(2), maxMapElem); err != nil {
					return err
				}
				_, err := ch.Storable(s.rec, hx.MkAddr(2), 1)
				return err
			}, err
		}},
		{"map.CopyNonRefSimple", func(s *xStore) (func() error, error) {
			m, err := fillMap(s, plainBuilder(), 4, 10)
			return func() error { _, err := m.CopyNonRefSimple(hx.MkAddr(5), plainBuilder()); return err }, err
		}},
		{"map.batch", func(s *xStore) (func() error, error) {
			return func() error {
				i := uint64(0)
				_, err := atree.NewMapFromBatchData(s.rec, hx.MkAddr(2), plainBuilder(), hx.TI(3), hx.CompareKey, hx.HashInput, 7,
					func() (atree.Value, atree.Value, error) {
						i++
						if i > 300 {
							return nil, nil, nil
						}
						if i%50 == 9 {
							return tvs(9, i), tvs(300, i), nil
						}
						return tvs(9, i), tvs(16, i), nil
					})
				return err
			}, nil
		}},
	}
}

// positions picks the call positions to fail: all of them when there are few, otherwise the first and
// the last ones and a random sample.
func (x *cbx) positions(n, all int) []int {
	if n <= all {
		out := make([]int, n)
		for i := range out {
			out[i] = i + 1
		}
		return out
	}
	set := map[int]bool{1: true, 2: true, 3: true, n - 1: true, n: true}
	for len(set) < 10 {
		set[1+x.rng.Intn(n)] = true
	}
	var out []int
	for i := 1; i <= n; i++ {
		if set[i] {
			out = append(out, i)
		}
	}
	return out
}

var storageCallKinds = []string{"GenerateSlabID", "Remove", "Store", "Retrieve"}

// failingStorageCalls: every call position (sampled when there are many) of GenerateSlabID / Remove /
// Store / Retrieve made by requests that split, merge, rebalance, promote, pop, inline / uninline, export
// and collapse collision groups fails once with a raw error: the request that meets it must fail as
// External with the cause; no panic.  The state afterwards is not examined (these failures leave
// half-applied changes: observation O5); every run works on containers of its own.
func (x *cbx) failingStorageCalls() {
	atree.VerifSetThreshold(256)
	for _, sc := range storageScenarios() {
		if x.stop() {
			return
		}
		s := newXStore()
		run, err := sc.build(s)
		if err != nil {
			x.st.HarnessErr = "storage scenario " + sc.name + ": " + err.Error()
			return
		}
		s.rec.ResetFail()
		if err := x.guard(sc.name, run); err != nil {
			if err != errPanicked {
				x.viol(fmt.Sprintf("storage scenario %s failed without an injected failure: %v", sc.name, err))
			}
			continue
		}
		counts := map[string]int{"GenerateSlabID": s.rec.Generates, "Remove": s.rec.Removes, "Store": s.rec.Stores, "Retrieve": s.rec.Retrieves}
		for _, kind := range storageCallKinds {
			all := 10
			if kind == "GenerateSlabID" || kind == "Remove" {
				all = 200 // allocations and removals are the splits / merges / promotions themselves: every one of them
			}
			for _, pos := range x.positions(counts[kind], all) {
				if x.stop() {
					return
				}
				s := newXStore()
				run, err := sc.build(s)
				if err != nil {
					x.st.HarnessErr = "storage scenario " + sc.name + ": " + err.Error()
					return
				}
				s.rec.ResetFail()
				switch kind {
				case "GenerateSlabID":
					s.rec.FailGenerateAt = pos
				case "Remove":
					s.rec.FailRemoveAt = pos
				case "Store":
					s.rec.FailStoreAt = pos
				default:
					s.rec.FailRetrieveAt = pos
				}
				what := fmt.Sprintf("storage.%s/%s", kind, sc.name)
				err = x.guard(fmt.Sprintf("%s (call %d of %d)", what, pos, counts[kind]), run)
				if !s.rec.FailFired {
					x.st.HarnessErr = fmt.Sprintf("storage scenario %s is not deterministic: %s call %d of %d was not made", sc.name, kind, pos, counts[kind])
					return
				}
				if !x.external(what, err) && err != errPanicked {
					x.st.Samples = append(x.st.Samples, fmt.Sprintf("%s: call %d of %d failed; the request returned %v", what, pos, counts[kind], err))
				}
			}
		}
	}
}

// requests whose storage calls every run must have failed (appended to callbackRequired)
var callbackRequiredStore = []string{
	"storage.GenerateSlabID/array.New", "storage.GenerateSlabID/array.grow", "storage.GenerateSlabID/array.set",
	"storage.GenerateSlabID/array.nested-child", "storage.GenerateSlabID/array.batch",
	"storage.GenerateSlabID/array.CopyNonRefSimple", "storage.GenerateSlabID/map.CopyNonRefSimple", "storage.GenerateSlabID/NewStorableSlab",
	"storage.Remove/array.shrink", "storage.Remove/array.set", "storage.Remove/array.PopIterate",
	"storage.Remove/array.nested-child", "storage.Remove/array.Storable",
	"storage.Store/array.grow", "storage.Store/array.Storable", "storage.Retrieve/array.shrink",
	"storage.GenerateSlabID/map.New", "storage.GenerateSlabID/map.grow", "storage.GenerateSlabID/map.set",
	"storage.GenerateSlabID/map.collision-groups", "storage.GenerateSlabID/map.nested-child", "storage.GenerateSlabID/map.batch",
	"storage.Remove/map.shrink", "storage.Remove/map.set", "storage.Remove/map.PopIterate", "storage.Remove/map.collision-groups",
	"storage.Remove/map.collision-groups.PopIterate", "storage.Remove/map.nested-child", "storage.Remove/map.Storable",
	"storage.Store/map.grow", "storage.Store/map.Storable", "storage.Retrieve/map.shrink",
	// a failing read under iteration
	"array.IterateReadOnly/storage-read-of-next-slab", "array.IterateReadOnlyRange/storage-read-of-next-slab",
	"array.ReadOnlyIterator.Next/storage-read-of-next-slab", "array.Iterate/storage-read",
	"map.IterateReadOnly/storage-read-of-next-slab", "map.IterateReadOnlyKeys/storage-read-of-next-slab",
	"map.IterateReadOnlyValues/storage-read-of-next-slab", "map.ReadOnlyIterator.Next/storage-read-of-next-slab",
	"map.Iterate/storage-read",
	// dangling next link
	"dangling-next/array.IterateReadOnly", "dangling-next/array.IterateReadOnlyRange", "dangling-next/array.ReadOnlyIterator.Next",
	"dangling-next/array.IterateReadOnlyLoadedValues", "dangling-next/array.Iterate",
	"dangling-next/map.IterateReadOnly", "dangling-next/map.IterateReadOnlyKeys", "dangling-next/map.IterateReadOnlyValues",
	"dangling-next/map.ReadOnlyIterator.Next", "dangling-next/map.IterateReadOnlyLoadedValues", "dangling-next/map.Iterate",
	"dangling-value-slab/array.Get", "dangling-value-slab/map.Get", "dangling-value-slab/array.IterateReadOnly", "dangling-value-slab/map.IterateReadOnly",
	"wrong-kind-next/array.Iterate", "wrong-kind-next/map.IterateReadOnly", "wrong-kind-next/map.Iterate",
	"dangling-group/map.Get", "dangling-group/map.Has", "dangling-group/map.Set", "dangling-group/map.Remove",
	"dangling-group/map.IterateReadOnly", "dangling-group/map.Iterate", "wrong-kind-group/map.Get", "wrong-kind-group/map.Remove",
}

// iteration flavours over one array and one map (callbacks that never fail)
type iterFlavour struct {
	name     string
	readOnly bool // walks the data slabs through their next links
	loaded   bool // yields what is loaded, reads nothing
	run      func() error
}

func iterFlavours(a *atree.Array, m *atree.OrderedMap) []iterFlavour {
	okv := func(atree.Value) (bool, error) { return true, nil }
	okkv := func(atree.Value, atree.Value) (bool, error) { return true, nil }
	nop := func(atree.Value) {}
	n := a.Count()
	drainA := func(it atree.ArrayIterator, err error) error {
		for err == nil {
			var v atree.Value
			if v, err = it.Next(); v == nil {
				break
			}
		}
		return err
	}
	drainM := func(it atree.MapIterator, err error, which int) error {
		for err == nil {
			var k atree.Value
			switch which {
			case 0:
				k, _, err = it.Next()
			case 1:
				k, err = it.NextKey()
			default:
				k, err = it.NextValue()
			}
			if k == nil {
				break
			}
		}
		return err
	}
	return []iterFlavour{
		{"array.IterateReadOnly", true, false, func() error { return a.IterateReadOnly(okv) }},
		{"array.IterateReadOnlyWithMutationCallback", true, false, func() error { return a.IterateReadOnlyWithMutationCallback(okv, nop) }},
		{"array.IterateReadOnlyRange", true, false, func() error { return a.IterateReadOnlyRange(0, n, okv) }},
		{"array.IterateReadOnlyRangeWithMutationCallback", true, false, func() error { return a.IterateReadOnlyRangeWithMutationCallback(1, n, okv, nop) }},
		{"array.ReadOnlyIterator.Next", true, false, func() error { return drainA(a.ReadOnlyIterator()) }},
		{"array.ReadOnlyRangeIterator.Next", true, false, func() error { return drainA(a.ReadOnlyRangeIterator(0, n)) }},
		{"array.IterateReadOnlyLoadedValues", true, true, func() error { return a.IterateReadOnlyLoadedValues(okv) }},
		{"array.ReadOnlyLoadedValueIterator.Next", true, true, func() error { return drainA(a.ReadOnlyLoadedValueIterator()) }},
		{"array.Iterate", false, false, func() error { return a.Iterate(okv) }},
		{"array.IterateRange", false, false, func() error { return a.IterateRange(0, n, okv) }},
		{"array.Iterator.Next", false, false, func() error { return drainA(a.Iterator()) }},
		{"map.IterateReadOnly", true, false, func() error { return m.IterateReadOnly(okkv) }},
		{"map.IterateReadOnlyWithMutationCallback", true, false, func() error { return m.IterateReadOnlyWithMutationCallback(okkv, nop, nop) }},
		{"map.IterateReadOnlyKeys", true, false, func() error { return m.IterateReadOnlyKeys(okv) }},
		{"map.IterateReadOnlyKeysWithMutationCallback", true, false, func() error { return m.IterateReadOnlyKeysWithMutationCallback(okv, nop) }},
		{"map.IterateReadOnlyValues", true, false, func() error { return m.IterateReadOnlyValues(okv) }},
		{"map.IterateReadOnlyValuesWithMutationCallback", true, false, func() error { return m.IterateReadOnlyValuesWithMutationCallback(okv, nop) }},
		{"map.ReadOnlyIterator.Next", true, false, func() error { it, err := m.ReadOnlyIterator(); return drainM(it, err, 0) }},
		{"map.ReadOnlyIterator.NextKey", true, false, func() error { it, err := m.ReadOnlyIterator(); return drainM(it, err, 1) }},
		{"map.ReadOnlyIterator.NextValue", true, false, func() error { it, err := m.ReadOnlyIterator(); return drainM(it, err, 2) }},
		{"map.IterateReadOnlyLoadedValues", true, true, func() error { return m.IterateReadOnlyLoadedValues(okkv) }},
		{"map.Iterate", false, false, func() error { return m.Iterate(hx.CompareKey, hx.HashInput, okkv) }},
		{"map.IterateKeys", false, false, func() error { return m.IterateKeys(hx.CompareKey, hx.HashInput, okv) }},
		{"map.IterateValues", false, false, func() error { return m.IterateValues(hx.CompareKey, hx.HashInput, okv) }},
		{"map.Iterator.Next", false, false, func() error { it, err := m.Iterator(hx.CompareKey, hx.HashInput); return drainM(it, err, 0) }},
	}
}

// committedPair: a two-level array and a two-level map on a storage of their own, committed.
func (x *cbx) committedPair() (*xStore, *atree.Array, *atree.OrderedMap) {
	s := newXStore()
	a, err := fillArray(s, 100, 20)
	if err != nil {
		x.st.HarnessErr = "setup: " + err.Error()
		return nil, nil, nil
	}
	m, err := fillMap(s, plainBuilder(), 70, 16)
	if err != nil {
		x.st.HarnessErr = "setup: " + err.Error()
		return nil, nil, nil
	}
	if err := s.ps.FastCommit(2); err != nil {
		x.st.HarnessErr = "setup commit: " + err.Error()
		return nil, nil, nil
	}
	s.arrays, s.maps = []*atree.Array{a}, []*atree.OrderedMap{m}
	s.rec.Reset()
	return s, a, m
}

// failingStorageUnderIteration: the n-th SlabStorage read made by an iteration fails with a raw error.
func (x *cbx) failingStorageUnderIteration() {
	atree.VerifSetThreshold(256)
	s, a, m := x.committedPair()
	if s == nil {
		return
	}
	for _, fl := range iterFlavours(a, m) {
		if fl.loaded || x.stop() {
			continue
		}
		s.rec.ResetFail()
		if err := x.guard(fl.name, fl.run); err != nil {
			if err != errPanicked {
				x.viol(fmt.Sprintf("%s over a healthy storage failed: %v", fl.name, err))
			}
			continue
		}
		reads := s.rec.Retrieves
		if reads < 3 {
			x.st.HarnessErr = fmt.Sprintf("%s made %d storage reads: the containers are too small", fl.name, reads)
			return
		}
		for _, pos := range []int{1, 2, 2 + x.rng.Intn(reads-1), reads} {
			before := s.snapshot()
			s.rec.Reset()
			s.rec.ResetFail()
			s.rec.FailRetrieveAt = pos
			err := x.guard(fl.name, fl.run)
			fired := s.rec.FailFired
			s.rec.ResetFail()
			if !fired {
				x.st.HarnessErr = fmt.Sprintf("%s: storage read %d of %d was not made", fl.name, pos, reads)
				return
			}
			what := fl.name + "/storage-read"
			if fl.readOnly && pos >= 2 {
				what += "-of-next-slab" // read 1 fetches the first data slab below the index root
			}
			x.external(what, err)
			x.unchanged(what, s, before)
		}
	}
}

// secondDataSlab: the identifier of the second data slab of a two-level tree (the target of the first
// data slab's next link).
func secondDataSlab(ps *atree.PersistentSlabStorage, root atree.Slab) atree.SlabID {
	ids := atree.VerifChildSlabIDs(root)
	if len(ids) < 2 {
		return atree.SlabIDUndefined
	}
	first, ok, err := ps.Retrieve(ids[0])
	if err != nil || !ok {
		return atree.SlabIDUndefined
	}
	return atree.VerifSlabNext(first)
}

// danglingNext: links that lead nowhere (or to a slab of another kind) on a committed storage:
//
//	removed / physical  the SECOND data slab of the array and of the map is removed (pending removal / register
//	                    deleted from the ledger and the containers reopened): dangling next link and child link
//	value-slabs         every large-value slab (StorableSlab) is removed: dangling element references
//	wrong-kind          the second data slab's identifier holds a slab of the OTHER container kind
//
// Requests that have to follow the link must report SlabNotFound (SlabData for the wrong kind) - never
// panic, never succeed; the loaded-value flavours skip what is not there.  Nothing is written.
func (x *cbx) danglingNext() {
	atree.VerifSetThreshold(256)
	for _, variant := range []string{"removed", "physical", "value-slabs", "wrong-kind"} {
		s, a, m := x.committedPair()
		if s == nil {
			return
		}
		ida := secondDataSlab(s.ps, atree.VerifArrayRoot(a))
		idm := secondDataSlab(s.ps, atree.VerifMapRoot(m))
		if ida == atree.SlabIDUndefined || idm == atree.SlabIDUndefined {
			x.st.HarnessErr = "dangling-next: the trees have no second data slab"
			return
		}
		tag, want := "dangling-next/", "SlabNotFound:Fatal"
		switch variant {
		case "removed":
			_ = s.ps.Remove(ida)
			_ = s.ps.Remove(idm)
		case "physical":
			s.ps.DropCache()
			delete(s.ledger.Seg, ida)
			delete(s.ledger.Seg, idm)
			// reopen the containers from their registers (the handles above hold the old root objects)
			var err error
			if a, err = atree.NewArrayWithRootID(s.rec, a.SlabID()); err == nil {
				m, err = atree.NewMapWithRootID(s.rec, m.SlabID(), plainBuilder())
			}
			if err != nil {
				x.st.HarnessErr = "dangling-next: reopen: " + err.Error()
				return
			}
		case "value-slabs":
			tag = "dangling-value-slab/"
			n := 0
			for _, id := range s.ledger.SortedIDs() {
				if sl, ok, _ := s.ps.Retrieve(id); ok {
					if _, isVal := sl.(*atree.StorableSlab); isVal {
						_ = s.ps.Remove(id)
						n++
					}
				}
			}
			if n < 2 {
				x.st.HarnessErr = "dangling-value-slab: the containers hold no large values"
				return
			}
		case "wrong-kind":
			tag, want = "wrong-kind-next/", "SlabData:Fatal"
			sa, _, _ := s.ps.Retrieve(ida)
			sm, _, _ := s.ps.Retrieve(idm)
			_ = s.ps.Store(ida, sm)
			_ = s.ps.Store(idm, sa)
		}
		check := func(what string, loaded bool, f func() error) {
			if x.stop() {
				return
			}
			before := deltaKeys(s.ps)
			s.rec.Reset()
			x.st.Ops++
			x.st.Hit(what)
			var err error
			if variant == "wrong-kind" && strings.HasPrefix(what, "wrong-kind-next/array.") && !loaded {
				// readOnlyArrayIterator.Next asserts `slab.(*ArrayDataSlab)` without a check: on the unchanged
				// library a next link to a slab of another kind is a panic, not an error.  Corrupted storage is
				// outside C18's text (the request's ARGUMENTS are fine): counted, not raised.
				func() {
					defer func() {
						if r := recover(); r != nil {
							x.st.Hit("observation:array-read-only-iterator-panics-on-next-slab-of-another-kind")
							err = errPanicked
						}
					}()
					err = f()
				}()
			} else {
				err = x.guard(what, f)
			}
			if err == errPanicked {
				return
			}
			x.e.distinct[what+hx.ErrKind(err)] = true
			keysOnly := variant == "value-slabs" && strings.Contains(what, "Key") // key iterations never read a value
			switch {
			case keysOnly:
				if err != nil {
					x.viol(fmt.Sprintf("%s: an iteration over the keys failed although only value slabs are missing: %s", what, hx.ErrKind(err)))
				}
			case loaded:
				if err != nil && variant != "wrong-kind" {
					x.viol(fmt.Sprintf("%s: a loaded-value iteration over a tree with a missing slab failed: %s", what, hx.ErrKind(err)))
				}
			case err == nil:
				x.viol(what + ": the request had to follow a link to a missing slab and succeeded")
			case hx.ErrKind(err) != want:
				x.viol(fmt.Sprintf("%s: reported as %s, want %s", what, hx.ErrKind(err), want))
			}
			if len(s.rec.Effs) != 0 || deltaKeys(s.ps) != before {
				x.viol(what + ": the failed request touched storage")
			}
		}
		for _, fl := range iterFlavours(a, m) {
			check(tag+fl.name, fl.loaded, fl.run)
		}
		if variant == "value-slabs" {
			// fillArray / fillMap: element 7 and key 5 are large values
			check(tag+"array.Get", false, func() error { _, err := a.Get(7); return err })
			check(tag+"map.Get", false, func() error { _, err := m.Get(hx.CompareKey, hx.HashInput, tvs(9, 5)); return err })
		}
	}
	x.danglingGroup()
}

// danglingGroup: the slab of an external collision group is removed from storage (or replaced by a slab of
// another kind): every request on a key of that group and every iteration must report SlabNotFound
// (SlabData), never panic.
func (x *cbx) danglingGroup() {
	_, _, _, _, maxMapElem, _ := atree.VerifThresholds()
	for _, variant := range []string{"removed", "wrong-kind"} {
		s := newXStore()
		m, err := atree.NewMap(s.rec, hx.MkAddr(2), groupBuilder(), hx.TI(3))
		for k := uint64(1); k <= 24 && err == nil; k++ {
			_, err = m.Set(hx.CompareKey, hx.HashInput, tvs(9, k), tvs(maxMapElem/2, k))
		}
		a, err2 := fillArray(s, 3, 10)
		if err != nil || err2 != nil {
			x.st.HarnessErr = fmt.Sprintf("dangling-group setup: %v %v", err, err2)
			return
		}
		if err := s.ps.FastCommit(2); err != nil {
			x.st.HarnessErr = "dangling-group commit: " + err.Error()
			return
		}
		groups := atree.VerifChildSlabIDs(atree.VerifMapRoot(m))
		if !atree.VerifMapRoot(m).IsData() || len(groups) != 4 {
			x.st.HarnessErr = fmt.Sprintf("dangling-group: expected a single data slab with 4 external groups, got %d", len(groups))
			return
		}
		// the group of the keys k%4 == 1 comes second in digest order; the first group stays readable
		gid := groups[1]
		tag, want := "dangling-group/", "SlabNotFound:Fatal"
		if variant == "removed" {
			_ = s.ps.Remove(gid)
		} else {
			tag, want = "wrong-kind-group/", "SlabData:Fatal"
			_ = s.ps.Store(gid, atree.VerifArrayRoot(a))
		}
		type req struct {
			name   string
			loaded bool
			run    func() error
		}
		k := tvs(9, 5) // 5%4 == 1
		reqs := []req{
			{"map.Get", false, func() error { _, err := m.Get(hx.CompareKey, hx.HashInput, k); return err }},
			{"map.Has", false, func() error { _, err := m.Has(hx.CompareKey, hx.HashInput, k); return err }},
			{"map.Set", false, func() error { _, err := m.Set(hx.CompareKey, hx.HashInput, k, tvs(12, 1)); return err }},
			{"map.Set-new-key", false, func() error { _, err := m.Set(hx.CompareKey, hx.HashInput, tvs(9, 45), tvs(12, 1)); return err }},
			{"map.Remove", false, func() error { _, _, err := m.Remove(hx.CompareKey, hx.HashInput, k); return err }},
		}
		for _, fl := range iterFlavours(a, m) {
			if strings.HasPrefix(fl.name, "map.") {
				reqs = append(reqs, req{fl.name, fl.loaded, fl.run})
			}
		}
		for _, r := range reqs {
			if x.stop() {
				return
			}
			what := tag + r.name
			before := deltaKeys(s.ps) + hx.DumpTree(s.ps, atree.VerifMapRoot(m))
			s.rec.Reset()
			x.st.Ops++
			x.st.Hit(what)
			err := x.guard(what, r.run)
			if err == errPanicked {
				continue
			}
			x.e.distinct[what+hx.ErrKind(err)] = true
			switch {
			case r.loaded && variant == "removed":
				if err != nil {
					x.viol(fmt.Sprintf("%s: a loaded-value iteration over a map with a missing group slab failed: %s", what, hx.ErrKind(err)))
				}
			case err == nil:
				x.viol(what + ": the request had to read a missing collision-group slab and succeeded")
			case hx.ErrKind(err) != want:
				x.viol(fmt.Sprintf("%s: reported as %s, want %s", what, hx.ErrKind(err), want))
			}
			if len(s.rec.Effs) != 0 || deltaKeys(s.ps)+hx.DumpTree(s.ps, atree.VerifMapRoot(m)) != before {
				x.viol(what + ": the failed request changed the map or touched storage")
			}
		}
	}
}
