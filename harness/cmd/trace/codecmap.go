package main

// Programs that produce MAP slabs, slabs with INLINED children (arrays, maps, wrappers, at several
// depths, with shared and unshared type information) and COMPACT maps for the streams "codec" and
// "malformed" (codec.go), the hand-crafted version-0 forms of map registers, the model-free
// helpers the oracles of codec.go need for these kinds, and the `UMI` lines (cbor.Unmarshal into a
// uint64, the call `decodeTypeInfoRefIfNeeded` makes on a type-info reference).

import (
	"encoding/binary"
	"encoding/hex"
	"fmt"
	"math/rand"
	"os"
	"regexp"
	"sort"
	"strconv"
	"strings"

	"github.com/fxamacker/cbor/v2"
	"github.com/onflow/atree"

	"verifharness/hx"
)

// ---------------------------------------------------------------------------------------------
// model-free helpers

// storableHasRef: does the storable contain a slab reference (through wrappers and inlined slabs)
func storableHasRef(s atree.Storable) bool {
	switch x := s.(type) {
	case atree.SlabIDStorable:
		return true
	case hx.SomeStorable:
		return storableHasRef(x.S)
	case *atree.ArrayDataSlab:
		for _, c := range x.ChildStorables() {
			if storableHasRef(c) {
				return true
			}
		}
	case *atree.MapDataSlab:
		for _, c := range x.ChildStorables() {
			if storableHasRef(c) {
				return true
			}
		}
	}
	return false
}

// regSections measures, by re-parsing the register, the root's extra-data section and the shared
// inlined-extra-data section, and says whether the latter holds compact-map entries (tag 249).
func regSections(reg []byte) (extra, ied int, compact bool, err error) {
	if len(reg) < 2 {
		return 0, 0, false, fmt.Errorf("short register")
	}
	b0, b1 := reg[0], reg[1]
	d := cbor.NewByteStreamDecoder(reg[2:])
	if b1&0x80 != 0 && b1&0x18 != 0x18 {
		raw, err := d.DecodeRawBytes()
		if err != nil {
			return 0, 0, false, err
		}
		extra = len(raw)
	}
	low := b1 & 0x1f
	isData := low == 0x00 || low == 0x08 || low == 0x0b
	if isData && b0>>4 == 1 && b0&0x01 != 0 {
		raw, err := d.DecodeRawBytes()
		if err != nil {
			return extra, 0, false, err
		}
		ied = len(raw)
		x := cbor.NewByteStreamDecoder(raw)
		if _, err := x.DecodeArrayHead(); err != nil {
			return extra, ied, false, err
		}
		if err := x.Skip(); err != nil {
			return extra, ied, false, err
		}
		n, err := x.DecodeArrayHead()
		if err != nil {
			return extra, ied, false, err
		}
		for i := uint64(0); i < n; i++ {
			t, err := x.DecodeTagNumber()
			if err != nil {
				return extra, ied, compact, err
			}
			if t == atree.CBORTagInlinedCompactMapExtraData {
				compact = true
			}
			if err := x.Skip(); err != nil {
				return extra, ied, compact, err
			}
		}
	}
	return extra, ied, compact, nil
}

// dumpFlags reads the anySize / collisionGroup fields of a map data slab dump.
func dumpAnySize(dump string) bool {
	if !strings.HasPrefix(dump, "d(") {
		return false
	}
	end := strings.IndexByte(dump, ')')
	if end < 0 {
		return false
	}
	f := strings.Split(dump[2:end], ",")
	return len(f) == 7 && f[5] == "1"
}

// ---- normal form of a dump under the compact-map exception of C07: inlined maps of a composite
// type keep their key-value content but may adopt the shared seed and internal order

type dnorm struct {
	s       string
	i       int
	bad     bool
	count   int // extra-data count of the inlined composite map whose elements come next (-1: none)
	keySize  int  // size of the key of the single element parsed last
	keyPlain bool // ... and whether it is a plain value
	hoisted int // bytes the compact form of the inlined composite maps met so far does not write in place
}

func (p *dnorm) peek() byte {
	if p.i < len(p.s) {
		return p.s[p.i]
	}
	return 0
}
func (p *dnorm) lit(x string) {
	if strings.HasPrefix(p.s[p.i:], x) {
		p.i += len(x)
	} else {
		p.bad = true
	}
}
func (p *dnorm) until(stop string) string {
	j := p.i
	for j < len(p.s) && !strings.ContainsRune(stop, rune(p.s[j])) {
		j++
	}
	r := p.s[p.i:j]
	p.i = j
	return r
}

func (p *dnorm) sized() string {
	if p.bad {
		return ""
	}
	size := p.until(":")
	p.lit(":")
	switch p.peek() {
	case 'v', 'R':
		return size + ":" + p.until(",)] ")
	case 'W':
		p.lit("W(")
		in := p.sized()
		p.lit(")")
		return size + ":W(" + in + ")"
	case 'D':
		hd := p.until(")")
		p.lit(")")
		ty := ""
		if strings.HasPrefix(p.s[p.i:], "T(") {
			ty = p.until(")") + ")"
			p.lit(")")
		}
		p.lit("[")
		var es []string
		for !p.bad && p.peek() != ']' {
			es = append(es, p.sized())
			if p.peek() == ',' {
				p.i++
			}
		}
		p.lit("]")
		return size + ":" + hd + ")" + ty + "[" + strings.Join(es, ",") + "]"
	case 'd':
		hd := p.until(")")
		p.lit(")")
		f := strings.Split(strings.TrimPrefix(hd, "d("), ",")
		ty := ""
		composite := false
		if strings.HasPrefix(p.s[p.i:], "T(") {
			ty = p.until(")") + ")"
			p.lit(")")
			composite = strings.HasPrefix(ty, "T(c")
		}
		count := -1
		if composite && len(f) == 7 {
			f[3] = "*"
			t := strings.Split(strings.TrimSuffix(strings.TrimPrefix(ty, "T("), ")"), ",")
			if len(t) == 3 {
				if c, err := strconv.Atoi(t[1]); err == nil {
					count = c
				}
				t[2] = "*"
				ty = "T(" + strings.Join(t, ",") + ")"
			}
			hd = "d(" + strings.Join(f, ",")
		}
		p.count = count
		return size + ":" + hd + ")" + ty + p.elements(composite)
	}
	p.bad = true
	return ""
}

func (p *dnorm) elements(composite bool) string {
	if p.bad {
		return ""
	}
	switch p.peek() {
	case 'H':
		hd := p.until(")")
		p.lit("){")
		hk := p.until("}")
		p.lit("}[")
		var es []string
		allSingle := true
		count := p.count
		p.count = -1
		keyBytes, plainKeys := 0, true
		for !p.bad && p.peek() != ']' {
			if p.peek() != 'S' {
				allSingle = false
			}
			p.keySize, p.keyPlain = 0, false
			es = append(es, p.element())
			keyBytes += p.keySize
			plainKeys = plainKeys && p.keyPlain
			if p.peek() == ' ' {
				p.i++
			}
		}
		p.lit("]")
		if composite && allSingle {
			hk = "*"
			sort.Strings(es)
		}
		// MapDataSlab.canBeEncodedAsCompactMap: composite type, single elements only, keys comparable and
		// stored in place (with the harness's values: plain TVs); the digests, the single-element heads and
		// the keys go to the shared section, the hkeyElements head (8 bytes) becomes a plain array head
		if composite && allSingle && plainKeys && count == len(es) {
			n := len(es)
			hl := 1
			switch {
			case n >= 65536:
				hl = 5
			case n >= 256:
				hl = 3
			case n >= 24:
				hl = 2
			}
			p.hoisted += 8 - hl + keyBytes + n*(8+1)
		}
		return hd + "){" + hk + "}[" + strings.Join(es, " ") + "]"
	case 'L':
		hd := p.until(")")
		p.lit(")[")
		var es []string
		for !p.bad && p.peek() != ']' {
			es = append(es, p.element())
			if p.peek() == ' ' {
				p.i++
			}
		}
		p.lit("]")
		return hd + ")[" + strings.Join(es, " ") + "]"
	}
	p.bad = true
	return ""
}

func (p *dnorm) element() string {
	switch p.peek() {
	case 'S':
		p.lit("S(")
		size := p.until(",")
		p.lit(",")
		k := p.sized()
		p.lit(",")
		v := p.sized()
		p.lit(")")
		// (set after the value: the value may hold single elements of its own)
		p.keySize, p.keyPlain = 0, false
		if j := strings.IndexByte(k, ':'); j > 0 {
			p.keySize, _ = strconv.Atoi(k[:j])
			p.keyPlain = strings.HasPrefix(k[j+1:], "v")
		}
		return "S(" + size + "," + k + "," + v + ")"
	case 'I':
		p.lit("I(")
		size := p.until(",")
		p.lit(",")
		in := p.elements(false)
		p.lit(")")
		return "I(" + size + "," + in + ")"
	case 'X':
		r := p.until(")")
		p.lit(")")
		return r + ")"
	}
	p.bad = true
	return ""
}

// dumpHoisted: the bytes the compact form saves in place for this slab, computed from its dump
// (ok = the dump parses)
func dumpHoisted(dump string) (int, bool) {
	p := &dnorm{s: dump, count: -1}
	if normalizeDumpWith(p, dump) == "" {
		return 0, false
	}
	return p.hoisted, true
}

// normalizeDump returns the dump with compact-eligible inlined maps in normal form ("" if the dump
// cannot be parsed).
func normalizeDump(dump string) string {
	return normalizeDumpWith(&dnorm{s: dump, count: -1}, dump)
}

func normalizeDumpWith(p *dnorm, dump string) string {
	var out string
	switch {
	case strings.HasPrefix(dump, "D("):
		out = p.sized0()
	case strings.HasPrefix(dump, "d("):
		hd := p.until(")")
		p.lit(")")
		ty := ""
		if strings.HasPrefix(p.s[p.i:], "T(") {
			ty = p.until(")") + ")"
			p.lit(")")
		}
		out = hd + ")" + ty + p.elements(false)
	case strings.HasPrefix(dump, "V("):
		p.lit("V(")
		id := p.until(",")
		p.lit(",")
		out = "V(" + id + "," + p.sized() + ")"
		p.lit(")")
	default:
		return dump
	}
	if p.bad || p.i != len(p.s) {
		return ""
	}
	return out
}

// sized0: a top-level array data slab (same syntax as an inlined one, without the size prefix)
func (p *dnorm) sized0() string {
	hd := p.until(")")
	p.lit(")")
	ty := ""
	if strings.HasPrefix(p.s[p.i:], "T(") {
		ty = p.until(")") + ")"
		p.lit(")")
	}
	p.lit("[")
	var es []string
	for !p.bad && p.peek() != ']' {
		es = append(es, p.sized())
		if p.peek() == ',' {
			p.i++
		}
	}
	p.lit("]")
	return hd + ")" + ty + "[" + strings.Join(es, ",") + "]"
}

// ---------------------------------------------------------------------------------------------
// version-0 forms of map registers (newMapDataSlabFromDataV0 / newMapMetaDataSlabFromDataV0)

func toV0Map(reg []byte) (out []byte, ok bool) {
	if len(reg) < 2 || reg[0]>>4 != 1 || reg[0]&0x01 != 0 {
		return nil, false
	}
	b1 := reg[1]
	if (b1&0x18)>>3 != 1 {
		return nil, false
	}
	root := b1&0x80 != 0
	rest := reg[2:]
	out = append(out, 0x00, b1)
	if root {
		n, err := extraDataLen(reg)
		if err != nil {
			return nil, false
		}
		out = append(out, rest[:n]...)
		out = append(out, 0x00, b1)
		rest = rest[n:]
	}
	switch b1 & 0x07 {
	case 0, 3: // data slab / collision group slab: [next slab ID if non-root] + elements
		var next [16]byte
		if reg[0]&0x02 != 0 {
			if len(rest) < 16 {
				return nil, false
			}
			copy(next[:], rest[:16])
			rest = rest[16:]
		}
		if !root {
			out = append(out, next[:]...)
		}
		out = append(out, rest...)
		return out, true
	case 1: // meta slab: child count (2) + n * [slab id (16), first key (8), size (4)]
		if len(rest) < 10 {
			return nil, false
		}
		addr := rest[:8]
		n := int(binary.BigEndian.Uint16(rest[8:10]))
		rest = rest[10:]
		if len(rest) != 18*n {
			return nil, false
		}
		out = append(out, byte(n>>8), byte(n))
		for i := 0; i < n; i++ {
			h := rest[18*i : 18*i+18]
			out = append(out, addr...)
			out = append(out, h[:8]...)   // index
			out = append(out, h[8:16]...) // first key
			out = append(out, 0, 0, h[16], h[17])
		}
		return out, true
	}
	return nil, false
}

// ---------------------------------------------------------------------------------------------
// checkpoint shared by the programs below

type regSet map[atree.SlabID][]byte

func (e *codecEnv) checkpointStorage(rng *rand.Rand, ps *atree.PersistentSlabStorage, emit bool) {
	deltas := atree.VerifDeltas(ps)
	ids := make([]atree.SlabID, 0, len(deltas))
	for id, s := range deltas {
		if s != nil {
			ids = append(ids, id)
		}
	}
	hx.SortIDs(ids)
	for _, id := range ids {
		if emit {
			e.emitSlab(deltas[id])
		} else {
			e.oracleSlab(deltas[id])
		}
	}
	if e.encPanic {
		// EncodeSlab panicked on a slab of this write set (reported above): the commit would run the same
		// encoder in a worker goroutine and take the process down with the report
		e.encPanic = false
		return
	}
	if err := ps.FastCommit(1 + rng.Intn(3)); err != nil {
		e.violation("C03", "fault-free commit failed: "+err.Error())
	}
}

// emitRegisters writes the DEC / HDR lines of every register of the ledger (and of its version-0
// form where one exists) and returns the registers.
func (e *codecEnv) emitRegisters(ledger *hx.Ledger, emit bool) regSet {
	regs := regSet{}
	for _, id := range ledger.SortedIDs() {
		reg := ledger.Seg[id]
		regs[id] = reg
		if !emit {
			continue
		}
		e.emitDEC(id, reg)
		e.emitHDR(reg)
		v0, ok := toV0(reg)
		if !ok {
			v0, ok = toV0Map(reg)
		}
		if ok {
			o := e.emitDEC(id, v0)
			e.emitHDR(v0)
			e.st.Hit("v0:" + o.class)
			if (reg[1]&0x18)>>3 == 1 {
				e.st.Hit("v0map:" + o.class)
			}
			o1 := guardedDecode(id, reg)
			if o.class != "ok" || o1.class != "ok" || o.dump != o1.dump || o.size != o1.size {
				e.violation("C07", fmt.Sprintf("version-0 form of register %s decodes to %s %s size=%d, version-1 form to %s %s size=%d",
					hx.IDStr(id), o.class, o.dump, o.size, o1.class, o1.dump, o1.size))
			}
		}
	}
	return regs
}

// ---------------------------------------------------------------------------------------------
// map programs: real / adversarial digests, inline and external collision groups, last-level lists

func (e *codecEnv) runMapCodecProgram(rng *rand.Rand, T uint32, mode int, nOps int, emit bool) regSet {
	atree.VerifSetThreshold(T)
	_, _, _, _, maxElem, maxKey := atree.VerifThresholds()
	ledger := hx.NewLedger()
	ps := hx.NewStorage(ledger)
	addr := hx.MkAddr(uint64(1 + rng.Intn(1<<16)))
	if rng.Intn(4) == 0 {
		addr = hx.MkAddr(rng.Uint64() | 1)
	}
	var ty atree.TypeInfo = hx.TI(codecTypeInfos[rng.Intn(len(codecTypeInfos))])
	if rng.Intn(5) == 0 {
		ty = hx.CTI(codecTypeInfos[rng.Intn(len(codecTypeInfos))])
	}
	salt := uint64(rng.Int63())
	hip := atree.HashInputProvider(hx.HashInput)
	var b atree.DigesterBuilder
	L := uint(4)
	climit := uint32(255)
	switch mode {
	case 0:
		b = atree.NewDefaultDigesterBuilder()
	case 6:
		b = atree.NewDefaultDigesterBuilder()
		hip = hx.HashInputBucket
	default:
		alph := []uint64{1 << 62, 1 << 62, 1 << 62, 1 << 62}
		switch mode {
		case 1:
			alph = []uint64{3 + uint64(rng.Intn(6)), 1 << 62, 1 << 62, 1 << 62}
		case 2:
			alph = []uint64{4, 2, 3, 1 << 62}
		case 3:
			alph = []uint64{3, 2, 2, 2}
		case 5:
			L = uint(1 + rng.Intn(3))
			alph = []uint64{5, 3, 2, 2}
		case 7:
			alph = []uint64{150, 1 << 62, 1 << 62, 1 << 62}
		case 8: // huge digests: every byte of the 8-byte digest fields in use
			alph = []uint64{1<<64 - 1, 1<<64 - 1, 1<<64 - 1, 1<<64 - 1}
		}
		big := mode == 8
		b = &hx.TableDigesterBuilder{L: L, Fn: func(k hx.TV, l uint) uint64 {
			if big {
				return mix(k.Pay, uint64(l), salt) | 1<<63
			}
			return mix(k.Pay, uint64(l), salt) % alph[l] * 1000003
		}}
	}
	atree.VerifSetMaxCollisionLimitPerDigest(climit)
	defer atree.VerifSetMaxCollisionLimitPerDigest(255)
	if emit {
		e.w.L("CFG T=%d map mode=%d", T, mode)
	}
	m, err := atree.NewMap(ps, addr, b, ty)
	if err != nil {
		e.st.HarnessErr = "NewMap: " + err.Error()
		return nil
	}
	// one program in three has oversized keys (stored as references) and then mostly small values,
	// so that some data slabs hold references ONLY through their keys (has-pointers flag, C07)
	oversizedKeys := rng.Intn(3) == 0
	nKeys := 20 + rng.Intn(200)
	if mode == 7 {
		nKeys = 150 + rng.Intn(100)
	}
	if nOps >= 700 {
		nKeys = 500 + rng.Intn(200) // deep enough for non-root index slabs
	}
	var keys []hx.TV
	for i := 0; i < nKeys; i++ {
		size := uint32(1 + rng.Intn(16))
		switch rng.Intn(12) {
		case 0:
			size = maxKey - uint32(rng.Intn(3))
		case 1:
			size = uint32(24 + rng.Intn(4)) // around the one-byte / two-byte head boundary and the first gap
		case 2:
			if oversizedKeys {
				size = maxKey + 1 + uint32(rng.Intn(30)) // too large to inline: the KEY becomes a slab reference
			}
		}
		pay := uint64(i + 1)
		if rng.Intn(8) == 0 {
			pay = rng.Uint64()
		}
		for !hx.ValidTV(size, pay) {
			pay >>= 8
			if pay == 0 {
				pay = uint64(i%200 + 1)
				size++
			}
		}
		keys = append(keys, hx.TV{Size: size, Pay: pay})
	}
	present := map[hx.TV]bool{}
	var pay uint64
	value := func() hx.TV {
		var size uint32
		r := rng.Intn(100)
		if oversizedKeys && r >= 35 && rng.Intn(4) != 0 {
			r = rng.Intn(35) // mostly small values
		}
		switch {
		case r < 35:
			size = uint32(1 + rng.Intn(12))
		case r < 50:
			size = uint32(22 + rng.Intn(7))
		case r < 65:
			size = maxElem/2 - 4 + uint32(rng.Intn(8))
		case r < 80:
			size = uint32(10 + rng.Intn(int(maxElem)))
		case r < 90:
			size = maxElem - 30 + uint32(rng.Intn(40))
		case r < 96 && mode == 7:
			size = maxElem/2 + uint32(rng.Intn(6))
		default:
			size = T + uint32(rng.Intn(2000)) // externalised: a large-value slab and a reference
		}
		if size < 1 {
			size = 1
		}
		pay++
		p := pay
		if rng.Intn(8) == 0 {
			p = rng.Uint64()
		}
		for !hx.ValidTV(size, p) {
			p >>= 8
		}
		return hx.TV{Size: size, Pay: p}
	}
	checkpoint := func() {
		e.checkpointStorage(rng, ps, emit)
		ps.DropCache()
	}
	shrinkFrom := nOps * 3 / 4
	for e.step = 0; e.step < nOps; e.step++ {
		k := keys[rng.Intn(len(keys))]
		r := rng.Intn(100)
		switch {
		case len(present) == 0 || (e.step < shrinkFrom && r < 75) || (e.step >= shrinkFrom && r < 25):
			old, err := m.Set(hx.CompareKey, hip, k, value())
			if err != nil {
				if hx.ErrKind(err) != "CollisionLimit:Fatal" {
					e.violation("C02", "map set failed: "+err.Error())
					return nil
				}
			} else {
				present[k] = true
				if id, ok := old.(atree.SlabIDStorable); ok {
					_ = ps.Remove(atree.SlabID(id))
				}
			}
		default:
			_, v, err := m.Remove(hx.CompareKey, hip, k)
			if err == nil {
				delete(present, k)
				if id, ok := v.(atree.SlabIDStorable); ok {
					_ = ps.Remove(atree.SlabID(id))
				}
			}
		}
		if rng.Intn(40) == 0 {
			nt := hx.TI(codecTypeInfos[rng.Intn(len(codecTypeInfos))])
			if err := m.SetType(nt); err != nil {
				e.violation("C02", "SetType failed: "+err.Error())
			}
		}
		if e.step%41 == 40 || e.step == nOps-1 || e.step == 0 || e.step == 3 || e.step == 9 {
			checkpoint()
		}
	}
	return e.emitRegisters(ledger, emit)
}

// ---------------------------------------------------------------------------------------------
// inlined children: a parent (array or map) whose elements are arrays, maps and wrapped values,
// built from a small set of type infos (so that array extra data is deduplicated and type infos
// occur more than once), nested a few levels deep, then mutated through the children's handles

type inlNode struct {
	arr   *atree.Array
	mp    *atree.OrderedMap
	nKeys int
	named bool // composite map whose keys are field names (hx.NK, codecnamed.go)
}

func (n *inlNode) value() atree.Value {
	if n.arr != nil {
		return n.arr
	}
	return n.mp
}

type inlEnv struct {
	e     *codecEnv
	rng   *rand.Rand
	ps    *atree.PersistentSlabStorage
	addr  atree.Address
	T     uint32
	pay   uint64
	tys   []uint64
	newB  func() atree.DigesterBuilder // every map needs its own (seeded) builder
	nodes []*inlNode
	named bool // composite maps are keyed by field names (hx.NK)
}

func (x *inlEnv) plain() hx.TV {
	var size uint32
	switch r := x.rng.Intn(10); {
	case r < 5:
		size = uint32(1 + x.rng.Intn(10))
	case r < 7:
		size = uint32(22 + x.rng.Intn(7))
	case r < 9:
		size = uint32(10 + x.rng.Intn(40))
	default:
		size = x.T/2 + uint32(x.rng.Intn(300)) // externalised
	}
	x.pay++
	p := x.pay
	for !hx.ValidTV(size, p) {
		p >>= 8
	}
	return hx.TV{Size: size, Pay: p}
}

func wrapN(v atree.Value, n int) atree.Value {
	for i := 0; i < n; i++ {
		v = hx.SomeValue{V: v}
	}
	return v
}

// build makes a container of the given depth budget and returns it (standalone, not yet attached).
func (x *inlEnv) build(depth int, compactOnly bool) *inlNode {
	rng := x.rng
	n := &inlNode{}
	tyN := x.tys[rng.Intn(len(x.tys))]
	kind := rng.Intn(3)
	if compactOnly {
		kind = 2
	}
	var err error
	switch kind {
	case 0: // array
		n.arr, err = atree.NewArray(x.ps, x.addr, hx.TI(tyN))
	case 1: // map of a plain type: inlined as a map (tag 251)
		n.mp, err = atree.NewMap(x.ps, x.addr, x.newB(), hx.TI(tyN))
	default: // map of a composite type: compact (tag 252) when it is inlined
		n.mp, err = atree.NewMap(x.ps, x.addr, x.newB(), hx.CTI(tyN%3))
	}
	if err != nil {
		x.e.st.HarnessErr = "new container: " + err.Error()
		return nil
	}
	cnt := rng.Intn(5)
	if kind == 2 {
		cnt = 1 + rng.Intn(4)
	}
	var names []string
	if kind == 2 && x.named {
		n.named = true
		names = x.nkSubset(cnt)
		x.e.st.Hit("inline:named-compact")
	}
	for i := 0; i < cnt; i++ {
		var v atree.Value = x.plain()
		if depth > 0 && rng.Intn(3) == 0 {
			c := x.build(depth-1, false)
			if c == nil {
				return nil
			}
			v = c.value()
		}
		if rng.Intn(5) == 0 {
			v = wrapN(v, 1+rng.Intn(2))
		}
		if n.arr != nil {
			err = n.arr.Append(v)
		} else {
			n.nKeys++
			var k atree.Value = hx.TV{Size: 9, Pay: uint64(i + 1)}
			if kind == 2 && rng.Intn(4) == 0 {
				k = hx.TV{Size: uint32(2 + rng.Intn(12)), Pay: uint64(50 + rng.Intn(5))}
			}
			if n.named {
				k = hx.NK{Name: names[i]}
			}
			_, err = n.mp.Set(hx.CompareKey, hx.HashInput, k, v)
		}
		if err != nil {
			x.e.violation("C10", "building a nested value failed: "+err.Error())
			return nil
		}
	}
	x.nodes = append(x.nodes, n)
	return n
}

func (e *codecEnv) runInlineProgram(rng *rand.Rand, T uint32, nOps int, compact bool, emit bool) regSet {
	atree.VerifSetThreshold(T)
	ledger := hx.NewLedger()
	ps := hx.NewStorage(ledger)
	x := &inlEnv{e: e, rng: rng, ps: ps, T: T, addr: hx.MkAddr(uint64(1 + rng.Intn(1<<16))), newB: atree.NewDefaultDigesterBuilder, named: e.named}
	if rng.Intn(4) == 0 {
		x.addr = hx.MkAddr(rng.Uint64() | 1)
	}
	if rng.Intn(3) == 0 {
		// colliding digests: inlined maps with inline collision groups
		salt := uint64(rng.Int63())
		x.newB = func() atree.DigesterBuilder {
			return &hx.TableDigesterBuilder{L: 4, Fn: func(k hx.TV, l uint) uint64 {
				return mix(k.Pay, uint64(l), salt) % []uint64{3, 2, 1 << 62, 1 << 62}[l] * 1000003
			}}
		}
	}
	x.tys = []uint64{1, 2}
	switch rng.Intn(4) {
	case 0:
		x.tys = []uint64{7}
	case 1:
		x.tys = []uint64{1, 2, 3, 24, 256, 1 << 33}
	}
	if emit {
		e.w.L("CFG T=%d inline compact=%v named=%v", T, compact, x.named)
	}
	var parent *inlNode
	rootIsMap := rng.Intn(3) == 0
	parent = &inlNode{}
	var err error
	if rootIsMap {
		parent.mp, err = atree.NewMap(ps, x.addr, x.newB(), hx.TI(40))
	} else {
		parent.arr, err = atree.NewArray(ps, x.addr, hx.TI(40))
	}
	if err != nil {
		e.st.HarnessErr = "new parent: " + err.Error()
		return nil
	}
	nextKey := uint64(1000)
	attach := func(v atree.Value) {
		var err error
		if parent.arr != nil {
			err = parent.arr.Insert(uint64(rng.Intn(int(parent.arr.Count())+1)), v)
		} else {
			nextKey++
			_, err = parent.mp.Set(hx.CompareKey, hx.HashInput, hx.TV{Size: 9, Pay: nextKey}, v)
		}
		if err != nil {
			e.violation("C10", "attaching a nested value failed: "+err.Error())
		}
	}
	checkpoint := func() { e.checkpointStorage(rng, ps, emit) }
	for e.step = 0; e.step < nOps; e.step++ {
		r := rng.Intn(100)
		switch {
		case r < 35 || len(x.nodes) == 0:
			c := x.build(rng.Intn(3), compact && rng.Intn(4) != 0)
			if c == nil {
				return nil
			}
			attach(wrapN(c.value(), []int{0, 0, 0, 1, 2}[rng.Intn(5)]))
		case r < 45:
			attach(wrapN(x.plain(), rng.Intn(3)))
		default:
			// mutate some container through its handle (the parent is notified and re-stored)
			n := x.nodes[rng.Intn(len(x.nodes))]
			if n.arr != nil {
				cnt := n.arr.Count()
				switch {
				case cnt == 0 || rng.Intn(3) != 0:
					err = n.arr.Append(x.plain())
				case rng.Intn(2) == 0:
					_, err = n.arr.Set(uint64(rng.Intn(int(cnt))), x.plain())
				default:
					_, err = n.arr.Remove(uint64(rng.Intn(int(cnt))))
				}
			} else {
				var k atree.Value = hx.TV{Size: 9, Pay: uint64(1 + rng.Intn(n.nKeys+1))}
				if n.named {
					// (add, overwrite or remove a field: the map's compact type changes with its field set)
					k = hx.NK{Name: nkNames[rng.Intn(len(nkNames))]}
				}
				if rng.Intn(4) == 0 {
					_, _, err = n.mp.Remove(hx.CompareKey, hx.HashInput, k)
					if err != nil && hx.ErrKind(err) == "KeyNotFound:User" {
						err = nil
					}
				} else {
					_, err = n.mp.Set(hx.CompareKey, hx.HashInput, k, x.plain())
				}
			}
			if err != nil {
				// a detached or overwritten child may legitimately refuse; nothing to compare here
				err = nil
			}
		}
		if e.step%9 == 8 || e.step == nOps-1 || e.step < 3 {
			checkpoint()
		}
	}
	return e.emitRegisters(ledger, emit)
}

// runNestedHarvest runs the operations of one program of the `nested` stream (nested.go: the loop
// of runNestedProgram without its final deep removal) with a throw-away trace and harvests its
// slabs: the write set every few operations, then the registers after a commit.
func (e *codecEnv) runNestedHarvest(rng *rand.Rand, T uint32, nOps int, emit bool) regSet {
	scratch := hx.NewStats("nested-harvest", e.cfg.Seed)
	w := hx.NewW(os.DevNull)
	defer w.Close()
	ne := &nestEnv{w: w, st: scratch, cfg: e.cfg, rng: rng, T: T, prog: e.prog}
	if emit {
		e.w.L("CFG T=%d nested-harvest ops=%d", T, nOps)
	}
	atree.VerifSetThreshold(T)
	ne.ledger = hx.NewLedger()
	ne.ps = hx.NewStorage(ne.ledger)
	ne.rec = hx.NewRecStorage(ne.ps)
	ne.addr = hx.MkAddr(uint64(1 + rng.Intn(3)))
	rootKind := byte('a')
	if rng.Intn(3) == 0 {
		rootKind = 'm'
	}
	ne.root = ne.newNode(rootKind)
	if ne.root == nil {
		return nil
	}
	harvest := func() {
		deltas := atree.VerifDeltas(ne.ps)
		ids := make([]atree.SlabID, 0, len(deltas))
		for id, s := range deltas {
			if s != nil {
				ids = append(ids, id)
			}
		}
		hx.SortIDs(ids)
		for _, id := range ids {
			if emit {
				e.emitSlab(deltas[id])
			} else {
				e.oracleSlab(deltas[id])
			}
		}
	}
	for ne.step = 0; ne.step < nOps && scratch.HarnessErr == "" && len(scratch.Violations) == 0; ne.step++ {
		e.step = ne.step
		r := rng.Intn(100)
		switch {
		case r < 14:
			ne.opNewChild()
		case r < 50:
			ne.opMutate(false)
		case r < 60:
			ne.opMutate(true)
		case r < 70:
			ne.opRestructureParent()
		case r < 78:
			ne.opDetach()
		case r < 84:
			ne.opReattach()
		case r < 88:
			harvest()
			ne.opCommitReload()
		default:
			ne.opReadBack()
		}
		if ne.step%25 == 24 {
			harvest()
		}
	}
	if ne.ps == nil || scratch.HarnessErr != "" {
		return nil
	}
	e.checkpointStorage(rng, ne.ps, emit)
	return e.emitRegisters(ne.ledger, emit)
}

// ---------------------------------------------------------------------------------------------
// cbor.Unmarshal(data, &uint64) against the model's `unmarshalUint64`

func guardedUnmarshalU64(data []byte) (class string, n uint64, detail string) {
	defer func() {
		if r := recover(); r != nil {
			class, detail = "PANIC", fmt.Sprint(r)
		}
	}()
	var index uint64
	if err := cbor.Unmarshal(data, &index); err != nil {
		return "err", 0, err.Error()
	}
	return "ok", index, ""
}

func (e *codecEnv) emitUMI(data []byte) {
	class, n, detail := guardedUnmarshalU64(data)
	if class == "PANIC" {
		e.violation("C19", fmt.Sprintf("cbor library: Unmarshal into uint64 panicked (%s) on data=%s", detail, hex.EncodeToString(data)))
	}
	e.w.L("UMI %s", hex.EncodeToString(data))
	switch class {
	case "ok":
		e.w.L("OBS ok:%d", n)
	case "err":
		e.w.L("OBS err")
	default:
		e.w.L("OBS PANIC")
	}
	e.st.Hit("umi:" + class)
}

// genUMI: what can follow the two bytes `d8 f6` of a type-info reference
func genUMI(rng *rand.Rand) []byte {
	uintItem := func() []byte {
		switch rng.Intn(5) {
		case 0:
			return []byte{byte(rng.Intn(24))}
		case 1:
			return []byte{0x18, byte(rng.Intn(256))}
		case 2:
			return []byte{0x19, byte(rng.Intn(256)), byte(rng.Intn(256))}
		case 3:
			return []byte{0x1a, 0, byte(rng.Intn(256)), 0, byte(rng.Intn(256))}
		}
		b := make([]byte, 9)
		b[0] = 0x1b
		binary.BigEndian.PutUint64(b[1:], rng.Uint64())
		return b
	}
	switch rng.Intn(14) {
	case 0, 1, 2:
		return uintItem()
	case 3: // simple values, booleans, null, undefined
		return []byte{0xe0 | byte(rng.Intn(24))}
	case 4:
		return []byte{0xf8, byte(32 + rng.Intn(224))}
	case 5: // floats
		return [][]byte{{0xf9, 0x3c, 0}, {0xfa, 0x3f, 0x80, 0, 0}, {0xfb, 0x3f, 0xf0, 0, 0, 0, 0, 0, 0}}[rng.Intn(3)]
	case 6: // bignum
		n := rng.Intn(11)
		out := []byte{0xc2 + byte(rng.Intn(2)), 0x40 | byte(n)}
		for i := 0; i < n; i++ {
			out = append(out, byte(rng.Intn(256)))
		}
		if rng.Intn(4) == 0 { // indefinite-length byte string
			out = []byte{0xc2, 0x5f, 0x42, byte(rng.Intn(256)), byte(rng.Intn(256)), 0x41, byte(rng.Intn(256)), 0xff}
		}
		return out
	case 7: // other tags around an item
		tags := [][]byte{{0xc0}, {0xc1}, {0xc4}, {0xd5}, {0xd6}, {0xd7}, {0xd8, 24}, {0xd8, 246}, {0xd9, 0xd9, 0xf7}, {0xd8, 100}}
		out := append([]byte(nil), tags[rng.Intn(len(tags))]...)
		if rng.Intn(3) == 0 {
			out = append(out, tags[rng.Intn(len(tags))]...)
		}
		return append(out, genUMI(rng)...)
	case 8:
		return []byte{0x20 | byte(rng.Intn(24))}
	case 9:
		return [][]byte{{0x41, 5}, {0x61, 'a'}, {0x80}, {0x81, 1}, {0xa0}, {0xa1, 1, 2}}[rng.Intn(6)]
	case 10: // tag 1 (epoch) and tag 0 (text) contents
		return [][]byte{{0xc1, 5}, {0xc1, 0xf9, 0x3c, 0}, {0xc1, 0x41, 0}, {0xc0, 0x61, 'a'}, {0xc0, 5}, {0xc1, 0xc1, 5}}[rng.Intn(6)]
	case 11: // extraneous data / truncated
		out := uintItem()
		if rng.Intn(2) == 0 {
			return append(out, uintItem()...)
		}
		return out[:len(out)-1]
	default:
		return genCBOR(rng, 4, nil)
	}
}

// ---------------------------------------------------------------------------------------------
// re-encoding of slabs decoded from mutated registers

var reInlinedCompositeMap = regexp.MustCompile(`,1,0,0\)T\(c\d+,(\d+),\d+\)H\(\d+,\d+\)\{([^}]*)\}`)

// compactCountMismatch: the dump contains an inlined map of a composite type whose extra-data
// count differs from its number of elements (MapDataSlab.canBeEncodedAsCompactMap sizes its key
// and value slices by that count); `huge` = the count is so large that calling EncodeSlab would
// try to allocate gigabytes.
var reCompositeCount = regexp.MustCompile(`T\(c\d+,(\d+),`)

func compactCountMismatch(dump string) (mismatch, huge bool) {
	// any composite-typed map with an enormous extra-data count: never hand it to EncodeSlab, whatever
	// its elements look like (a changed encoder may size a slice by the count on a path the current
	// one leaves early; the process would be killed for its memory use, taking the report with it)
	for _, m := range reCompositeCount.FindAllStringSubmatch(dump, -1) {
		if c, err := strconv.ParseUint(m[1], 10, 64); err != nil || c > 1<<22 {
			huge = true
		}
	}
	for _, m := range reInlinedCompositeMap.FindAllStringSubmatch(dump, -1) {
		n := 0
		if m[2] != "" {
			n = strings.Count(m[2], ",") + 1
		}
		c, err := strconv.ParseUint(m[1], 10, 64)
		if err != nil || c != uint64(n) {
			mismatch = true
			if err != nil || c > 1<<22 {
				huge = true
			}
		}
	}
	return
}

// reencodeAccepted: EncodeSlab on a slab DecodeSlab accepted must not panic.
func (e *codecEnv) reencodeAccepted(id atree.SlabID, data []byte, o decOutcome) {
	mismatch, huge := compactCountMismatch(o.dump)
	if huge {
		// OBSERVATION O1 (DESIGN.md 13.4, INTEGRATION-codec2.md): not called — make([]ComparableStorable, Count)
		// with a count taken from the register would exhaust memory
		e.st.Hit("observation:re-encode-of-accepted-mutant-huge-count-not-called")
		e.noteFinding("EncodeSlab NOT CALLED (would allocate by an attacker-chosen count) on the slab DecodeSlab accepted", id, data)
		return
	}
	_, _, pan := guardedEncode(o.slab)
	if pan == "" {
		return
	}
	if mismatch {
		e.st.Hit("observation:re-encode-of-accepted-mutant-panics")
		e.noteFinding("EncodeSlab panicked ("+pan+") on the slab DecodeSlab accepted", id, data)
		return
	}
	e.violation("C19", fmt.Sprintf("EncodeSlab panicked (%s) on the slab decoded from %s", pan, hex.EncodeToString(data)))
}

// noteObservation keeps the first instance of an observation among the samples.
func (e *codecEnv) noteObservation(tag, what string) {
	for _, s := range e.st.Samples {
		if strings.HasPrefix(s, "OBSERVATION "+tag+":") {
			return
		}
	}
	e.st.Samples = append(e.st.Samples, "OBSERVATION "+tag+": "+what)
}

// noteFinding keeps the first reproducer of an observation among the samples (re-encoding an accepted
// mutant is not part of C19: an observation, never a violation).
func (e *codecEnv) noteFinding(what string, id atree.SlabID, data []byte) {
	for _, s := range e.st.Samples {
		if strings.HasPrefix(s, "OBSERVATION "+what[:20]) {
			return
		}
	}
	e.st.Samples = append(e.st.Samples, fmt.Sprintf("OBSERVATION %s: DecodeSlab(id=%s, data=%s)", what, hx.IDStr(id), hex.EncodeToString(data)))
}
