package main

import (
	"fmt"

	"github.com/onflow/atree"

	"verifharness/hx"
)

// C09 oracle of the single-container streams (audit a1 / F2, Go half).  The streams array / persist / arrmeta and
// map / mapcollide / mpersist / mapmeta / mapspill own ONE container and dispose of every value the library hands
// back (DSP lines): at every periodic check the storage must therefore hold exactly the slabs reachable from that
// one root - the tree slabs and the large-value slabs of the CURRENT elements - and nothing else.
// CheckStorageHealth(storage, 1) decides that on the implementation (every slab reachable from a root, every
// non-root slab referenced exactly once, one owner address, exactly one root); (e *arrEnv) health is in arrdirected.go.
func (e *mapEnv) health() {
	// a storage the reference checker cannot even walk (it panics on a slab object left behind in an invalid state) is not healthy
	defer func() {
		if r := recover(); r != nil {
			e.violation("C09", fmt.Sprintf("CheckStorageHealth (one root expected) panicked: %v", r))
		}
	}()
	roots, err := atree.CheckStorageHealth(e.ps, 1)
	if err != nil {
		e.violation("C09", "CheckStorageHealth (one root expected): "+err.Error())
		return
	}
	if _, ok := roots[e.m.SlabID()]; !ok || len(roots) != 1 {
		e.violation("C09", fmt.Sprintf("CheckStorageHealth found roots %v, the map is %s", roots, hx.IDStr(e.m.SlabID())))
		return
	}
	e.st.Hit("health:ok")
}
