package main

// Model-free oracle of the `settings` stream (C05, also C01): the numbers C05 states about the size band
// and the per-element inline limits, recomputed BY THE HARNESS for every legal slab size.
//
// VerifyArray / VerifyMap read the same package variables setThreshold writes, so a wrong setThreshold
// (minimum = a quarter, maximum = twice the slab size, a wrong prefix in the inline limit ...) is
// invisible to them: every tree is "valid" with respect to the wrong numbers.  Here nothing is read
// back from the code under test except the values being judged:
//
//   - T is the argument;
//   - the prefix / head sizes come from VerifConsts() (the settings trace cross-checks every one of them
//     against the constants regenerated from the sources, and C06 ties them to the bytes written);
//   - min = T/2, max = T + T/2 (integer division: uint32(float64(T)*1.5) is exact below 2^52),
//     maxInlineArrayElementSize = (T - arrayDataSlabPrefixSize) / minElementCountInSlab,
//     maxInlineMapElementSize   = (T - mapDataSlabPrefixSize - hkeyElementsPrefixSize) / minElementCountInSlab - digestSize,
//     maxInlineMapKeySize       = (maxInlineMapElementSize - singleElementPrefixSize) / 2,
//     maxInlineMapValueSize(k)  = maxInlineMapElementSize - k - singleElementPrefixSize
//     are computed here and compared with VerifThresholds(), the return values of setThreshold, the
//     exported getters and VerifMaxInlineMapValueSize;
//   - the facts C05 derives from them are tested on the LIBRARY's numbers, without the formulas:
//     "no larger than 1.5x the configured slab size"  2*max <= 3*T < 2*max + 2,
//     "at least half of it"                           2*min <= T < 2*min + 2,
//     "every element ... respects the per-element inline limit (so any full slab holds at least two
//     elements)": a data slab holding ONE element of the maximal inline size is not full
//     (prefix + limit <= max), for arrays and for maps (digest + element), and key + value of the
//     maximal sizes make an element of at most the element limit.
//
// A mismatch is an hx.Violation{Property: "C05", Stream: "settings"}; its failing input is the SET line
// of that slab size (the trace line the violation points at).

import (
	"fmt"

	"github.com/onflow/atree"

	"verifharness/hx"
)

// settingsBoundsRequired: every run must have judged every legal slab size
const settingsBoundsTag = "oracle:independent-bounds"

type settingsBounds struct {
	st    *hx.Stats
	w     *hx.W
	seed  int64
	c     map[string]uint64
	ok    bool // the constants needed are all there
	nViol int
	seen  map[string]bool // kinds of mismatch already reported (each kind once, at the smallest slab size showing it)
}

func newSettingsBounds(st *hx.Stats, w *hx.W, seed int64, consts map[string]uint64) *settingsBounds {
	b := &settingsBounds{st: st, w: w, seed: seed, c: consts, ok: true, seen: map[string]bool{}}
	for _, k := range []string{"minSlabSize", "maxSlabSize", "minElementCountInSlab", "arrayDataSlabPrefixSize", "mapDataSlabPrefixSize",
		"hkeyElementsPrefixSize", "digestSize", "singleElementPrefixSize"} {
		if _, ok := consts[k]; !ok {
			b.ok = false
			if st.HarnessErr == "" {
				st.HarnessErr = "settings bounds oracle: VerifConsts() has no " + k
			}
		}
	}
	if b.ok && consts["minElementCountInSlab"] == 0 {
		b.ok = false
		st.HarnessErr = "settings bounds oracle: minElementCountInSlab is 0"
	}
	return b
}

func (b *settingsBounds) violation(T uint32, kind, what string) {
	b.nViol++
	if b.seen[kind] || len(b.st.Violations) >= 30 {
		return
	}
	b.seen[kind] = true
	b.st.Violations = append(b.st.Violations, hx.Violation{
		Property: "C05", Stream: b.st.Stream, Seed: b.seed, Program: 0, Step: int(T),
		What: fmt.Sprintf("setThreshold(%d): %s", T, what), Trace: b.w.Path, Line: b.w.Lines,
	})
}

// expected: the harness's own arithmetic (int64: a negative intermediate is a harness error, not a wrap-around)
type settingsExpect struct {
	min, max, arr, mapElem, mapKey int64
}

func (b *settingsBounds) expect(T uint32) settingsExpect {
	c := func(k string) int64 { return int64(b.c[k]) }
	t := int64(T)
	var x settingsExpect
	x.min = t / 2
	x.max = t + t/2
	x.arr = (t - c("arrayDataSlabPrefixSize")) / c("minElementCountInSlab")
	x.mapElem = (t-c("mapDataSlabPrefixSize")-c("hkeyElementsPrefixSize"))/c("minElementCountInSlab") - c("digestSize")
	x.mapKey = (x.mapElem - c("singleElementPrefixSize")) / 2
	return x
}

// check judges the state the library is in right after VerifSetThreshold(T) returned (r0..r3); it is
// called after the SET line of T was written, so the violation points at that line.
func (b *settingsBounds) check(T uint32, r0, r1, r2, r3 uint32) {
	if !b.ok {
		return
	}
	b.st.Hit(settingsBoundsTag)
	c := func(k string) int64 { return int64(b.c[k]) }
	x := b.expect(T)
	if x.arr <= 0 || x.mapElem <= 0 || x.mapKey <= 0 {
		if b.st.HarnessErr == "" {
			b.st.HarnessErr = fmt.Sprintf("settings bounds oracle: non-positive expected limit at T=%d: %+v", T, x)
		}
		return
	}
	target, minT, maxT, arr, mapElem, mapKey := atree.VerifThresholds()
	cmp := func(name string, got uint32, want int64) {
		if int64(got) != want {
			b.violation(T, name, fmt.Sprintf("%s is %d, the slab size and the size constants give %d", name, got, want))
		}
	}
	// 1. the formulas
	cmp("targetThreshold", target, int64(T))
	cmp("minThreshold (half the slab size)", minT, x.min)
	cmp("maxThreshold (1.5x the slab size)", maxT, x.max)
	cmp("maxInlineArrayElementSize ((T - arrayDataSlabPrefixSize) / minElementCountInSlab)", arr, x.arr)
	cmp("maxInlineMapElementSize ((T - mapDataSlabPrefixSize - hkeyElementsPrefixSize) / minElementCountInSlab - digestSize)", mapElem, x.mapElem)
	cmp("maxInlineMapKeySize ((maxInlineMapElementSize - singleElementPrefixSize) / 2)", mapKey, x.mapKey)
	// ... the same numbers through the other ways a caller reads them
	cmp("setThreshold's 1st result (minThreshold)", r0, x.min)
	cmp("setThreshold's 2nd result (maxThreshold)", r1, x.max)
	cmp("setThreshold's 3rd result (maxInlineArrayElementSize)", r2, x.arr)
	cmp("setThreshold's 4th result (maxInlineMapKeySize)", r3, x.mapKey)
	cmp("MaxInlineArrayElementSize()", atree.MaxInlineArrayElementSize(), x.arr)
	cmp("MaxInlineMapElementSize()", atree.MaxInlineMapElementSize(), x.mapElem)
	cmp("MaxInlineMapKeySize()", atree.MaxInlineMapKeySize(), x.mapKey)
	for _, k := range []int64{0, 1, 9, x.mapKey / 2, x.mapKey} {
		if got, want := int64(atree.VerifMaxInlineMapValueSize(uint32(k))), x.mapElem-k-c("singleElementPrefixSize"); got != want {
			b.violation(T, "maxInlineMapValueSize", fmt.Sprintf("maxInlineMapValueSize(%d) is %d, maxInlineMapElementSize - keySize - singleElementPrefixSize computed from the slab size and the size constants is %d", k, got, want))
		}
	}

	// 2. what C05 says about these numbers, on the library's values alone
	t := int64(T)
	lmin, lmax, larr, lelem, lkey := int64(minT), int64(maxT), int64(arr), int64(mapElem), int64(mapKey)
	if !(2*lmin <= t && t < 2*lmin+2) {
		b.violation(T, "derived:half", fmt.Sprintf("minThreshold %d is not half the slab size (C05: each non-root slab is at least half of it)", lmin))
	}
	if !(2*lmax <= 3*t && 3*t < 2*lmax+2) {
		b.violation(T, "derived:1.5x", fmt.Sprintf("maxThreshold %d is not 1.5x the slab size (C05: no slab larger than 1.5x the configured slab size)", lmax))
	}
	// a FULL slab (size > 1.5 T, T + T/2 computed here) holds at least two elements: one element of the maximal inline size does not fill it
	if one := c("arrayDataSlabPrefixSize") + larr; one > x.max {
		b.violation(T, "derived:two-array-elements", fmt.Sprintf("an array data slab holding ONE element of the inline limit %d has %d bytes > 1.5x the slab size (%d): a full slab need not hold two elements", larr, one, x.max))
	}
	if one := c("mapDataSlabPrefixSize") + c("hkeyElementsPrefixSize") + c("digestSize") + lelem; one > x.max {
		b.violation(T, "derived:two-map-elements", fmt.Sprintf("a map data slab holding ONE element of the inline limit %d has %d bytes > 1.5x the slab size (%d): a full slab need not hold two elements", lelem, one, x.max))
	}
	// a key and a value of the maximal sizes form an element within the element limit
	if lkey >= 0 && lkey <= 1<<31 {
		v := int64(atree.VerifMaxInlineMapValueSize(uint32(lkey)))
		if e := c("singleElementPrefixSize") + lkey + v; e > lelem || v < lkey {
			b.violation(T, "derived:key+value", fmt.Sprintf("key limit %d + value limit %d + element head %d = %d, element limit %d (value limit must not be below the key limit)",
				lkey, v, c("singleElementPrefixSize"), e, lelem))
		}
	}
}

// finish: the oracle must have judged every legal slab size (otherwise the run is a harness error)
func (b *settingsBounds) finish() {
	if !b.ok {
		return
	}
	want := 32768 - 256 + 1 // the loop of settingsStream: every legal slab size of C05's quantifier
	if b.st.Dist[settingsBoundsTag] != want && b.st.HarnessErr == "" {
		b.st.HarnessErr = fmt.Sprintf("settings bounds oracle judged %d slab sizes, %d are legal", b.st.Dist[settingsBoundsTag], want)
	}
	if b.nViol > 0 {
		b.st.Samples = append(b.st.Samples, fmt.Sprintf("independent bounds oracle: %d mismatches of %d kinds over all slab sizes (each kind reported once, at the smallest slab size)", b.nViol, len(b.seen)))
	}
}
