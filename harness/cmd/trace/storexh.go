package main

import (
	"fmt"
	"path/filepath"
	"strings"

	"github.com/onflow/atree"

	"verifharness/hx"
)

func init() { streams["storageexh"] = storageExhaustiveStream }

// storageExhaustiveStream enumerates EVERY sequence of storage operations up to a fixed length over
// two identifiers (one owned, one temporary), two slab versions and one fault position, runs each
// on the real PersistentSlabStorage and writes the same trace lines as the random storage stream.
// This validates the model (bounded-exhaustive correspondence); the theorems cover the unbounded claim.
func storageExhaustiveStream(cfg *Config) *hx.Stats {
	st := hx.NewStats("storageexh", cfg.Seed)
	w := hx.NewW(filepath.Join(cfg.Out, fmt.Sprintf("storageexh-%d.trace", cfg.Seed)))
	defer w.Close()
	st.TraceFiles = append(st.TraceFiles, w.Path)
	length := 4
	if cfg.Tier == "thorough" {
		length = 5
	}
	ids := []atree.SlabID{hx.MkIDn(0, 1), hx.MkIDn(1, 1)}
	type op struct {
		name string
		run  func(e *storEnv)
	}
	var ops []op
	for _, id := range ids {
		id := id
		for _, ver := range []int{1, 2} {
			ver := ver
			ops = append(ops, op{fmt.Sprintf("store %s %d", hx.IDStr(id), ver), func(e *storEnv) {
				e.w.L("ST store id=%s ver=%d", hx.IDStr(id), ver)
				e.w.L("OBS %s", obsErr(e.ps.Store(id, mkSlab(id, ver))))
			}})
		}
		ops = append(ops, op{"remove " + hx.IDStr(id), func(e *storEnv) {
			e.w.L("ST remove id=%s", hx.IDStr(id))
			e.w.L("OBS %s", obsErr(e.ps.Remove(id)))
		}})
		ops = append(ops, op{"get " + hx.IDStr(id), func(e *storEnv) {
			e.w.L("ST get id=%s", hx.IDStr(id))
			before := e.snap()
			s, found, err := e.ps.Retrieve(id)
			e.w.L("OBS %s", readObs(s, found, err))
			e.cacheEffect("Retrieve", id, before, s, found, err, true, true)
		}})
		ops = append(ops, op{"getloaded " + hx.IDStr(id), func(e *storEnv) {
			e.w.L("ST getloaded id=%s", hx.IDStr(id))
			before := e.snap()
			s := e.ps.RetrieveIfLoaded(id)
			e.w.L("OBS slab:%s", slabVer(s))
			want, ok := before.deltas[id]
			if !ok {
				want = before.cache[id]
			}
			if s != want {
				e.violation("C15", fmt.Sprintf("RetrieveIfLoaded(%s) = version %s, the write set / cache hold version %s", hx.IDStr(id), slabVer(s), slabVer(want)))
			}
			e.noTrace(fmt.Sprintf("RetrieveIfLoaded(%s)", hx.IDStr(id)), before, false)
		}})
		for _, c := range []int{0, 1} {
			c := c
			ops = append(ops, op{fmt.Sprintf("getnodelta %s %d", hx.IDStr(id), c), func(e *storEnv) {
				e.w.L("ST getnodelta id=%s cache=%d", hx.IDStr(id), c)
				before := e.snap()
				s, found, err := e.ps.RetrieveIgnoringDeltas(id, c == 1)
				e.w.L("OBS %s", readObs(s, found, err))
				e.cacheEffect("RetrieveIgnoringDeltas", id, before, s, found, err, false, c == 1)
			}})
		}
	}
	for _, kind := range []string{"det", "nondet"} {
		for _, fault := range []int{-1, 0} {
			kind, fault := kind, fault
			ops = append(ops, op{fmt.Sprintf("commit %s %d", kind, fault), func(e *storEnv) {
				e.ledger.ResetCalls()
				fs := ""
				if fault >= 0 {
					e.ledger.FailAt[fault] = true
					fs = fmt.Sprint(fault)
				}
				var err error
				if kind == "det" {
					err = e.ps.FastCommit(2)
				} else {
					err = e.ps.NondeterministicFastCommit(2)
				}
				var logParts, mo, dlo []string
				for _, c := range e.ledger.Log {
					s := ""
					if c.Kind == 'S' {
						s = fmt.Sprintf("S:%s:%d", hx.IDStr(c.ID), e.regVer(c.Data))
						mo = append(mo, hx.IDStr(c.ID))
					} else {
						s = "R:" + hx.IDStr(c.ID)
						dlo = append(dlo, hx.IDStr(c.ID))
					}
					if !c.OK {
						s += "!"
					}
					logParts = append(logParts, s)
				}
				e.w.L("ST commit kind=%s workers=2 faults=%s mo=%s do=%s", kind, fs, strings.Join(mo, ","), strings.Join(dlo, ","))
				e.w.L("OBS %s", obsErr(err))
				if len(logParts) == 0 {
					e.w.L("LOG -")
				} else {
					e.w.L("LOG %s", strings.Join(logParts, " "))
				}
				e.ledger.ResetCalls()
			}})
		}
	}
	ops = append(ops,
		op{"dropdeltas", func(e *storEnv) { e.w.L("ST dropdeltas"); e.ps.DropDeltas() }},
		op{"dropcache", func(e *storEnv) { e.w.L("ST dropcache"); e.ps.DropCache() }},
		op{"recreate", func(e *storEnv) { e.w.L("ST recreate"); e.ps = hx.NewStorage(e.ledger) }},
		op{"preload", func(e *storEnv) {
			e.w.L("ST preload ids=%s workers=2", strings.Join(idStrs(ids), ","))
			e.w.L("OBS %s", obsErr(e.ps.BatchPreload(ids, 2)))
		}},
	)
	n := len(ops)
	total := 1
	for i := 0; i < length; i++ {
		total *= n
	}
	idx := make([]int, length)
	for seq := 0; seq < total; seq++ {
		x := seq
		for i := 0; i < length; i++ {
			idx[i] = x % n
			x /= n
		}
		e := &storEnv{w: w, st: st, cfg: cfg, prog: seq}
		e.ledger = hx.NewLedger()
		e.ps = hx.NewStorage(e.ledger)
		e.ids = ids
		w.L("ST new ids=%s", strings.Join(idStrs(ids), ","))
		for _, k := range idx {
			ops[k].run(e)
			e.emitView()
		}
		st.Programs++
		st.Ops += length
	}
	st.Distinct = total
	st.Exhaustive = true
	st.TraceLines = w.Lines
	st.Dist["alphabet"] = n
	st.Dist["length"] = length
	st.Samples = append(st.Samples, fmt.Sprintf("all %d^%d = %d sequences over {store x2 ids x2 versions, remove, retrieve, retrieve-if-loaded, cache-bypassing retrieve (cache on/off), both commits with/without a fault at call 0, drop deltas, drop cache, re-create, preload}", n, length, total))
	return st
}
