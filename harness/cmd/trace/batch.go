package main

// Stream "batch" (property C17): bulk build of arrays and maps from element streams, copy of
// single-slab containers, byte slice <-> byte array conversion.
//
// Every scenario runs the REAL NewArrayFromBatchData / NewMapFromBatchData / CanCopyNonRefSimple /
// CopyNonRefSimple / ByteSliceToByteArray / ByteArrayToByteSlice on a fresh recording storage and
// writes the operation, the observation, the net storage effect, the dump of every stored slab
// and the full tree dump to the trace; the Lean driver (mode "batch") replays the same inputs on
// the model and compares every line.  Model-free oracles on the implementation are reported as
// C17 violations.
//
// Trace grammar (in addition to OBS / EFF / SLB / DSP of the array and map streams):
//
//	CFG T=<threshold>                       fresh storage, model state reset
//	SKIP addr=<a> n=<k>                     k slab IDs of address a were allocated by untraced steps
//	OP abatch h=<h> addr=<a> ty=<t> n=<n> vs=<size>:<pay>,…
//	OP mbatch h=<h> addr=<a> ty=<t> L=<levels> climit=<c> seed=<s> n=<n> kvs=<ksz>:<kpay>@d0,d1,…><vsz>:<vpay>;…
//	OP acan|mcan h=<h>                      CanCopyNonRefSimple
//	OP acopy|mcopy h=<src> to=<h2> addr=<a> CopyNonRefSimple(address)
//	OP ainline|minline h=<h>                the container became an inlined element of a parent
//	OP b2a h=<h> addr ty est=<e> sz0=<s> sz1=<s> bs=<b>,…   ByteSliceToByteArray
//	OP a2b h=<h>                            ByteArrayToByteSlice
//	OP app|set|mset …                       follow-up single operations (independence)
//	OP aiter|miter h=<h>                    content read back by iteration
//	FULL h=<h> <tree dump>  /  MFULL h=<h> <tree dump>

import (
	"errors"
	"fmt"
	"math/rand"
	"path/filepath"
	"sort"
	"strings"

	"github.com/fxamacker/cbor/v2"
	"github.com/onflow/atree"

	"verifharness/hx"
)

func init() { streams["batch"] = batchStream }

// ---------------------------------------------------------------------------------------------
// BV: the byte element type required by ByteSliceToByteArray / ByteArrayToByteSlice
// (a ByteStorableValue: underlying type byte, Storable and Value).  Encoded as CBOR tag 162
// around an unsigned integer: 3 bytes below 24, 4 bytes otherwise.

const btTagByte = 162

type BV byte

var _ atree.Value = BV(0)
var _ atree.Storable = BV(0)

func (b BV) ByteSize() uint32 {
	if b < 24 {
		return 3
	}
	return 4
}
func (b BV) Encode(e *atree.Encoder) error {
	if err := e.CBOR.EncodeRawBytes([]byte{0xd8, btTagByte}); err != nil {
		return err
	}
	return e.CBOR.EncodeUint8(uint8(b))
}
func (b BV) StoredValue(atree.SlabStorage) (atree.Value, error) { return b, nil }
func (b BV) ChildStorables() []atree.Storable                   { return nil }
func (b BV) CanCopyNonRefSimple() bool                          { return true }
func (b BV) CopyNonRefSimple() (atree.Storable, error)          { return b, nil }
func (b BV) Storable(atree.SlabStorage, atree.Address, uint32) (atree.Storable, error) {
	return b, nil
}

func btDecodeStorable(d *cbor.StreamDecoder, id atree.SlabID, inl []atree.ExtraData) (atree.Storable, error) {
	t, err := d.NextType()
	if err != nil {
		return nil, err
	}
	if t == cbor.TagType {
		// peek the tag: tag 162 is ours, everything else belongs to the harness decoder
		raw, err := d.DecodeRawBytes()
		if err != nil {
			return nil, err
		}
		if len(raw) >= 3 && raw[0] == 0xd8 && raw[1] == btTagByte {
			var v uint8
			if err := cbor.Unmarshal(raw[2:], &v); err != nil {
				return nil, err
			}
			return BV(v), nil
		}
		return hx.DecodeStorable(hx.DecMode().NewByteStreamDecoder(raw), id, inl)
	}
	return hx.DecodeStorable(d, id, inl)
}

var btDescribe = &atree.VerifDescribe{
	Storable: func(s atree.Storable) string {
		switch x := s.(type) {
		case hx.TV:
			return fmt.Sprintf("v%d", x.Pay)
		case BV:
			return fmt.Sprintf("v%d", uint8(x))
		}
		return fmt.Sprintf("?%T", s)
	},
	TypeInfo: func(t atree.TypeInfo) string { return fmt.Sprintf("%v", t) },
}

// btErrKind extends hx.ErrKind with the error kinds of the bulk operations.
func btErrKind(err error) string {
	if err == nil {
		return "ok"
	}
	var kind string
	switch {
	case btAs[*atree.HashError](err):
		kind = "Hash"
	case btAs[*atree.HashSeedUninitializedError](err):
		kind = "HashSeedUninitialized"
	case btAs[*atree.DuplicateKeyError](err):
		kind = "DuplicateKey"
	case btAs[*atree.CopyError](err):
		kind = "Copy"
	case btAs[*atree.UnexpectedElementTypeError](err):
		kind = "UnexpectedElementType"
	default:
		return hx.ErrKind(err)
	}
	return kind + ":" + hx.ErrCategory(err)
}

func btAs[T error](err error) bool {
	var t T
	return errors.As(err, &t)
}

// ---------------------------------------------------------------------------------------------

type btEnv struct {
	w       *hx.W
	st      *hx.Stats
	cfg     *Config
	rng     *rand.Rand
	T       uint32
	maxInl  uint32 // maxInlineArrayElementSize
	maxElem uint32 // maxInlineMapElementSize
	maxKey  uint32
	maxThr  uint32
	ledger  *hx.Ledger
	ps      *atree.PersistentSlabStorage
	rec     *hx.RecStorage
	nextPay uint64
	keyPay  uint64
	nextH   int
	prog    int
	step    int
	roots   int // number of live root containers in the current storage
	ops     int
	climit  uint32         // maxCollisionLimitPerDigest in force (255 unless a scenario lowers it)
	alloc   []atree.SlabID // identifiers the last traced bulk build of a map allocated (batch_fx13c.go)
	sigs    map[string]int // violations with a stable signature already recorded, per signature
}

// finding records a violation with a STABLE signature (see known_findings.txt).  The record is
// filed under the property whose text is violated (C18, C09) AND under C17, the only check that
// runs this stream, so that `./check C17` shows it.  At most three occurrences per run are
// recorded in full (they all have the same cause); every occurrence is counted.
func (e *btEnv) finding(sig string, props []string, what string) {
	e.st.Hit("finding:" + sig)
	if e.sigs == nil {
		e.sigs = map[string]int{}
	}
	if e.sigs[sig] >= 3 {
		return
	}
	e.sigs[sig]++
	for _, p := range props {
		e.st.Violations = append(e.st.Violations, hx.Violation{
			Property: p, Stream: e.st.Stream, Seed: e.cfg.Seed, Program: e.prog, Step: e.step, What: what, Trace: e.w.Path, Line: e.w.Lines, Sig: sig,
		})
	}
}

const btSigRejectedLeak = "batch-build:rejected-build-leaves-slabs"

// rejectedBuildCheck is the oracle for a bulk build that returned an error (call it before the
// effects are emitted): C09 "nothing else remains" (filed under C09, which runs this stream too).
// The slabs the rejected request stored are still in the write set, no container refers to them
// and the caller received nothing it could dispose of.  (C18's "leaves ... the pending write set
// exactly as it was" is arguable only: a malformed element stream is not among the argument
// errors C18 lists, and the code classes DuplicateKey / Hash errors as Fatal, not User.)
func (e *btEnv) rejectedBuildCheck(what string, err error) {
	left := hx.StoredIDs(e.rec.Effs)
	_, herr := atree.CheckStorageHealth(e.ps, e.roots)
	if len(left) == 0 {
		e.st.Hit("rejected-build:nothing-left")
		if herr != nil {
			e.violation(fmt.Sprintf("%s rejected with %s: CheckStorageHealth(expected %d roots): %v", what, btErrKind(err), e.roots, herr))
		}
		return
	}
	deltas := atree.VerifDeltas(e.ps)
	inWS := 0
	for _, id := range left {
		if s, ok := deltas[id]; ok && s != nil {
			inWS++
		}
	}
	e.finding(btSigRejectedLeak, []string{"C09"}, fmt.Sprintf(
		"%s rejected with %s left %d slab(s) it had stored (first %s; %d of them in the pending write set), referenced by no container and not handed back; CheckStorageHealth(expected %d roots): %v",
		what, btErrKind(err), len(left), hx.IDStr(left[0]), inWS, e.roots, herr))
}

// guardedVerifySerialization runs one of the library's serialization verifiers under recover: a verifier that
// panics on a container the library built is a violation with the history ("*"), not a crash of the harness.
func (e *btEnv) guardedVerifySerialization(name string, f func() error) (err error) {
	defer func() {
		if r := recover(); r != nil {
			e.st.Violations = append(e.st.Violations, hx.Violation{
				Property: "*", Stream: e.st.Stream, Seed: e.cfg.Seed, Program: e.prog, Step: e.step, Trace: e.w.Path, Line: e.w.Lines,
				What: fmt.Sprintf("%s PANICKED on a container the library built: %v", name, r),
			})
			err = nil
		}
	}()
	return f()
}

func (e *btEnv) violation(what string) {
	if len(e.st.Violations) > 40 {
		return
	}
	e.st.Violations = append(e.st.Violations, hx.Violation{
		Property: "C17", Stream: e.st.Stream, Seed: e.cfg.Seed, Program: e.prog, Step: e.step, What: what, Trace: e.w.Path, Line: e.w.Lines,
	})
	// a slab whose reported size is not the size of its encoding also breaks C06 (sizes of EVERY
	// slab of every reachable container, bulk-built ones included), a structurally invalid result C05
	var also []string
	if strings.Contains(what, "header size") || strings.Contains(what, "Serialization") {
		also = append(also, "C06")
	}
	if strings.Contains(what, "VerifyArray") || strings.Contains(what, "VerifyMap") {
		also = append(also, "C05")
	}
	for _, p := range also {
		e.st.Violations = append(e.st.Violations, hx.Violation{
			Property: p, Stream: e.st.Stream, Seed: e.cfg.Seed, Program: e.prog, Step: e.step, What: what, Trace: e.w.Path, Line: e.w.Lines,
		})
	}
}

// fresh starts a scenario: new ledger and storage, model state reset.
func (e *btEnv) fresh() {
	e.ledger = hx.NewLedger()
	em, _ := cbor.EncOptions{}.EncMode()
	dm, _ := cbor.DecOptions{}.DecMode()
	e.ps = atree.NewPersistentSlabStorage(e.ledger, em, dm, btDecodeStorable, btDecodeTypeInfo)
	e.rec = hx.NewRecStorage(e.ps)
	e.nextH = 0
	e.keyPay = 0
	e.roots = 0
	e.step++
	e.w.L("CFG T=%d", e.T)
}

func (e *btEnv) handle() int { h := e.nextH; e.nextH++; return h }

// skip tells the model about slab IDs allocated by untraced steps and forgets their effects.
func (e *btEnv) skip() {
	n := map[uint64]int{}
	var order []uint64
	for _, f := range e.rec.Effs {
		if f.Kind == 'a' {
			a := f.ID.AddressAsUint64()
			if n[a] == 0 {
				order = append(order, a)
			}
			n[a]++
		}
	}
	for _, a := range order {
		e.w.L("SKIP addr=%d n=%d", a, n[a])
	}
	e.rec.Reset()
}

func (e *btEnv) emitEffects(slabs bool) {
	e.w.L("EFF %s", hx.NetEffect(e.rec.Effs))
	if slabs {
		for _, id := range hx.StoredIDs(e.rec.Effs) {
			s, ok, err := e.ps.Retrieve(id)
			if err != nil || !ok {
				e.w.L("SLB MISSING(%s)", hx.IDStr(id))
				continue
			}
			e.w.L("SLB %s", atree.VerifDumpSlab(s, btDescribe))
		}
	}
	e.rec.Reset()
}

func (e *btEnv) dumpTree(root atree.Slab) string {
	var parts []string
	var rec func(s atree.Slab)
	rec = func(s atree.Slab) {
		parts = append(parts, atree.VerifDumpSlab(s, btDescribe))
		for _, id := range atree.VerifChildSlabIDs(s) {
			c, ok, err := e.ps.Retrieve(id)
			if err != nil || !ok {
				parts = append(parts, "MISSING("+hx.IDStr(id)+")")
				continue
			}
			rec(c)
		}
	}
	rec(root)
	return strings.Join(parts, " ")
}

// slabIDs returns every slab ID a container owns: the tree slabs, external collision groups and
// the large-value slabs its elements refer to.
func (e *btEnv) slabIDs(root atree.Slab) map[atree.SlabID]bool {
	ids := map[atree.SlabID]bool{}
	var storables func(ss []atree.Storable)
	var rec func(s atree.Slab)
	storables = func(ss []atree.Storable) {
		for _, s := range ss {
			if s == nil {
				continue
			}
			if r, ok := s.(atree.SlabIDStorable); ok {
				ids[atree.SlabID(r)] = true
				continue
			}
			storables(s.ChildStorables())
		}
	}
	rec = func(s atree.Slab) {
		ids[s.SlabID()] = true
		children := atree.VerifChildSlabIDs(s)
		for _, id := range children {
			c, ok, err := e.ps.Retrieve(id)
			if err == nil && ok {
				rec(c)
			} else {
				ids[id] = true
			}
		}
		switch s.(type) {
		case *atree.ArrayDataSlab, *atree.MapDataSlab:
			storables(s.ChildStorables())
		}
	}
	rec(root)
	return ids
}

func btShared(a, b map[atree.SlabID]bool) []string {
	var out []string
	for id := range a {
		if b[id] {
			out = append(out, hx.IDStr(id))
		}
	}
	sort.Strings(out)
	return out
}

func (e *btEnv) health(when string) {
	roots, err := atree.CheckStorageHealth(e.ps, e.roots)
	if err != nil {
		e.violation(fmt.Sprintf("%s: CheckStorageHealth(expected %d roots): %v", when, e.roots, err))
		return
	}
	if len(roots) != e.roots {
		e.violation(fmt.Sprintf("%s: CheckStorageHealth found %d roots, expected %d", when, len(roots), e.roots))
	}
}

// btTI is a TypeInfo WITH IDENTITY: a pointer to a mutable object.  Copy() returns a fresh
// object, equality is by content (btTIC).  A copy/bulk path that keeps the caller's or the
// source's object instead of calling Copy() is visible as a shared pointer (audit a1, mutant MTI;
// hx.TI is a uint64, for which aliasing cannot be observed).  Encoded like hx.TI.
type btTI struct{ N uint64 }

var _ atree.TypeInfo = (*btTI)(nil)

func (t *btTI) Encode(e *cbor.StreamEncoder) error { return e.EncodeUint64(t.N) }
func (t *btTI) IsComposite() bool                  { return false }
func (t *btTI) Copy() atree.TypeInfo               { return &btTI{N: t.N} }
func (t *btTI) Identifier() string                 { return fmt.Sprintf("ti%d", t.N) }
func (t *btTI) String() string                     { return fmt.Sprintf("%d", t.N) }

// btDecodeTypeInfo decodes like hx.DecodeTypeInfo and returns the identity-carrying form (the
// serialization verifier compares extra data with reflect.DeepEqual: one Go type throughout).
func btDecodeTypeInfo(d *cbor.StreamDecoder) (atree.TypeInfo, error) {
	t, err := hx.DecodeTypeInfo(d)
	if err != nil {
		return nil, err
	}
	if n, ok := t.(hx.TI); ok {
		return &btTI{N: uint64(n)}, nil
	}
	return t, nil
}

// btType returns a fresh type-info object for type number ty.
func btType(ty hx.TI) atree.TypeInfo { return &btTI{N: uint64(ty)} }

func btTINum(t atree.TypeInfo) (uint64, bool) {
	switch x := t.(type) {
	case *btTI:
		if x == nil {
			return 0, false
		}
		return x.N, true
	case hx.TI:
		return uint64(x), true
	}
	return 0, false
}

var btTIC = func(a, b atree.TypeInfo) bool {
	x, ok1 := btTINum(a)
	y, ok2 := btTINum(b)
	if ok1 && ok2 {
		return x == y
	}
	return a == b
}

// typeAliased: both type infos are objects and they are the SAME object.
func btTypeAliased(a, b atree.TypeInfo) bool {
	x, ok1 := a.(*btTI)
	y, ok2 := b.(*btTI)
	return ok1 && ok2 && x == y
}

// typeIndependence: the copy's type info equals the source's by content, is another object, and a
// change of the source's object does not show through the copy.
func (e *btEnv) typeIndependence(what string, src, cp atree.TypeInfo) {
	if !btTIC(src, cp) {
		e.violation(fmt.Sprintf("%s: the copy has type %v, the source %v", what, cp, src))
	}
	if btTypeAliased(src, cp) {
		e.violation(what + ": the copy shares its TypeInfo object with the source (TypeInfo.Copy() not called)")
		return
	}
	if x, ok := src.(*btTI); ok {
		e.st.Hit("type-identity:checked")
		old := x.N
		x.N = old + 1000
		if n, _ := btTINum(cp); n != old {
			e.violation(what + ": changing the source's TypeInfo object changed the type of the copy")
		}
		x.N = old
	}
}

func btCompareStorable(a, b atree.Storable) bool {
	switch x := a.(type) {
	case hx.TV:
		y, ok := b.(hx.TV)
		return ok && x == y
	case BV:
		y, ok := b.(BV)
		return ok && x == y
	case atree.SlabIDStorable:
		y, ok := b.(atree.SlabIDStorable)
		return ok && x == y
	}
	return false
}

// ---------------------------------------------------------------------------------------------
// values

func (e *btEnv) tv(size uint32) hx.TV {
	if size < 2 {
		size = 2
	}
	e.nextPay++
	pay := e.nextPay
	for !hx.ValidTV(size, pay) {
		pay = pay % 200
		if !hx.ValidTV(size, pay) {
			size++
		}
	}
	return hx.TV{Size: size, Pay: pay}
}

// arrSize draws an element size for profile prof (uniform profiles use the same size for the
// whole stream, decided by the caller).
func (e *btEnv) arrSize(prof int) uint32 {
	m := e.maxInl
	r := e.rng
	switch prof {
	case 0: // tiny
		return uint32(2 + r.Intn(10))
	case 1: // mid
		return uint32(10 + r.Intn(int(m/2)))
	case 2: // at and just below the inline limit
		return m - uint32(r.Intn(3))
	case 3: // just over the limit: externalised (stored as a 19-byte reference)
		return m + 1 + uint32(r.Intn(40))
	case 4: // about a quarter of a slab
		return m/2 + uint32(r.Intn(5))
	case 5: // mostly tiny, some at the limit (close-out just below T followed by a big element)
		if r.Intn(6) == 0 {
			return m - uint32(r.Intn(2))
		}
		return uint32(2 + r.Intn(6))
	case 6: // mixture of inline and externalised
		if r.Intn(4) == 0 {
			return m + 1 + uint32(r.Intn(20))
		}
		return uint32(2 + r.Intn(int(m)))
	default:
		return e.arrSize(r.Intn(7))
	}
}

func (e *btEnv) arrValues(n int, prof int, uniform uint32) []hx.TV {
	vals := make([]hx.TV, n)
	for i := range vals {
		if uniform != 0 {
			vals[i] = e.tv(uniform)
		} else {
			vals[i] = e.tv(e.arrSize(prof))
		}
	}
	return vals
}

func btStored(size, limit uint32) uint32 {
	if size > limit {
		return 19
	}
	return size
}

// criticalLengths returns stream lengths, for elements of uniform size sz, that leave an
// underfull (or exactly full, or one-short) last data slab and last index slab at each level
// that fits under cap.  k = elements per closed data slab, maxN = children per index slab.
func (e *btEnv) criticalLengths(sz uint32, cap int) []int {
	s := int(btStored(sz, e.maxInl))
	k := (int(e.T) - 21 + s - 1) / s
	if k < 1 {
		k = 1
	}
	maxN := (int(e.maxThr) - 12) / 14
	var js []int
	add := func(j int) {
		if j >= 1 {
			js = append(js, j)
		}
	}
	for _, j := range []int{1, 2, 3, maxN - 1, maxN, maxN + 1, maxN + 2, 2 * maxN, 2*maxN + 1, 3*maxN + 1,
		maxN*maxN - 1, maxN * maxN, maxN*maxN + 1, maxN*maxN + maxN, maxN*maxN + maxN + 1, 2*maxN*maxN + 1,
		maxN*maxN*maxN + 1} {
		add(j)
	}
	var out []int
	for _, j := range js {
		for _, r := range []int{0, 1, 2, k / 2, k - 1} {
			n := k*j + r
			if n <= cap {
				out = append(out, n)
			}
		}
	}
	return out
}

func btVals(vals []hx.TV) string {
	if len(vals) == 0 {
		return "-"
	}
	var sb strings.Builder
	for i, v := range vals {
		if i > 0 {
			sb.WriteByte(',')
		}
		fmt.Fprintf(&sb, "%d:%d", v.Size, v.Pay)
	}
	return sb.String()
}

// ---------------------------------------------------------------------------------------------
// arrays

type btArr struct {
	h    int
	a    *atree.Array
	addr atree.Address
	ty   hx.TI
	vals []hx.TV // expected content
}

func (e *btEnv) readArray(a *atree.Array) ([]hx.TV, error) {
	var got []hx.TV
	err := a.IterateReadOnly(func(v atree.Value) (bool, error) {
		tv, ok := v.(hx.TV)
		if !ok {
			return false, fmt.Errorf("element is %T", v)
		}
		got = append(got, tv)
		return true, nil
	})
	return got, err
}

func btEqualTV(a, b []hx.TV) bool {
	if len(a) != len(b) {
		return false
	}
	for i := range a {
		if a[i] != b[i] {
			return false
		}
	}
	return true
}

// checkArray applies the model-free oracles to an array that must hold x.vals.
func (e *btEnv) checkArray(when string, x *btArr) {
	got, err := e.readArray(x.a)
	if err != nil {
		e.violation(fmt.Sprintf("%s: iteration failed: %v", when, err))
	} else if !btEqualTV(got, x.vals) {
		e.violation(fmt.Sprintf("%s: content differs from the expected sequence (got %d elements, want %d)", when, len(got), len(x.vals)))
	}
	if x.a.Count() != uint64(len(x.vals)) {
		e.violation(fmt.Sprintf("%s: Count() = %d, want %d", when, x.a.Count(), len(x.vals)))
	}
	if err := atree.VerifyArray(x.a, x.addr, x.ty, btTIC, hx.HashInput, true); err != nil {
		e.violation(fmt.Sprintf("%s: VerifyArray: %v", when, err))
	}
	if err := e.guardedVerifySerialization("VerifyArraySerialization", func() error { return atree.VerifyArraySerialization(x.a, hx.DecMode(), hx.EncMode(), btDecodeStorable, btDecodeTypeInfo, btCompareStorable) }); err != nil {
		e.violation(fmt.Sprintf("%s: VerifyArraySerialization: %v", when, err))
	}
	if !x.a.Inlined() {
		if bad := hx.ArraySizeBand(e.rec, atree.VerifArrayRoot(x.a)); bad != "" {
			e.violation(fmt.Sprintf("%s: size band: %s", when, bad))
		}
	}
}

// arrayBatch runs the real NewArrayFromBatchData on vals, traced.
func (e *btEnv) arrayBatch(vals []hx.TV, addrN uint64, ty hx.TI) *btArr {
	e.skip()
	h := e.handle()
	addr := hx.MkAddr(addrN)
	e.w.L("OP abatch h=%d addr=%d ty=%d n=%d vs=%s", h, addrN, uint64(ty), len(vals), btVals(vals))
	i := 0
	a, err := atree.NewArrayFromBatchData(e.rec, addr, btType(ty), func() (atree.Value, error) {
		if i == len(vals) {
			return nil, nil
		}
		v := vals[i]
		i++
		return v, nil
	})
	e.ops++
	e.st.Hit("op:abatch")
	if err != nil {
		e.w.L("OBS err:%s", btErrKind(err))
		e.rejectedBuildCheck(fmt.Sprintf("NewArrayFromBatchData(%d elements)", len(vals)), err)
		e.emitEffects(false)
		e.violation(fmt.Sprintf("NewArrayFromBatchData(%d elements) failed: %v", len(vals), err))
		return nil
	}
	e.w.L("OBS ok")
	e.emitEffects(true)
	e.w.L("FULL h=%d %s", h, e.dumpTree(atree.VerifArrayRoot(a)))
	e.roots++
	x := &btArr{h: h, a: a, addr: addr, ty: ty, vals: append([]hx.TV(nil), vals...)}
	e.checkArray("array batch build", x)
	e.health("array batch build")
	if a.IsWithinSingleSlab() {
		e.st.Hit("abatch:depth=0")
	} else {
		e.st.Hit("abatch:multi")
	}
	return x
}

func (e *btEnv) disposeTraced(s atree.Storable) {
	if id, ok := s.(atree.SlabIDStorable); ok {
		e.w.L("DSP id=%s", hx.IDStr(atree.SlabID(id)))
		_ = e.ps.Remove(atree.SlabID(id))
	}
}

// mutateArrayTraced appends to / overwrites in x through traced single operations.
func (e *btEnv) mutateArrayTraced(x *btArr, n int) {
	for j := 0; j < n; j++ {
		e.skip()
		v := e.tv(e.arrSize(e.rng.Intn(7)))
		if len(x.vals) > 0 && e.rng.Intn(2) == 0 {
			i := e.rng.Intn(len(x.vals))
			e.w.L("OP set h=%d i=%d v=%d:%d", x.h, i, v.Size, v.Pay)
			old, err := x.a.Set(uint64(i), v)
			if err != nil {
				e.w.L("OBS err:%s", btErrKind(err))
				e.emitEffects(false)
				e.violation(fmt.Sprintf("Set on a bulk-built/copied array failed: %v", err))
				return
			}
			e.w.L("OBS ok:%s", renderStorable(old))
			e.emitEffects(true)
			e.disposeTraced(old)
			x.vals[i] = v
		} else {
			e.w.L("OP app h=%d v=%d:%d", x.h, v.Size, v.Pay)
			if err := x.a.Append(v); err != nil {
				e.w.L("OBS err:%s", btErrKind(err))
				e.emitEffects(false)
				e.violation(fmt.Sprintf("Append on a bulk-built/copied array failed: %v", err))
				return
			}
			e.w.L("OBS ok")
			e.emitEffects(true)
			x.vals = append(x.vals, v)
		}
		e.ops++
		e.st.Hit("op:mutate")
	}
	e.w.L("FULL h=%d %s", x.h, e.dumpTree(atree.VerifArrayRoot(x.a)))
}

// mutateArrayUntraced changes an untraced array (a source) through the real operations.
func (e *btEnv) mutateArrayUntraced(a *atree.Array, vals *[]hx.TV, n int) {
	for j := 0; j < n; j++ {
		v := e.tv(e.arrSize(e.rng.Intn(7)))
		if len(*vals) > 0 && e.rng.Intn(2) == 0 {
			i := e.rng.Intn(len(*vals))
			old, err := a.Set(uint64(i), v)
			if err != nil {
				e.violation(fmt.Sprintf("Set on source failed: %v", err))
				return
			}
			if id, ok := old.(atree.SlabIDStorable); ok {
				_ = e.ps.Remove(atree.SlabID(id))
			}
			(*vals)[i] = v
		} else {
			if err := a.Append(v); err != nil {
				e.violation(fmt.Sprintf("Append on source failed: %v", err))
				return
			}
			*vals = append(*vals, v)
		}
	}
}

// independence: mutating one of (src, dst) leaves the other's content and dump unchanged, and
// the two share no slab ID.  srcTraced says whether src is known to the model.
func (e *btEnv) arrayIndependence(what string, src, dst *btArr, srcTraced bool) {
	if sh := btShared(e.slabIDs(atree.VerifArrayRoot(src.a)), e.slabIDs(atree.VerifArrayRoot(dst.a))); len(sh) != 0 {
		e.violation(fmt.Sprintf("%s: source and result share slab IDs %v", what, sh))
	}
	srcDump := e.dumpTree(atree.VerifArrayRoot(src.a))
	e.mutateArrayTraced(dst, 1+e.rng.Intn(4))
	if d := e.dumpTree(atree.VerifArrayRoot(src.a)); d != srcDump {
		e.violation(what + ": mutating the result changed the dump of the source")
	}
	e.checkArray(what+": source after mutating the result", src)
	e.checkArray(what+": result after its own mutation", dst)
	dstDump := e.dumpTree(atree.VerifArrayRoot(dst.a))
	if srcTraced {
		e.mutateArrayTraced(src, 1+e.rng.Intn(4))
	} else {
		e.mutateArrayUntraced(src.a, &src.vals, 1+e.rng.Intn(4))
	}
	if d := e.dumpTree(atree.VerifArrayRoot(dst.a)); d != dstDump {
		e.violation(what + ": mutating the source changed the dump of the result")
	}
	e.checkArray(what+": result after mutating the source", dst)
	e.checkArray(what+": source after its own mutation", src)
	e.skip()
	e.w.L("FULL h=%d %s", dst.h, e.dumpTree(atree.VerifArrayRoot(dst.a)))
	e.health(what + ": after mutations")
}

// arraySourceByAppend builds an untraced source array with Append.
func (e *btEnv) arraySourceByAppend(vals []hx.TV, addrN uint64, ty hx.TI) *btArr {
	addr := hx.MkAddr(addrN)
	a, err := atree.NewArray(e.rec, addr, btType(ty))
	if err != nil {
		e.st.HarnessErr = "NewArray: " + err.Error()
		return nil
	}
	for _, v := range vals {
		if err := a.Append(v); err != nil {
			e.st.HarnessErr = "Append: " + err.Error()
			return nil
		}
	}
	e.roots++
	return &btArr{h: -1, a: a, addr: addr, ty: ty, vals: append([]hx.TV(nil), vals...)}
}

// scenarioArrayMergeProne: elements of about 0.4 T (two of them cannot be lent by a slab that
// must keep half a slab) followed by one or two tiny ones: the underfull last slab cannot borrow
// and is merged into its left sibling.
// scenarioArrayMergeProne builds from j slab-fulls of large elements followed by one or two tiny
// ones: the last data slab underflows and its left neighbour cannot lend, so the two are merged.
// forceJ > 0 fixes the number of slab-fulls (1: the merge result is the ROOT data slab; 2: a
// two-leaf tree whose last leaf is a merge result).
func (e *btEnv) scenarioArrayMergeProne(forceJ int) {
	m := e.maxInl
	sz := m*3/4 + uint32(e.rng.Intn(int(m/6)+1))
	k := (int(e.T) - 21 + int(sz) - 1) / int(sz)
	j := 1 + e.rng.Intn(60)
	if e.rng.Intn(3) == 0 {
		maxN := (int(e.maxThr) - 12) / 14
		j = maxN*(1+e.rng.Intn(3)) + e.rng.Intn(2)
	}
	if forceJ > 0 {
		j = forceJ
	}
	if e.T >= 8192 && j > 40 {
		j = 40
	}
	e.fresh()
	addrN := uint64(1 + e.rng.Intn(3))
	vals := e.arrValues(k*j, 0, sz)
	for t := 1 + e.rng.Intn(2); t > 0; t-- {
		vals = append(vals, e.tv(uint32(2+e.rng.Intn(8))))
	}
	x := e.arrayBatch(vals, addrN, hx.TI(3))
	if x != nil && e.rng.Intn(3) == 0 {
		e.mutateArrayTraced(x, 1+e.rng.Intn(4))
		e.checkArray("merge-prone bulk-built array after single operations", x)
	}
	e.st.Hit("abatch:merge-prone")
}

func (e *btEnv) scenarioArrayBuild(n int, prof int, uniform uint32) {
	e.fresh()
	addrN := uint64(1 + e.rng.Intn(3))
	ty := hx.TI(uint64(e.rng.Intn(100)))
	vals := e.arrValues(n, prof, uniform)
	withSource := e.rng.Intn(4) == 0 && n <= 1500
	var src *btArr
	if withSource {
		srcAddr := addrN
		if e.rng.Intn(2) == 0 {
			srcAddr = uint64(4 + e.rng.Intn(2))
		}
		src = e.arraySourceByAppend(vals, srcAddr, ty)
		if src == nil {
			return
		}
		// the element stream is what iteration over the source yields
		got, err := e.readArray(src.a)
		if err != nil || !btEqualTV(got, vals) {
			e.st.HarnessErr = "source iteration does not return the inserted values"
			return
		}
		vals = got
	}
	x := e.arrayBatch(vals, addrN, ty)
	if x == nil {
		return
	}
	if n <= 400 {
		e.skip()
		e.w.L("OP aiter h=%d", x.h)
		got, _ := e.readArray(x.a)
		parts := make([]string, len(got))
		for i, v := range got {
			parts[i] = fmt.Sprintf("%d:v%d", v.Size, v.Pay)
		}
		e.w.L("OBS ok:[%s]", strings.Join(parts, ","))
	}
	if src != nil {
		e.arrayIndependence("array batch build", src, x, false)
	} else if e.rng.Intn(3) == 0 {
		e.mutateArrayTraced(x, 1+e.rng.Intn(5))
		e.checkArray("bulk-built array after single operations", x)
		e.health("bulk-built array after single operations")
	}
}

// expectArrayCopyable is the model-free statement of "single data slab whose elements are all
// plain values": no value was externalised, the container is one slab.
func (e *btEnv) expectArrayCopyable(x *btArr) bool {
	if !x.a.IsWithinSingleSlab() {
		return false
	}
	for _, v := range x.vals {
		if v.Size > e.maxInl {
			return false
		}
	}
	return true
}

func (e *btEnv) arrayCopy(what string, src *btArr, toAddr uint64) *btArr {
	e.skip()
	want := e.expectArrayCopyable(src)
	e.w.L("OP acan h=%d", src.h)
	can := src.a.CanCopyNonRefSimple()
	e.w.L("OBS ok:%v", can)
	e.ops++
	e.st.Hit(fmt.Sprintf("acan:%v", can))
	if can != want {
		e.violation(fmt.Sprintf("%s: CanCopyNonRefSimple() = %v, but single-slab-of-plain-values = %v", what, can, want))
	}
	srcDump := e.dumpTree(atree.VerifArrayRoot(src.a))
	h2 := e.handle()
	e.w.L("OP acopy h=%d to=%d addr=%d", src.h, h2, toAddr)
	cp, err := src.a.CopyNonRefSimple(hx.MkAddr(toAddr))
	e.ops++
	if err != nil {
		e.w.L("OBS err:%s", btErrKind(err))
		e.emitEffects(false)
		e.st.Hit("acopy:refused")
		if can {
			e.violation(fmt.Sprintf("%s: copy was offered but CopyNonRefSimple failed: %v", what, err))
		}
		if btErrKind(err) != "Copy:Fatal" {
			e.violation(fmt.Sprintf("%s: refused copy reported %s", what, btErrKind(err)))
		}
		if d := e.dumpTree(atree.VerifArrayRoot(src.a)); d != srcDump {
			e.violation(what + ": refused copy changed the source")
		}
		e.checkArray(what+": source after refused copy", src)
		return nil
	}
	e.w.L("OBS ok")
	e.emitEffects(true)
	e.w.L("FULL h=%d %s", h2, e.dumpTree(atree.VerifArrayRoot(cp)))
	e.st.Hit("acopy:ok")
	if !can {
		e.violation(what + ": copy was not offered but CopyNonRefSimple succeeded")
	}
	e.roots++
	y := &btArr{h: h2, a: cp, addr: hx.MkAddr(toAddr), ty: src.ty, vals: append([]hx.TV(nil), src.vals...)}
	if cp.Inlined() {
		e.violation(what + ": the copy is inlined")
	}
	if d := e.dumpTree(atree.VerifArrayRoot(src.a)); d != srcDump {
		e.violation(what + ": copy changed the source")
	}
	e.checkArray(what+": copy", y)
	e.typeIndependence(what, src.a.Type(), cp.Type())
	e.health(what + ": after copy")
	return y
}

func (e *btEnv) scenarioArrayCopy(kind int) {
	e.fresh()
	addrN := uint64(1 + e.rng.Intn(3))
	ty := hx.TI(uint64(e.rng.Intn(100)))
	toAddr := addrN
	if e.rng.Intn(2) == 0 {
		toAddr = uint64(1 + e.rng.Intn(5))
	}
	// budget of a single slab, in bytes of elements
	var vals []hx.TV
	switch kind {
	case 0: // single slab, plain values, any fill level
		budget := e.rng.Intn(int(e.T))
		for used := 0; ; {
			v := e.tv(e.arrSize([]int{0, 1, 2, 4, 5}[e.rng.Intn(5)]))
			if used+int(v.Size) > budget {
				break
			}
			used += int(v.Size)
			vals = append(vals, v)
		}
	case 1: // single slab with at least one externalised value
		n := 1 + e.rng.Intn(8)
		for i := 0; i < n; i++ {
			vals = append(vals, e.tv(e.arrSize(0)))
		}
		vals[e.rng.Intn(len(vals))] = e.tv(e.arrSize(3))
	case 2: // multi-slab, plain values
		vals = e.arrValues(int(e.T)/8+e.rng.Intn(200), 0, 0)
	case 3: // empty
	default: // single slab filled to the brim (root slab below the split limit)
		for used := 0; ; {
			v := e.tv(e.arrSize(1))
			if 5+used+int(v.Size) > int(e.maxThr) {
				break
			}
			used += int(v.Size)
			vals = append(vals, v)
		}
	}
	e.st.Hit(fmt.Sprintf("acopy-source:kind=%d", kind))
	src := e.arrayBatch(vals, addrN, ty)
	if src == nil {
		return
	}
	cp := e.arrayCopy(fmt.Sprintf("array copy (source kind %d)", kind), src, toAddr)
	if cp != nil {
		e.arrayIndependence("array copy", src, cp, true)
	}
}

// scenarioArrayCopyInlined: the source is an inlined element of a parent array.
func (e *btEnv) scenarioArrayCopyInlined(withRef bool) {
	e.fresh()
	addrN := uint64(1 + e.rng.Intn(3))
	addr := hx.MkAddr(addrN)
	ty := hx.TI(uint64(e.rng.Intn(100)))
	parent, err := atree.NewArray(e.rec, addr, btType(hx.TI(7)))
	if err != nil {
		e.st.HarnessErr = "NewArray: " + err.Error()
		return
	}
	e.roots++
	var vals []hx.TV
	budget := int(e.maxInl) - 17 - 8
	if withRef {
		vals = append(vals, e.tv(e.arrSize(3)))
		budget -= 19
	}
	budget = e.rng.Intn(budget + 1)
	for used := 0; ; {
		v := e.tv(uint32(2 + e.rng.Intn(12)))
		if used+int(v.Size) > budget {
			break
		}
		used += int(v.Size)
		vals = append(vals, v)
	}
	e.rng.Shuffle(len(vals), func(i, j int) { vals[i], vals[j] = vals[j], vals[i] })
	src := e.arrayBatch(vals, addrN, ty)
	if src == nil {
		return
	}
	if err := parent.Append(src.a); err != nil {
		e.st.HarnessErr = "parent.Append(child): " + err.Error()
		return
	}
	if !src.a.Inlined() {
		e.st.Hit("acopy-inlined:not-inlined")
		return
	}
	e.roots-- // the child is no longer a root slab
	e.skip()
	e.w.L("OP ainline h=%d", src.h)
	e.w.L("FULL h=%d %s", src.h, e.dumpTree(atree.VerifArrayRoot(src.a)))
	e.st.Hit(fmt.Sprintf("acopy-source:inlined ref=%v", withRef))
	toAddr := uint64(1 + e.rng.Intn(4))
	what := fmt.Sprintf("array copy (inlined source, ref=%v)", withRef)
	// oracle for the inlined source without VerifyArray on the child alone: content + parent
	want := !withRef
	can := src.a.CanCopyNonRefSimple()
	if can != want {
		e.violation(fmt.Sprintf("%s: CanCopyNonRefSimple() = %v, want %v", what, can, want))
	}
	e.skip()
	e.w.L("OP acan h=%d", src.h)
	e.w.L("OBS ok:%v", can)
	h2 := e.handle()
	e.w.L("OP acopy h=%d to=%d addr=%d", src.h, h2, toAddr)
	cp, err := src.a.CopyNonRefSimple(hx.MkAddr(toAddr))
	e.ops += 2
	if err != nil {
		e.w.L("OBS err:%s", btErrKind(err))
		e.emitEffects(false)
		if can {
			e.violation(fmt.Sprintf("%s: copy was offered but failed: %v", what, err))
		}
		e.st.Hit("acopy:refused")
	} else {
		e.w.L("OBS ok")
		e.emitEffects(true)
		e.w.L("FULL h=%d %s", h2, e.dumpTree(atree.VerifArrayRoot(cp)))
		e.st.Hit("acopy:ok")
		if !can {
			e.violation(what + ": copy was not offered but succeeded")
		}
		e.roots++
		y := &btArr{h: h2, a: cp, addr: hx.MkAddr(toAddr), ty: ty, vals: append([]hx.TV(nil), vals...)}
		if cp.Inlined() {
			e.violation(what + ": the copy is inlined")
		}
		e.checkArray(what+": copy", y)
		if sh := btShared(e.slabIDs(atree.VerifArrayRoot(src.a)), e.slabIDs(atree.VerifArrayRoot(cp))); len(sh) != 0 {
			e.violation(fmt.Sprintf("%s: source and copy share slab IDs %v", what, sh))
		}
		// mutate the copy: the inlined source (read through the parent) is unchanged
		parentDump := e.dumpTree(atree.VerifArrayRoot(parent))
		e.mutateArrayTraced(y, 1+e.rng.Intn(4))
		if d := e.dumpTree(atree.VerifArrayRoot(parent)); d != parentDump {
			e.violation(what + ": mutating the copy changed the parent of the source")
		}
		// mutate the source through its handle: the copy is unchanged
		cpDump := e.dumpTree(atree.VerifArrayRoot(cp))
		e.mutateArrayUntraced(src.a, &src.vals, 1+e.rng.Intn(3))
		if d := e.dumpTree(atree.VerifArrayRoot(cp)); d != cpDump {
			e.violation(what + ": mutating the inlined source changed the copy")
		}
		e.checkArray(what+": copy after mutating the source", y)
		if got, err := e.readArray(src.a); err != nil || !btEqualTV(got, src.vals) {
			e.violation(what + ": source content wrong after mutations")
		}
	}
	if err := atree.VerifyArray(parent, addr, hx.TI(7), btTIC, hx.HashInput, true); err != nil {
		e.violation(what + ": VerifyArray(parent): " + err.Error())
	}
	e.skip()
	e.health(what)
}

// scenarioArrayCopyNested: an element of the source is itself a container (harness-only: the
// model has no nested containers).  The copy must not be offered.
func (e *btEnv) scenarioArrayCopyNested() {
	e.fresh()
	addr := hx.MkAddr(1)
	src, err := atree.NewArray(e.rec, addr, btType(hx.TI(1)))
	if err != nil {
		return
	}
	child, err := atree.NewArray(e.rec, addr, btType(hx.TI(2)))
	if err != nil {
		return
	}
	_ = child.Append(e.tv(5))
	_ = src.Append(e.tv(4))
	if e.rng.Intn(2) == 0 {
		m, err := atree.NewMap(e.rec, addr, atree.NewDefaultDigesterBuilder(), btType(hx.TI(3)))
		if err != nil {
			return
		}
		_, _ = m.Set(hx.CompareKey, hx.HashInput, e.tv(4), e.tv(4))
		_ = src.Append(m)
	} else {
		_ = src.Append(child)
	}
	e.st.Hit("acopy-source:nested")
	if src.CanCopyNonRefSimple() {
		e.violation("array with a nested container: copy is offered")
	}
	if _, err := src.CopyNonRefSimple(addr); err == nil {
		e.violation("array with a nested container: CopyNonRefSimple succeeded")
	} else if btErrKind(err) != "Copy:Fatal" {
		e.violation("array with a nested container: refused copy reported " + btErrKind(err))
	}
	e.ops += 2
	e.skip()
}

// ---------------------------------------------------------------------------------------------
// bytes

func (e *btEnv) scenarioBytes() {
	e.fresh()
	addrN := uint64(1 + e.rng.Intn(3))
	addr := hx.MkAddr(addrN)
	ty := hx.TI(uint64(e.rng.Intn(100)))
	T := int(e.T)
	// lengths around the fast-path boundary for element sizes 3 and 4 and for the estimates used
	var n int
	forceSmall, forceEst := -1, -1
	switch e.rng.Intn(10) {
	case 8:
		// actual element bytes within a few bytes of maxThreshold under an UNDER-estimate: the
		// fast path must fall back (the root slab would exceed the maximum by its prefix)
		n = int(e.maxThr)/4 - 2 + e.rng.Intn(5)
		forceSmall, forceEst = 2, e.rng.Intn(4)
	case 9:
		n = int(e.maxThr)/3 - 2 + e.rng.Intn(5)
		forceSmall, forceEst = 1, e.rng.Intn(3)
	case 0:
		n = 0
	case 1:
		n = 1 + e.rng.Intn(10)
	case 2:
		n = (T-5)/4 - 2 + e.rng.Intn(5)
	case 3:
		n = (T-5)/3 - 2 + e.rng.Intn(5)
	case 4:
		n = T/4 + e.rng.Intn(T)
	case 5:
		n = e.rng.Intn(T / 3)
	default:
		n = e.rng.Intn(3 * T)
	}
	if n < 0 {
		n = 0
	}
	if e.T >= 16384 && n > 20000 {
		n = 20000
	}
	data := make([]byte, n)
	small := e.rng.Intn(3) // 0 any, 1 all below 24, 2 all at/above 24
	if forceSmall >= 0 {
		small = forceSmall
	}
	for i := range data {
		switch small {
		case 1:
			data[i] = byte(e.rng.Intn(24))
		case 2:
			data[i] = byte(24 + e.rng.Intn(232))
		default:
			data[i] = byte(e.rng.Intn(256))
		}
	}
	est := []uint32{0, 0, 3, 4, 1, 2, 8}[e.rng.Intn(7)]
	if forceEst >= 0 {
		est = uint32(forceEst)
	}
	parts := make([]string, len(data))
	for i, b := range data {
		parts[i] = fmt.Sprintf("%d", b)
	}
	bs := strings.Join(parts, ",")
	if len(data) == 0 {
		bs = "-"
	}
	e.skip()
	h := e.handle()
	e.w.L("OP b2a h=%d addr=%d ty=%d est=%d sz0=3 sz1=4 n=%d bs=%s", h, addrN, uint64(ty), est, len(data), bs)
	a, err := atree.ByteSliceToByteArray[BV](e.rec, addr, btType(ty), data, est)
	e.ops++
	e.st.Hit("op:b2a")
	if err != nil {
		e.w.L("OBS err:%s", btErrKind(err))
		e.emitEffects(false)
		e.violation(fmt.Sprintf("ByteSliceToByteArray(%d bytes) failed: %v", len(data), err))
		return
	}
	e.w.L("OBS ok%s", e.callCounts())
	e.emitEffects(true)
	e.w.L("FULL h=%d %s", h, e.dumpTree(atree.VerifArrayRoot(a)))
	e.roots++
	if a.IsWithinSingleSlab() {
		e.st.Hit("b2a:single")
	} else {
		e.st.Hit("b2a:multi")
	}
	if err := atree.VerifyArray(a, addr, ty, btTIC, hx.HashInput, true); err != nil {
		e.violation("ByteSliceToByteArray: VerifyArray: " + err.Error())
	}
	if err := e.guardedVerifySerialization("VerifyArraySerialization", func() error { return atree.VerifyArraySerialization(a, hx.DecMode(), hx.EncMode(), btDecodeStorable, btDecodeTypeInfo, btCompareStorable) }); err != nil {
		e.violation("ByteSliceToByteArray: VerifyArraySerialization: " + err.Error())
	}
	e.health("ByteSliceToByteArray")
	e.w.L("OP a2b h=%d", h)
	back, err := atree.ByteArrayToByteSlice[BV](a)
	e.ops++
	e.st.Hit("op:a2b")
	if err != nil {
		e.w.L("OBS err:%s", btErrKind(err))
		e.violation("ByteArrayToByteSlice failed on the result of ByteSliceToByteArray: " + err.Error())
		return
	}
	bparts := make([]string, len(back))
	for i, b := range back {
		bparts[i] = fmt.Sprintf("%d", b)
	}
	e.w.L("OBS ok:[%s]", strings.Join(bparts, ","))
	if string(back) != string(data) {
		e.violation(fmt.Sprintf("byte round trip differs (%d bytes in, %d out)", len(data), len(back)))
	}
	// element by element read back
	i := 0
	okContent := a.Count() == uint64(len(data))
	_ = a.IterateReadOnly(func(v atree.Value) (bool, error) {
		b, ok := v.(BV)
		if !ok || i >= len(data) || byte(b) != data[i] {
			okContent = false
			return false, nil
		}
		i++
		return true, nil
	})
	if !okContent || i != len(data) {
		e.violation("ByteSliceToByteArray: content read back by iteration differs from the input")
	}
	// independence from the input slice
	if len(data) > 0 {
		data[0] ^= 0xff
		again, err := atree.ByteArrayToByteSlice[BV](a)
		if err != nil || len(again) == 0 || again[0] == data[0] {
			e.violation("byte array shares storage with the input slice")
		}
		again[0] ^= 0x55
		third, _ := atree.ByteArrayToByteSlice[BV](a)
		if len(third) == 0 || third[0] == again[0] {
			e.violation("byte slice returned by ByteArrayToByteSlice aliases the array")
		}
	}
}

// scenarioBytesReject: ByteArrayToByteSlice on an array holding a reference.
func (e *btEnv) scenarioBytesReject() {
	e.fresh()
	addrN := uint64(1 + e.rng.Intn(3))
	vals := []hx.TV{e.tv(e.arrSize(3))}
	if e.rng.Intn(2) == 0 {
		vals = e.arrValues(int(e.T)/6, 3, 0)
	}
	x := e.arrayBatch(vals, addrN, hx.TI(1))
	if x == nil {
		return
	}
	e.skip()
	e.w.L("OP a2b h=%d", x.h)
	_, err := atree.ByteArrayToByteSlice[BV](x.a)
	e.ops++
	e.st.Hit("op:a2b-reject")
	if err == nil {
		e.w.L("OBS ok:[]")
		e.violation("ByteArrayToByteSlice accepted an array of references")
		return
	}
	e.w.L("OBS err:%s", btErrKind(err))
	if btErrKind(err) != "UnexpectedElementType:User" {
		e.violation("ByteArrayToByteSlice on non-byte elements reported " + btErrKind(err))
	}
	e.checkArray("source after rejected ByteArrayToByteSlice", x)
}

// ---------------------------------------------------------------------------------------------
// maps

type btKV struct{ k, v hx.TV }

type btMap struct {
	h    int
	m    *atree.OrderedMap
	b    atree.DigesterBuilder
	addr atree.Address
	ty   hx.TI
	L    uint
	kvs  []btKV // expected content in iteration order
}

func (e *btEnv) mapBuilder(mode int) (atree.DigesterBuilder, uint) {
	salt := uint64(e.rng.Int63())
	if mode == 0 {
		return atree.NewDefaultDigesterBuilder(), 4
	}
	L := uint(4)
	alph := []uint64{1 << 62, 1 << 62, 1 << 62, 1 << 62}
	switch mode {
	case 1:
		alph = []uint64{3 + uint64(e.rng.Intn(40)), 1 << 62, 1 << 62, 1 << 62}
	case 2:
		alph = []uint64{4 + uint64(e.rng.Intn(20)), 2, 3, 1 << 62}
	case 3:
		alph = []uint64{3, 2, 2, 2}
	case 4:
		L = uint(1 + e.rng.Intn(3))
		alph = []uint64{5 + uint64(e.rng.Intn(30)), 3, 2, 2}
	case 5: // everything collides at level 0 (one big group: exported to an external slab)
		alph = []uint64{1, 1 << 62, 1 << 62, 1 << 62}
	}
	return &hx.TableDigesterBuilder{L: L, Fn: func(k hx.TV, l uint) uint64 {
		return mix(k.Pay, uint64(l), salt) % alph[l] * 1000003
	}}, L
}

// mapKey returns a key that is new in the current scenario (payloads count up from 1 and fit
// the two content bytes of the smallest key size).
func (e *btEnv) mapKey() hx.TV {
	size := uint32(3 + e.rng.Intn(14))
	if e.rng.Intn(10) == 0 {
		size = e.maxKey - uint32(e.rng.Intn(3))
	}
	e.keyPay++
	for !hx.ValidTV(size, e.keyPay) {
		size++
	}
	return hx.TV{Size: size, Pay: e.keyPay}
}

func (e *btEnv) mapValue(prof int) hx.TV {
	m := e.maxElem
	var size uint32
	switch prof {
	case 0:
		size = uint32(2 + e.rng.Intn(12))
	case 1:
		size = uint32(10 + e.rng.Intn(int(m/2)))
	case 2:
		size = m - 30 + uint32(e.rng.Intn(40)) // around the value limit: some externalised
	case 3:
		size = m/2 + uint32(e.rng.Intn(6))
	case 5: // about 0.4 T per element: a slab cannot lend two of them (merge-prone tails)
		size = m*3/4 - 20 + uint32(e.rng.Intn(int(m/8)+1))
	default:
		return e.mapValue(e.rng.Intn(4))
	}
	return e.tv(size)
}

func (e *btEnv) keyStr(b atree.DigesterBuilder, k hx.TV) string {
	digs, err := hx.Digests(b, k)
	if err != nil {
		panic(err)
	}
	parts := make([]string, len(digs))
	for i, d := range digs {
		parts[i] = fmt.Sprintf("%d", d)
	}
	return fmt.Sprintf("%d:%d@%s", k.Size, k.Pay, strings.Join(parts, ","))
}

func (e *btEnv) readMap(m *atree.OrderedMap) ([]btKV, error) {
	var got []btKV
	err := m.IterateReadOnly(func(k, v atree.Value) (bool, error) {
		kt, ok1 := k.(hx.TV)
		vt, ok2 := v.(hx.TV)
		if !ok1 || !ok2 {
			return false, fmt.Errorf("pair is %T=%T", k, v)
		}
		got = append(got, btKV{kt, vt})
		return true, nil
	})
	return got, err
}

func btEqualKV(a, b []btKV) bool {
	if len(a) != len(b) {
		return false
	}
	for i := range a {
		if a[i] != b[i] {
			return false
		}
	}
	return true
}

func (e *btEnv) checkMap(when string, x *btMap, ordered bool) {
	got, err := e.readMap(x.m)
	if err != nil {
		e.violation(fmt.Sprintf("%s: iteration failed: %v", when, err))
	} else if ordered {
		if !btEqualKV(got, x.kvs) {
			e.violation(fmt.Sprintf("%s: content/order differs from the expected pairs (got %d, want %d)", when, len(got), len(x.kvs)))
		}
	} else {
		want := map[hx.TV]hx.TV{}
		for _, p := range x.kvs {
			want[p.k] = p.v
		}
		ok := len(got) == len(want)
		for _, p := range got {
			if v, has := want[p.k]; !has || v != p.v {
				ok = false
			}
		}
		if !ok {
			e.violation(fmt.Sprintf("%s: content differs from the expected dictionary (got %d, want %d)", when, len(got), len(want)))
		}
	}
	if x.m.Count() != uint64(len(x.kvs)) {
		e.violation(fmt.Sprintf("%s: Count() = %d, want %d", when, x.m.Count(), len(x.kvs)))
	}
	if err := atree.VerifyMap(x.m, x.addr, x.ty, btTIC, hx.HashInput, true); err != nil {
		e.violation(fmt.Sprintf("%s: VerifyMap: %v", when, err))
	}
	if err := e.guardedVerifySerialization("VerifyMapSerialization", func() error { return atree.VerifyMapSerialization(x.m, hx.DecMode(), hx.EncMode(), btDecodeStorable, btDecodeTypeInfo, btCompareStorable) }); err != nil {
		e.violation(fmt.Sprintf("%s: VerifyMapSerialization: %v", when, err))
	}
}

// mapSource builds an untraced source map with Set.
func (e *btEnv) mapSource(n int, mode int, valProf int, addrN uint64, ty hx.TI) *btMap {
	b, L := e.mapBuilder(mode)
	addr := hx.MkAddr(addrN)
	m, err := atree.NewMap(e.rec, addr, b, btType(ty))
	if err != nil {
		e.st.HarnessErr = "NewMap: " + err.Error()
		return nil
	}
	for i := 0; i < n; i++ {
		k := e.mapKey()
		v := e.mapValue(valProf)
		old, err := m.Set(hx.CompareKey, hx.HashInput, k, v)
		if err != nil {
			if hx.ErrKind(err) == "CollisionLimit:Fatal" {
				n--
				i--
				if e.keyPay > 60000 {
					break
				}
				continue // the source refuses more keys under this digest: try another key
			}
			e.st.HarnessErr = "source Set: " + err.Error()
			return nil
		}
		if old != nil {
			e.st.HarnessErr = "source Set: fresh key had a previous value"
			return nil
		}
	}
	e.roots++
	kvs, err := e.readMap(m)
	if err != nil || uint64(len(kvs)) != m.Count() {
		e.st.HarnessErr = "source map iteration failed"
		return nil
	}
	return &btMap{h: -1, m: m, b: b, addr: addr, ty: ty, L: L, kvs: kvs}
}

func (e *btEnv) pairsStr(b atree.DigesterBuilder, kvs []btKV) string {
	if len(kvs) == 0 {
		return "-"
	}
	var sb strings.Builder
	for i, p := range kvs {
		if i > 0 {
			sb.WriteByte(';')
		}
		fmt.Fprintf(&sb, "%s>%d:%d", e.keyStr(b, p.k), p.v.Size, p.v.Pay)
	}
	return sb.String()
}

// mapBatch runs the real NewMapFromBatchData on kvs (digests as builder db, already seeded,
// computes them), traced.  wantErr = "" when the stream must be accepted.
func (e *btEnv) mapBatch(kvs []btKV, db atree.DigesterBuilder, newBuilder atree.DigesterBuilder, L uint, seed uint64, addrN uint64, ty hx.TI, wantErr string) *btMap {
	e.skip()
	h := e.handle()
	addr := hx.MkAddr(addrN)
	e.w.L("OP mbatch h=%d addr=%d ty=%d L=%d climit=%d seed=%d n=%d kvs=%s", h, addrN, uint64(ty), L, e.climit, seed, len(kvs), e.pairsStr(db, kvs))
	i := 0
	m, err := atree.NewMapFromBatchData(e.rec, addr, newBuilder, btType(ty), hx.CompareKey, hx.HashInput, seed,
		func() (atree.Value, atree.Value, error) {
			if i == len(kvs) {
				return nil, nil, nil
			}
			p := kvs[i]
			i++
			return p.k, p.v, nil
		})
	e.ops++
	e.st.Hit("op:mbatch")
	e.alloc = btAllocated(e.rec.Effs)
	if err != nil {
		e.w.L("OBS err:%s", btErrKind(err))
		e.rejectedBuildCheck(fmt.Sprintf("NewMapFromBatchData(%d pairs)", len(kvs)), err)
		e.emitEffects(false)
		e.st.Hit("mbatch:" + btErrKind(err))
		if wantErr == "" {
			e.violation(fmt.Sprintf("NewMapFromBatchData(%d pairs in source order) failed: %v", len(kvs), err))
		} else if wantErr != "?" && btErrKind(err) != wantErr {
			e.violation(fmt.Sprintf("NewMapFromBatchData: bad stream reported %s, want %s", btErrKind(err), wantErr))
		}
		return nil
	}
	e.w.L("OBS ok")
	e.emitEffects(true)
	e.w.L("MFULL h=%d %s", h, e.dumpTree(atree.VerifMapRoot(m)))
	e.roots++
	x := &btMap{h: h, m: m, b: newBuilder, addr: addr, ty: ty, L: L, kvs: append([]btKV(nil), kvs...)}
	if wantErr != "" && wantErr != "?" {
		e.violation(fmt.Sprintf("NewMapFromBatchData accepted a stream that must be rejected with %s", wantErr))
		return x
	}
	if m.Seed() != seed {
		e.violation(fmt.Sprintf("bulk-built map has seed %d, source seed is %d", m.Seed(), seed))
	}
	e.checkMap("map batch build", x, true)
	e.health("map batch build")
	if m.IsWithinSingleSlab() {
		e.st.Hit("mbatch:depth=0")
	} else {
		e.st.Hit("mbatch:multi")
	}
	return x
}

func (e *btEnv) mutateMapTraced(x *btMap, n int) {
	for j := 0; j < n; j++ {
		e.skip()
		var k hx.TV
		if len(x.kvs) > 0 && e.rng.Intn(2) == 0 {
			k = x.kvs[e.rng.Intn(len(x.kvs))].k
		} else {
			k = e.mapKey()
		}
		v := e.mapValue(e.rng.Intn(4))
		e.w.L("OP mset h=%d k=%s v=%d:%d", x.h, e.keyStr(x.b, k), v.Size, v.Pay)
		old, err := x.m.Set(hx.CompareKey, hx.HashInput, k, v)
		e.ops++
		e.st.Hit("op:mutate")
		if err != nil {
			e.w.L("OBS err:%s", btErrKind(err))
			if btErrKind(err) == "CollisionLimit:Fatal" {
				// a new key under a first-level digest that already holds the maximum number of keys
				if len(e.rec.Effs) != 0 {
					e.violation("refused insert touched storage: " + hx.NetEffect(e.rec.Effs))
				}
				e.emitEffects(false)
				e.st.Hit("mutate:collision-limit-refused")
				continue
			}
			e.emitEffects(false)
			e.violation(fmt.Sprintf("Set on a bulk-built/copied map failed: %v", err))
			return
		}
		if old == nil {
			e.w.L("OBS ok:none")
			x.kvs = append(x.kvs, btKV{k, v})
		} else {
			e.w.L("OBS ok:%s", renderStorable(old))
			for i := range x.kvs {
				if x.kvs[i].k == k {
					x.kvs[i].v = v
				}
			}
		}
		e.emitEffects(true)
		if old != nil {
			e.disposeTraced(old)
		}
	}
	e.w.L("MFULL h=%d %s", x.h, e.dumpTree(atree.VerifMapRoot(x.m)))
}

func (e *btEnv) mutateMapUntraced(x *btMap, n int) {
	for j := 0; j < n; j++ {
		var k hx.TV
		if len(x.kvs) > 0 && e.rng.Intn(2) == 0 {
			k = x.kvs[e.rng.Intn(len(x.kvs))].k
		} else {
			k = e.mapKey()
		}
		v := e.mapValue(e.rng.Intn(4))
		old, err := x.m.Set(hx.CompareKey, hx.HashInput, k, v)
		if err != nil {
			if btErrKind(err) == "CollisionLimit:Fatal" {
				continue
			}
			e.violation(fmt.Sprintf("Set on source map failed: %v", err))
			return
		}
		if old == nil {
			x.kvs = append(x.kvs, btKV{k, v})
		} else {
			if id, ok := old.(atree.SlabIDStorable); ok {
				_ = e.ps.Remove(atree.SlabID(id))
			}
			for i := range x.kvs {
				if x.kvs[i].k == k {
					x.kvs[i].v = v
				}
			}
		}
	}
}

func (e *btEnv) mapIndependence(what string, src, dst *btMap, srcTraced bool) {
	if sh := btShared(e.slabIDs(atree.VerifMapRoot(src.m)), e.slabIDs(atree.VerifMapRoot(dst.m))); len(sh) != 0 {
		e.violation(fmt.Sprintf("%s: source and result share slab IDs %v", what, sh))
	}
	srcDump := e.dumpTree(atree.VerifMapRoot(src.m))
	e.mutateMapTraced(dst, 1+e.rng.Intn(4))
	if d := e.dumpTree(atree.VerifMapRoot(src.m)); d != srcDump {
		e.violation(what + ": mutating the result changed the dump of the source")
	}
	e.checkMap(what+": source after mutating the result", src, false)
	e.checkMap(what+": result after its own mutation", dst, false)
	dstDump := e.dumpTree(atree.VerifMapRoot(dst.m))
	if srcTraced {
		e.mutateMapTraced(src, 1+e.rng.Intn(4))
	} else {
		e.mutateMapUntraced(src, 1+e.rng.Intn(4))
	}
	if d := e.dumpTree(atree.VerifMapRoot(dst.m)); d != dstDump {
		e.violation(what + ": mutating the source changed the dump of the result")
	}
	e.checkMap(what+": result after mutating the source", dst, false)
	e.checkMap(what+": source after its own mutation", src, false)
	e.skip()
	e.w.L("MFULL h=%d %s", dst.h, e.dumpTree(atree.VerifMapRoot(dst.m)))
	e.health(what + ": after mutations")
}

// newBuilderLike returns a fresh, unseeded builder of the same kind as b.
func btNewBuilderLike(b atree.DigesterBuilder) atree.DigesterBuilder {
	if t, ok := b.(*hx.TableDigesterBuilder); ok {
		return &hx.TableDigesterBuilder{L: t.L, Fn: t.Fn}
	}
	return atree.NewDefaultDigesterBuilder()
}

func (e *btEnv) scenarioMapBuild(n int, mode int, valProf int) {
	e.fresh()
	addrN := uint64(1 + e.rng.Intn(3))
	ty := hx.TI(uint64(e.rng.Intn(100)))
	srcAddr := addrN
	if e.rng.Intn(2) == 0 {
		srcAddr = uint64(4 + e.rng.Intn(2))
	}
	src := e.mapSource(n, mode, valProf, srcAddr, ty)
	if src == nil {
		return
	}
	if valProf == 5 && len(src.kvs) > 0 {
		// tiny last pair(s): the last data slab is underfull and its left sibling cannot lend
		for t := 1 + e.rng.Intn(2); t > 0 && t <= len(src.kvs); t-- {
			p := src.kvs[len(src.kvs)-t]
			old, err := src.m.Set(hx.CompareKey, hx.HashInput, p.k, e.tv(2))
			if err == nil {
				if id, ok := old.(atree.SlabIDStorable); ok {
					_ = e.ps.Remove(atree.SlabID(id))
				}
			}
		}
		src.kvs, _ = e.readMap(src.m)
	}
	e.st.Hit(fmt.Sprintf("mbatch-source:digestMode=%d", mode))
	x := e.mapBatch(src.kvs, src.b, btNewBuilderLike(src.b), src.L, src.m.Seed(), addrN, ty, "")
	if x == nil {
		return
	}
	if n <= 200 {
		e.skip()
		e.w.L("OP miter h=%d", x.h)
		got, _ := e.readMap(x.m)
		parts := make([]string, len(got))
		for i, p := range got {
			parts[i] = fmt.Sprintf("%d:v%d=%d:v%d", p.k.Size, p.k.Pay, p.v.Size, p.v.Pay)
		}
		e.w.L("OBS ok:[%s]", strings.Join(parts, ","))
	}
	if e.rng.Intn(2) == 0 {
		e.mapIndependence("map batch build", src, x, false)
	}
}

// scenarioMapReject feeds streams that must be rejected: unsorted first-level digests, duplicate
// keys (adjacent, inside a collision group, with a different value), uninitialised seed.
func (e *btEnv) scenarioMapReject(kind int, mode int) {
	e.fresh()
	addrN := uint64(1 + e.rng.Intn(3))
	ty := hx.TI(uint64(e.rng.Intn(100)))
	n := 2 + e.rng.Intn(120)
	src := e.mapSource(n, mode, e.rng.Intn(5), uint64(4), ty)
	if src == nil {
		return
	}
	kvs := append([]btKV(nil), src.kvs...)
	d0 := func(k hx.TV) uint64 { d, _ := hx.Digests(src.b, k); return d[0] }
	want := ""
	seed := src.m.Seed()
	switch kind {
	case 0: // swap two pairs with different first-level digests
		i := e.rng.Intn(len(kvs))
		j := e.rng.Intn(len(kvs))
		if d0(kvs[i].k) == d0(kvs[j].k) {
			e.st.Hit("mreject:skipped")
			return
		}
		kvs[i], kvs[j] = kvs[j], kvs[i]
		want = "Hash:Fatal"
	case 1: // the same pair twice in a row
		i := e.rng.Intn(len(kvs))
		kvs = append(kvs[:i+1], append([]btKV{kvs[i]}, kvs[i+1:]...)...)
		want = "DuplicateKey:Fatal"
	case 2: // the same key again with another value, at the end of its first-level digest group
		i := e.rng.Intn(len(kvs))
		j := i
		for j+1 < len(kvs) && d0(kvs[j+1].k) == d0(kvs[i].k) {
			j++
		}
		dup := btKV{kvs[i].k, e.mapValue(e.rng.Intn(4))}
		kvs = append(kvs[:j+1], append([]btKV{dup}, kvs[j+1:]...)...)
		want = "DuplicateKey:Fatal"
	case 3: // a key repeated far away: its digest is out of order there (or a duplicate if equal)
		i := e.rng.Intn(len(kvs))
		kvs = append(kvs, kvs[i])
		if d0(kvs[len(kvs)-2].k) == d0(kvs[i].k) {
			want = "DuplicateKey:Fatal"
		} else {
			want = "Hash:Fatal"
		}
	case 4: // reversed stream
		for i, j := 0, len(kvs)-1; i < j; i, j = i+1, j-1 {
			kvs[i], kvs[j] = kvs[j], kvs[i]
		}
		if d0(kvs[0].k) == d0(kvs[len(kvs)-1].k) {
			e.st.Hit("mreject:skipped")
			return
		}
		want = "Hash:Fatal"
	default: // seed 0
		seed = 0
		want = "HashSeedUninitialized:Fatal"
	}
	e.st.Hit(fmt.Sprintf("mreject:kind=%d", kind))
	srcDump := e.dumpTree(atree.VerifMapRoot(src.m))
	x := e.mapBatch(kvs, src.b, btNewBuilderLike(src.b), src.L, seed, addrN, ty, want)
	if x != nil {
		return
	}
	if d := e.dumpTree(atree.VerifMapRoot(src.m)); d != srcDump {
		e.violation("rejected bulk build changed the source map")
	}
	e.checkMap("source after rejected bulk build", src, true)
}

func (e *btEnv) expectMapCopyable(x *btMap) bool {
	if !x.m.IsWithinSingleSlab() {
		return false
	}
	for _, p := range x.kvs {
		if p.v.Size > atree.VerifMaxInlineMapValueSize(p.k.Size) {
			return false
		}
	}
	// an external collision group is a slab reference
	return !strings.Contains(atree.VerifDumpSlab(atree.VerifMapRoot(x.m), btDescribe), "X(")
}

func (e *btEnv) mapCopy(what string, src *btMap, toAddr uint64) *btMap {
	e.skip()
	want := e.expectMapCopyable(src)
	e.w.L("OP mcan h=%d", src.h)
	can := src.m.CanCopyNonRefSimple()
	e.w.L("OBS ok:%v", can)
	e.ops++
	e.st.Hit(fmt.Sprintf("mcan:%v", can))
	if can != want {
		e.violation(fmt.Sprintf("%s: CanCopyNonRefSimple() = %v, but single-slab-of-plain-values = %v", what, can, want))
	}
	srcDump := e.dumpTree(atree.VerifMapRoot(src.m))
	h2 := e.handle()
	nb := btNewBuilderLike(src.b)
	e.w.L("OP mcopy h=%d to=%d addr=%d", src.h, h2, toAddr)
	cp, err := src.m.CopyNonRefSimple(hx.MkAddr(toAddr), nb)
	e.ops++
	if err != nil {
		e.w.L("OBS err:%s", btErrKind(err))
		e.emitEffects(false)
		e.st.Hit("mcopy:refused")
		if can {
			e.violation(fmt.Sprintf("%s: copy was offered but CopyNonRefSimple failed: %v", what, err))
		}
		if btErrKind(err) != "Copy:Fatal" {
			e.violation(fmt.Sprintf("%s: refused copy reported %s", what, btErrKind(err)))
		}
		if d := e.dumpTree(atree.VerifMapRoot(src.m)); d != srcDump {
			e.violation(what + ": refused copy changed the source")
		}
		return nil
	}
	e.w.L("OBS ok")
	e.emitEffects(true)
	e.w.L("MFULL h=%d %s", h2, e.dumpTree(atree.VerifMapRoot(cp)))
	e.st.Hit("mcopy:ok")
	if !can {
		e.violation(what + ": copy was not offered but CopyNonRefSimple succeeded")
	}
	e.roots++
	y := &btMap{h: h2, m: cp, b: nb, addr: hx.MkAddr(toAddr), ty: src.ty, L: src.L, kvs: append([]btKV(nil), src.kvs...)}
	if cp.Inlined() {
		e.violation(what + ": the copy is inlined")
	}
	if cp.Seed() != src.m.Seed() {
		e.violation(what + ": the copy has another seed")
	}
	if d := e.dumpTree(atree.VerifMapRoot(src.m)); d != srcDump {
		e.violation(what + ": copy changed the source")
	}
	e.checkMap(what+": copy", y, true)
	e.typeIndependence(what, src.m.Type(), cp.Type())
	e.health(what + ": after copy")
	return y
}

func (e *btEnv) scenarioMapCopy(kind int) {
	e.fresh()
	addrN := uint64(1 + e.rng.Intn(3))
	ty := hx.TI(uint64(e.rng.Intn(100)))
	toAddr := addrN
	if e.rng.Intn(2) == 0 {
		toAddr = uint64(1 + e.rng.Intn(5))
	}
	var n, mode, valProf int
	perElem := 30
	switch kind {
	case 0: // single slab, plain values, real digests
		n, mode, valProf = e.rng.Intn(int(e.T)/perElem+1), 0, 0
	case 1: // single slab with externalised values
		n, mode, valProf = 1+e.rng.Intn(3), 0, 2
	case 2: // multi slab
		n, mode, valProf = int(e.T)/8+e.rng.Intn(100), 0, 0
	case 3: // inline collision groups (several levels)
		n, mode, valProf = 1+e.rng.Intn(int(e.T)/(2*perElem)+1), 2+e.rng.Intn(2), 0
	case 4: // one big first-level group: external collision group
		n, mode, valProf = int(e.T)/20+e.rng.Intn(30), 5, 0
	case 6: // inline collision groups holding a REFERENCE (an externalised value inside a group)
		n, mode, valProf = 2+e.rng.Intn(int(e.T)/(3*perElem)+1), 2+e.rng.Intn(3), 0
	default: // few levels
		n, mode, valProf = 1+e.rng.Intn(int(e.T)/(2*perElem)+1), 4, 0
	}
	e.st.Hit(fmt.Sprintf("mcopy-source:kind=%d", kind))
	src0 := e.mapSource(n, mode, valProf, uint64(5), ty)
	if src0 == nil {
		return
	}
	if kind == 1 {
		// make sure at least one value is externalised
		k := e.mapKey()
		v := e.tv(e.maxElem + 5)
		if _, err := src0.m.Set(hx.CompareKey, hx.HashInput, k, v); err == nil {
			src0.kvs, _ = e.readMap(src0.m)
		}
	}
	if kind == 6 && len(src0.kvs) > 0 {
		// overwrite one or two existing (colliding) keys with a value too large to inline
		for j := 1 + e.rng.Intn(2); j > 0; j-- {
			k := src0.kvs[e.rng.Intn(len(src0.kvs))].k
			v := e.tv(e.maxElem + 5)
			if old, err := src0.m.Set(hx.CompareKey, hx.HashInput, k, v); err == nil {
				if id, ok := old.(atree.SlabIDStorable); ok {
					_ = e.rec.Remove(atree.SlabID(id))
				}
			}
		}
		src0.kvs, _ = e.readMap(src0.m)
	}
	// the traced source is the bulk-built twin of src0 (known to the model)
	src := e.mapBatch(src0.kvs, src0.b, btNewBuilderLike(src0.b), src0.L, src0.m.Seed(), addrN, ty, "")
	if src == nil {
		return
	}
	cp := e.mapCopy(fmt.Sprintf("map copy (source kind %d)", kind), src, toAddr)
	if cp != nil {
		e.mapIndependence("map copy", src, cp, true)
	}
}

func (e *btEnv) scenarioMapCopyInlined(withRef bool) {
	e.fresh()
	addrN := uint64(1 + e.rng.Intn(3))
	addr := hx.MkAddr(addrN)
	ty := hx.TI(uint64(e.rng.Intn(100)))
	parent, err := atree.NewArray(e.rec, addr, btType(hx.TI(7)))
	if err != nil {
		e.st.HarnessErr = "NewArray: " + err.Error()
		return
	}
	e.roots++
	// VerifyArray(parent) re-creates the child map with the default digester builder: real digests only
	mode := 0
	n := e.rng.Intn(4)
	src0 := e.mapSource(n, mode, 0, uint64(5), ty)
	if src0 == nil {
		return
	}
	if withRef {
		if _, err := src0.m.Set(hx.CompareKey, hx.HashInput, e.tv(4), e.tv(e.maxElem+5)); err == nil {
			src0.kvs, _ = e.readMap(src0.m)
		}
	}
	src := e.mapBatch(src0.kvs, src0.b, btNewBuilderLike(src0.b), src0.L, src0.m.Seed(), addrN, ty, "")
	if src == nil {
		return
	}
	if err := parent.Append(src.m); err != nil {
		e.st.HarnessErr = "parent.Append(child map): " + err.Error()
		return
	}
	if !src.m.Inlined() {
		e.st.Hit("mcopy-inlined:not-inlined")
		return
	}
	e.roots--
	e.skip()
	e.w.L("OP minline h=%d", src.h)
	e.w.L("MFULL h=%d %s", src.h, e.dumpTree(atree.VerifMapRoot(src.m)))
	e.st.Hit(fmt.Sprintf("mcopy-source:inlined ref=%v", withRef))
	what := fmt.Sprintf("map copy (inlined source, ref=%v)", withRef)
	want := e.expectMapCopyable(src)
	can := src.m.CanCopyNonRefSimple()
	if can != want {
		e.violation(fmt.Sprintf("%s: CanCopyNonRefSimple() = %v, want %v", what, can, want))
	}
	e.w.L("OP mcan h=%d", src.h)
	e.w.L("OBS ok:%v", can)
	h2 := e.handle()
	toAddr := uint64(1 + e.rng.Intn(4))
	nb := btNewBuilderLike(src.b)
	e.w.L("OP mcopy h=%d to=%d addr=%d", src.h, h2, toAddr)
	cp, err := src.m.CopyNonRefSimple(hx.MkAddr(toAddr), nb)
	e.ops += 2
	if err != nil {
		e.w.L("OBS err:%s", btErrKind(err))
		e.emitEffects(false)
		e.st.Hit("mcopy:refused")
		if can {
			e.violation(fmt.Sprintf("%s: copy was offered but failed: %v", what, err))
		}
	} else {
		e.w.L("OBS ok")
		e.emitEffects(true)
		e.w.L("MFULL h=%d %s", h2, e.dumpTree(atree.VerifMapRoot(cp)))
		e.st.Hit("mcopy:ok")
		if !can {
			e.violation(what + ": copy was not offered but succeeded")
		}
		e.roots++
		y := &btMap{h: h2, m: cp, b: nb, addr: hx.MkAddr(toAddr), ty: ty, L: src.L, kvs: append([]btKV(nil), src.kvs...)}
		if cp.Inlined() {
			e.violation(what + ": the copy is inlined")
		}
		e.checkMap(what+": copy", y, true)
		if sh := btShared(e.slabIDs(atree.VerifMapRoot(src.m)), e.slabIDs(atree.VerifMapRoot(cp))); len(sh) != 0 {
			e.violation(fmt.Sprintf("%s: source and copy share slab IDs %v", what, sh))
		}
		parentDump := e.dumpTree(atree.VerifArrayRoot(parent))
		e.mutateMapTraced(y, 1+e.rng.Intn(4))
		if d := e.dumpTree(atree.VerifArrayRoot(parent)); d != parentDump {
			e.violation(what + ": mutating the copy changed the parent of the source")
		}
		cpDump := e.dumpTree(atree.VerifMapRoot(cp))
		e.mutateMapUntraced(src, 1+e.rng.Intn(3))
		if d := e.dumpTree(atree.VerifMapRoot(cp)); d != cpDump {
			e.violation(what + ": mutating the inlined source changed the copy")
		}
		e.checkMap(what+": copy after mutating the source", y, false)
	}
	if err := atree.VerifyArray(parent, addr, hx.TI(7), btTIC, hx.HashInput, true); err != nil {
		e.violation(what + ": VerifyArray(parent): " + err.Error())
	}
	e.skip()
	e.health(what)
}

func (e *btEnv) scenarioMapCopyNested() {
	e.fresh()
	addr := hx.MkAddr(1)
	b := atree.NewDefaultDigesterBuilder()
	src, err := atree.NewMap(e.rec, addr, b, btType(hx.TI(1)))
	if err != nil {
		return
	}
	child, err := atree.NewArray(e.rec, addr, btType(hx.TI(2)))
	if err != nil {
		return
	}
	_ = child.Append(e.tv(5))
	_, _ = src.Set(hx.CompareKey, hx.HashInput, e.tv(4), e.tv(4))
	_, _ = src.Set(hx.CompareKey, hx.HashInput, e.tv(5), child)
	e.st.Hit("mcopy-source:nested")
	if src.CanCopyNonRefSimple() {
		e.violation("map with a nested container: copy is offered")
	}
	if _, err := src.CopyNonRefSimple(addr, atree.NewDefaultDigesterBuilder()); err == nil {
		e.violation("map with a nested container: CopyNonRefSimple succeeded")
	} else if btErrKind(err) != "Copy:Fatal" {
		e.violation("map with a nested container: refused copy reported " + btErrKind(err))
	}
	e.ops += 2
	e.skip()
}

// ---------------------------------------------------------------------------------------------

func batchStream(cfg *Config) *hx.Stats {
	st := hx.NewStats("batch", cfg.Seed)
	rng := rand.New(rand.NewSource(cfg.Seed*4409 + 29))
	w := hx.NewW(filepath.Join(cfg.Out, fmt.Sprintf("batch-%d.trace", cfg.Seed)))
	defer w.Close()
	st.TraceFiles = append(st.TraceFiles, w.Path)
	thresholds := []uint32{256, 512, 1024, 256, 32768, 0, 256, 512, 1024, 257, 0, 511}
	nProg := int(12 * cfg.Scale)
	if nProg < 1 {
		nProg = 1
	}
	e := &btEnv{w: w, st: st, cfg: cfg, rng: rng, climit: 255}
	atree.VerifSetMaxCollisionLimitPerDigest(255)
	seen := map[string]bool{}
	for p := 0; p < nProg && len(st.Violations) <= 40 && st.HarnessErr == ""; p++ {
		T := thresholds[p%len(thresholds)]
		if T == 0 {
			T = 256 + uint32(rng.Intn(3000))
			if rng.Intn(4) == 0 {
				T = 256 + uint32(rng.Intn(32768-256+1))
			}
		}
		e.T = T
		e.prog = p
		e.step = 0
		_, maxThr, maxInl, _ := atree.VerifSetThreshold(T)
		_, _, _, _, maxElem, maxKey := atree.VerifThresholds()
		e.maxThr, e.maxInl, e.maxElem, e.maxKey = maxThr, maxInl, maxElem, maxKey
		st.Dist[fmt.Sprintf("T=%d", T)]++
		big := T >= 8192
		capN := 3200
		if T <= 300 {
			capN = 6000
		}
		if big {
			capN = 1500
		}

		// --- array builds: random lengths with every size mix
		nBuilds := 46
		if big {
			nBuilds = 14
		}
		for i := 0; i < nBuilds; i++ {
			var n int
			switch r := rng.Intn(20); {
			case r < 2:
				n = rng.Intn(4)
			case r < 8:
				n = rng.Intn(40)
			case r < 17:
				n = rng.Intn(600)
			default:
				n = rng.Intn(capN)
			}
			prof := rng.Intn(8)
			if (prof == 3 || prof == 6) && n > 1500 {
				n = 1500 // externalised values: two storage calls each
			}
			if big && prof == 0 && n > 300 {
				n = 300 // keep the tiny-element slabs of a 32 KiB threshold affordable for the model
			}
			e.scenarioArrayBuild(n, prof, 0)
			seen[fmt.Sprintf("ab/%d/%d/%d", T, prof, n)] = true
		}
		// --- array builds at the critical lengths of uniform streams: lengths that leave an underfull
		// last data slab and an underfull last index slab at every level that is affordable
		for si, sz := range []uint32{maxInl, maxInl/2 + 1, maxInl + 7, 2 + uint32(rng.Intn(int(maxInl)))} {
			if big && sz < 200 {
				continue
			}
			cap := capN
			if T > 300 && T <= 600 && si == 0 {
				cap = 9000 // one two-level tail at a mid-size threshold
			}
			if cfg.Scale >= 20 && si == 0 && p%20 == 0 {
				cap = 40000 // thorough tier: tens of thousands of elements
			}
			if sz > maxInl && cap > 2000 {
				cap = 2000 // every element is externalised: two storage calls each
			}
			crit := e.criticalLengths(sz, cap)
			sort.Slice(crit, func(i, j int) bool { return crit[i] > crit[j] })
			take := 5
			if big {
				take = 3
			}
			for i, n := range crit {
				// always the longest one (deepest tree), and a random sample of the rest
				if i >= 1 && rng.Intn(len(crit)) >= take {
					continue
				}
				e.scenarioArrayBuild(n, 0, sz)
				st.Hit("abatch:critical-length")
				seen[fmt.Sprintf("ac/%d/%d/%d", T, sz, n)] = true
			}
		}
		for i := 0; i < 8; i++ {
			f := 0
			if i < 3 {
				f = i + 1 // directed: merge into a root data slab, into the last of two / three leaves
			}
			e.scenarioArrayMergeProne(f)
		}
		// --- copies
		for i := 0; i < 16; i++ {
			e.scenarioArrayCopy(rng.Intn(5))
		}
		for i := 0; i < 6; i++ {
			e.scenarioArrayCopyInlined(i%2 == 1)
		}
		e.scenarioArrayCopyNested()
		// --- bytes
		nBytes := 12
		if big {
			nBytes = 4
		}
		for i := 0; i < nBytes; i++ {
			e.scenarioBytes()
		}
		e.scenarioBytesReject()
		// --- directed (audit a1, F4 / F9): see batch_fx9f.go
		e.scenarioBytesNonByte(false, rng.Intn(3))
		e.scenarioBytesNonByte(true, 2)
		e.scenarioBytesNonByte(true, rng.Intn(2))
		e.scenarioBytesBoundary()
		e.scenarioArrayProviderFails(0, false)
		e.scenarioArrayProviderFails(1+rng.Intn(5), true)
		e.scenarioArrayProviderFails(20+rng.Intn(200), true)
		// --- map builds
		nMaps := 30
		if big {
			nMaps = 8
		}
		for i := 0; i < nMaps; i++ {
			var n int
			switch r := rng.Intn(20); {
			case r < 2:
				n = rng.Intn(3)
			case r < 8:
				n = rng.Intn(30)
			case r < 17:
				n = rng.Intn(300)
			default:
				n = rng.Intn(capN / 2)
			}
			mode := rng.Intn(6)
			if mode == 5 && n > 400 {
				n = 400
			}
			valProf := rng.Intn(7)
			if valProf == 6 {
				valProf = 5
			}
			e.scenarioMapBuild(n, mode, valProf)
			seen[fmt.Sprintf("mb/%d/%d/%d/%d", T, mode, valProf, n)] = true
		}
		// --- directed (fx13c, sweep s4 p18): the last two data slabs merge; 1, 2, 3 data slabs remain
		for i := 0; i < 5; i++ {
			f := 0
			if i < 3 {
				f = i + 1
			}
			e.scenarioMapMergeProne(f, i == 1 || i == 4)
		}
		for i := 0; i < 12; i++ {
			e.scenarioMapReject(i%6, rng.Intn(5))
		}
		// --- directed (audit a1, F4 / F9): see batch_fx9f.go
		e.scenarioMapLimit(uint32(p % 4))
		e.scenarioMapLimit(uint32(rng.Intn(4)))
		e.scenarioMapRejectLarge(1, 0)
		e.scenarioMapRejectLarge(2+rng.Intn(40), rng.Intn(2))
		if T == 1024 {
			e.scenarioMapRejectLarge(400, 0) // the audit's: 400 large values, then the last key again
		}
		for i := 0; i < 3; i++ {
			e.scenarioMapBigKey(i)
		}
		for i := 0; i < 16; i++ {
			e.scenarioMapCopy(rng.Intn(7))
		}
		for i := 0; i < 4; i++ {
			e.scenarioMapCopyInlined(i%2 == 1)
		}
		e.scenarioMapCopyNested()
		st.Programs++
	}
	batchCheckRequired(st)
	st.Ops = e.ops
	st.TraceLines = w.Lines
	st.Distinct = len(seen)
	st.Samples = append(st.Samples, fmt.Sprintf("programs=%d ops=%d lines=%d", st.Programs, e.ops, w.Lines))
	atree.VerifSetThreshold(1024)
	atree.VerifSetMaxCollisionLimitPerDigest(255)
	return st
}
