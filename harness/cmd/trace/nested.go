package main

import (
	"encoding/binary"
	"fmt"
	"math/rand"
	"path/filepath"
	"sort"
	"strings"

	"github.com/onflow/atree"

	"verifharness/hx"
)

// The nested stream (C10, C11, C09): containers inside containers (arrays and maps, wrapped or
// not, depth >= 3), mutated through the handles obtained when they were created or re-fetched
// top-down after a reload (one current handle per container: the "HandlesCurrent" discipline),
// parents restructured between child operations, children detached (removed / overwritten),
// mutated while detached, re-attached elsewhere; commits and reloads in between.
//
// Extended generators (audit a5; `ext`, set by the registered stream only - the codec stream's
// nested harvest keeps its own, older operation mix): operations INSIDE detached subtrees (new
// children, SetType, detach, re-attach), `Set(i, existing detached container)`, re-wrapping a
// standalone child in its own slot, plain values above the inline limit inside children, ~5%
// rejected requests through nested handles, and - every third program - a hash-input provider under
// which keys collide on all four digest levels (children inside inline / external collision groups,
// inlined maps that own a standalone collision-group slab).

func init() { streams["nested"] = nestedStream }

type sval struct {
	tv    hx.TV
	child *node
	wrap  int
}

type node struct {
	h      int
	kind   byte // 'a' or 'm'
	arr    *atree.Array
	mp     *atree.OrderedMap
	vid    string
	parent *node
	elems  []sval         // arrays
	kv     map[hx.TV]sval // maps
	live   bool           // not disposed
	ty     uint64         // type info given at creation
	// C11 bookkeeping of a container that has left its parent: the inline budget its (former)
	// parent's callback captured, and whether a not-found notification must have happened since
	budget      uint32
	hasBudget   bool
	wantCleared bool
	wrap        int   // wrappers around it in the slot of its parent (valid while parent != nil)
	gen         int   // how often the program replaced its handle (lookup, mutable iteration, reopen)
	formerP     *node // the container it was detached from, and that container's gen at that moment
	formerGen   int
	idxReported bool // the mutableElementIndex oracle has spoken about this array
	inlReported bool // the inline-rule oracle has spoken about this container
}

type nestEnv struct {
	w        *hx.W
	st       *hx.Stats
	cfg      *Config
	rng      *rand.Rand
	T        uint32
	ledger   *hx.Ledger
	ps       *atree.PersistentSlabStorage
	rec      *hx.RecStorage
	addr     atree.Address
	root     *node
	nodes    []*node
	detached []*node
	nextPay  uint64
	prog     int
	step     int
	b        atree.DigesterBuilder
	force    int  // mutatePlain: 0 random, 1 always insert, 2 remove when possible
	tiny     bool // plain values of 3..7 bytes (fine-grained walks across the inline limit)
	ext      bool // extended generators and oracles (see the head of this file)
	coll     bool // keys collide on every digest level (hx.HashInputBucket)
	mutated  bool // the last mutatePlain changed its container
	// store-set oracles (nestedstores.go)
	sw                                       *storeWatch
	ancestorWriteReported, sameBytesReported bool
	abandoned                                bool // nestfail.go: the history cannot be continued (counted there)
}

// hi is the hash-input provider of the program.
func (e *nestEnv) hi() atree.HashInputProvider {
	if e.coll {
		return hx.HashInputBucket
	}
	return hx.HashInput
}

// violations files one finding under several properties.
func (e *nestEnv) violations(props []string, what string) {
	for _, p := range props {
		e.violation(p, what)
	}
}

func (e *nestEnv) violation(prop, what string) {
	e.st.Violations = append(e.st.Violations, hx.Violation{
		Property: prop, Stream: e.st.Stream, Seed: e.cfg.Seed, Program: e.prog, Step: e.step, What: what, Trace: e.w.Path, Line: e.w.Lines,
	})
}

func (e *nestEnv) emitEffects() {
	e.w.L("EFF %s", hx.NetEffect(e.rec.Effs))
	for _, id := range hx.StoredIDs(e.rec.Effs) {
		s, ok, err := e.ps.Retrieve(id)
		if err != nil || !ok {
			e.w.L("SLB MISSING(%s)", hx.IDStr(id))
			continue
		}
		d := atree.VerifDumpSlab(s, hx.Describe)
		e.w.L("SLB %s", d)
		e.noteStore(id, d)
	}
	e.closeStores(e.rec.Effs)
	e.rec.Reset()
}

func (e *nestEnv) plain(prof int) hx.TV {
	if e.tiny {
		e.nextPay++
		return hx.TV{Size: uint32(3 + e.rng.Intn(5)), Pay: e.nextPay}
	}
	maxInl := (e.T - 21) / 2
	var size uint32
	switch prof {
	case 0:
		size = uint32(3 + e.rng.Intn(10))
	case 1:
		size = uint32(10 + e.rng.Intn(40))
	case 2:
		size = maxInl/3 + uint32(e.rng.Intn(10))
	default:
		size = uint32(3 + e.rng.Intn(int(maxInl/2)))
	}
	if e.ext && e.rng.Intn(6) == 0 {
		// around and above the inline limit: the value leaves the child's slab (StorableSlab)
		size = maxInl - 8 + uint32(e.rng.Intn(60))
	}
	e.nextPay++
	p := e.nextPay
	for !hx.ValidTV(size, p) {
		p %= 200
		if !hx.ValidTV(size, p) {
			size++
		}
	}
	return hx.TV{Size: size, Pay: p}
}

func (n *node) value(wrap int) atree.Value {
	var v atree.Value
	if n.kind == 'a' {
		v = n.arr
	} else {
		v = n.mp
	}
	for i := 0; i < wrap; i++ {
		v = hx.SomeValue{V: v}
	}
	return v
}

func (e *nestEnv) newNode(kind byte) *node {
	n := &node{h: len(e.nodes), kind: kind, live: true}
	// most containers draw their type from a small set so that sibling inlined children repeat
	// type infos in arbitrary order (the encoder then emits type-info references, C07)
	n.ty = uint64(10 + n.h)
	if e.rng.Intn(5) != 0 {
		n.ty = uint64(43 + e.rng.Intn(3))
	}
	var err error
	if kind == 'a' {
		n.arr, err = atree.NewArray(e.rec, e.addr, hx.TI(n.ty))
		if err == nil {
			n.vid = n.arr.ValueID().String()
			e.w.L("WNEW h=%d kind=a addr=%d ty=%d", n.h, e.addr[7], n.ty)
		}
	} else {
		n.mp, err = atree.NewMap(e.rec, e.addr, atree.NewDefaultDigesterBuilder(), hx.TI(n.ty))
		n.kv = map[hx.TV]sval{}
		if err == nil {
			n.vid = n.mp.ValueID().String()
			e.w.L("WNEW h=%d kind=m addr=%d ty=%d L=4 climit=255 seed=%d", n.h, e.addr[7], n.ty, n.mp.Seed())
		}
	}
	if err != nil {
		e.st.HarnessErr = "new container: " + err.Error()
		return nil
	}
	e.emitEffects()
	e.nodes = append(e.nodes, n)
	return n
}

func (e *nestEnv) keyStr(n *node, k hx.TV) string {
	// every map uses its own seeded default digester; ask the map's builder
	b := atree.VerifMapDigesterBuilder(n.mp)
	digs, err := hx.DigestsWith(b, e.hi(), k)
	if err != nil {
		// the builder the library gave this map cannot digest a plain key: no request on the map can work
		if e.st.HarnessErr == "" {
			e.violation("*", fmt.Sprintf("the digester builder of map %d (container %s, as the library set it up) fails to digest a key: %v", n.h, n.vid, err))
			e.st.HarnessErr = "nested: stopped, the digester builder of a map handed out by the library is unusable (see violation)"
		}
		return fmt.Sprintf("%d:%d@?", k.Size, k.Pay)
	}
	parts := make([]string, len(digs))
	for i, d := range digs {
		parts[i] = fmt.Sprintf("%d", d)
	}
	return fmt.Sprintf("%d:%d@%s", k.Size, k.Pay, strings.Join(parts, ","))
}

func valStr(v sval) string {
	if v.child != nil {
		return fmt.Sprintf("C%dw%d", v.child.h, v.wrap)
	}
	return fmt.Sprintf("%d:%d", v.tv.Size, v.tv.Pay)
}

func (v sval) atreeValue() atree.Value {
	if v.child != nil {
		return v.child.value(v.wrap)
	}
	return v.tv
}

// attached reports whether n hangs (transitively) under the root.
func (e *nestEnv) attached(n *node) bool {
	for x := n; x != nil; x = x.parent {
		if x == e.root {
			return true
		}
	}
	return false
}

// inSubtree reports whether x is top or nested (transitively) in it.
func inSubtree(x, top *node) bool {
	for y := x; y != nil; y = y.parent {
		if y == top {
			return true
		}
	}
	return false
}

// topOf is the outermost container of the family n belongs to (the root or a detached container).
func topOf(n *node) *node {
	for n.parent != nil {
		n = n.parent
	}
	return n
}

// target: may an operation that used to be restricted to the attached family pick n?  With the
// extended generators it may pick any live container, also one inside a detached subtree.
func (e *nestEnv) target(n *node) bool {
	if !e.ext {
		return e.attached(n)
	}
	return !e.staleClosure(topOf(n))
}

// staleClosure: x is a detached container whose handle still carries the callback of its former
// parent, a MAP, and the program has since replaced its handle of that map (lookup, mutable
// iteration).  The closure keeps the OLD handle object of the map alive: a second live handle that
// the program cannot re-fetch away.  If the map's root slab is then replaced through the new handle,
// the next notification of x walks the stale root (fatal SlabNotFound after the mutation has been
// applied): known finding F2c, reproduced deterministically by the dualhandle stream.  This stream
// keeps to ONE live handle object per container (NEST_ASSUME, HandlesCurrent) and therefore leaves
// such a family alone until x is attached again (which replaces the closure) or the closure is gone.
// (Array parents are harmless: the detaching Remove / Set erased x from the index of that same
// handle object, so the closure answers not-found before it touches any slab.)
func (e *nestEnv) staleClosure(x *node) bool {
	if !e.ext || x.parent != nil || x == e.root || x.formerP == nil || x.formerP.kind != 'm' {
		return false
	}
	return x.formerP.gen != x.formerGen && x.hasUpdater()
}

func (e *nestEnv) depth(n *node) int {
	d := 0
	for x := n; x.parent != nil; x = x.parent {
		d++
	}
	return d
}

func (e *nestEnv) pickContainer(pred func(*node) bool) *node {
	var c []*node
	for _, n := range e.nodes {
		if n.live && pred(n) {
			c = append(c, n)
		}
	}
	if len(c) == 0 {
		return nil
	}
	return c[e.rng.Intn(len(c))]
}

func nestedStream(cfg *Config) (res *hx.Stats) {
	st := hx.NewStats("nested", cfg.Seed)
	rng := rand.New(rand.NewSource(cfg.Seed*15485863 + 29))
	w := hx.NewW(filepath.Join(cfg.Out, fmt.Sprintf("nested-%d.trace", cfg.Seed)))
	defer w.Close()
	st.TraceFiles = append(st.TraceFiles, w.Path)
	// a panic inside a library call (sweep s4 m02: a child notifies a parent map whose index root was
	// emptied) is a violation with the history up to that request, not a dead process (recover.go)
	defer func() { atree.VerifSetThreshold(1024) }()
	defer recoverAsViolation(st, w, &res)
	nProg := int(16 * cfg.Scale)
	seen := map[string]bool{}
	nestedExotic(st, cfg, w) // scripted, model-free: container keys, oversized wrappers (nestedx.go)
	// registers of the collision programs nest deeper than the cbor library's default bound of 32
	// (4 collision levels = about 13 CBOR levels per map on the path): the caller's decoder option
	defer func(old int) { hx.DecNesting = old }(hx.DecNesting)
	hx.DecNesting = 1024
	for p := 0; p < nProg && st.HarnessErr == ""; p++ {
		T := []uint32{256, 512, 1024, 256}[p%4]
		e := &nestEnv{w: w, st: st, cfg: cfg, rng: rng, T: T, prog: p, ext: true, coll: p%3 == 2}
		runNestedProgram(e, 150+rng.Intn(250))
		st.Programs++
		seen[fmt.Sprintf("%d/%d/%d", T, len(e.nodes), e.step)] = true
		if len(st.Violations) > 10 || st.HarnessErr != "" {
			break
		}
	}
	st.Distinct = len(seen)
	st.TraceLines = w.Lines
	atree.VerifSetThreshold(1024)
	return st
}

func runNestedProgram(e *nestEnv, nOps int) {
	atree.VerifSetThreshold(e.T)
	e.ledger = hx.NewLedger()
	e.ps = hx.NewStorage(e.ledger)
	e.rec = hx.NewRecStorage(e.ps)
	e.addr = hx.MkAddr(uint64(1 + e.rng.Intn(3)))
	e.w.L("CFG T=%d", e.T)
	rootKind := byte('a')
	if e.rng.Intn(3) == 0 {
		rootKind = 'm'
	}
	e.root = e.newNode(rootKind)
	if e.root == nil {
		return
	}
	for e.step = 0; e.step < nOps && e.st.HarnessErr == ""; e.step++ {
		r := e.rng.Intn(100)
		switch {
		case r < 14:
			if e.ext && e.rng.Intn(6) == 0 {
				e.opNewChildStandalone() // (nestedstores.go)
			} else {
				e.opNewChild()
			}
		case r < 50:
			e.opMutate(false)
		case r < 60:
			e.opMutate(true) // through a detached handle
		case r < 70:
			e.opRestructureParent()
		case r < 78:
			e.opDetach()
		case r < 84:
			e.opReattach()
		case r < 88:
			e.opCommitReload()
		case r < 92:
			e.opPop()
		case r < 96:
			e.opRefetch()
		case r < 98:
			e.opReopen()
		case r < 100 && e.step%3 == 0:
			e.opBoundaryWalk()
		case r < 100 && e.step%3 == 1:
			e.opSetType()
		default:
			e.opReadBack()
		}
		if e.ext && e.st.HarnessErr == "" {
			if e.rng.Intn(100) < 5 {
				e.opRejected()
			}
			if e.rng.Intn(100) < 3 {
				e.opRewrap(nil)
			}
			e.handleState()
		}
		if len(e.st.Violations) > 10 {
			return
		}
		if e.step%20 == 19 || e.step == nOps-1 {
			e.fullCheck()
		}
	}
	e.st.Ops += nOps
	if e.st.HarnessErr == "" && len(e.st.Violations) == 0 {
		e.epilogueDeepRemove()
	}
	maxDepth := 0
	for _, n := range e.nodes {
		if e.attached(n) && e.depth(n) > maxDepth {
			maxDepth = e.depth(n)
		}
	}
	e.st.Dist[fmt.Sprintf("maxdepth=%d", maxDepth)]++
	if len(e.st.Samples) < 3 {
		e.st.Samples = append(e.st.Samples, fmt.Sprintf("T=%d ops=%d containers=%d detached=%d maxdepth=%d", e.T, nOps, len(e.nodes), len(e.detached), maxDepth))
	}
}

// insertInto puts value v into container p (array: at a random index or overwriting; map: under a key).
// It returns false if the library refused.
func (e *nestEnv) insertInto(p *node, v sval) bool {
	w := e.w
	if p.kind == 'a' {
		i := uint64(e.rng.Intn(len(p.elems) + 1))
		w.L("OP ains h=%d i=%d v=%s", p.h, i, valStr(v))
		err := p.arr.Insert(i, v.atreeValue())
		w.L("OBS %s", obsErr(err))
		e.emitEffects()
		if err != nil {
			e.violation("C10", fmt.Sprintf("insert of %s into container %d failed: %v", valStr(v), p.h, err))
			return false
		}
		p.elems = append(p.elems, sval{})
		copy(p.elems[i+1:], p.elems[i:])
		p.elems[i] = v
	} else {
		k := hx.TV{Size: 9, Pay: uint64(1 + e.rng.Intn(60))}
		for {
			if _, ok := p.kv[k]; !ok {
				break
			}
			k.Pay++
		}
		w.L("OP mset h=%d k=%s v=%s", p.h, e.keyStr(p, k), valStr(v))
		old, err := p.mp.Set(hx.CompareKey, e.hi(), k, v.atreeValue())
		if err != nil {
			w.L("OBS err:%s", hx.ErrKind(err))
			e.emitEffects()
			e.violation("C10", fmt.Sprintf("map set of %s into container %d failed: %v", valStr(v), p.h, err))
			return false
		}
		if old != nil {
			w.L("OBS ok:%s", renderStorable(old))
		} else {
			w.L("OBS ok:none")
		}
		e.emitEffects()
		p.kv[k] = v
	}
	if v.child != nil {
		v.child.parent, v.child.wrap = p, v.wrap
		v.child.hasBudget, v.child.wantCleared = false, false
	}
	e.mutatedDetached(p)
	return true
}

func (e *nestEnv) opNewChild() {
	p := e.pickContainer(func(n *node) bool { return e.target(n) && e.depth(n) < 4 })
	if p == nil {
		return
	}
	defer e.guardOthers("inserting a new child container", p)()
	kind := byte('a')
	if e.rng.Intn(3) == 0 {
		kind = 'm'
	}
	c := e.newNode(kind)
	if c == nil {
		return
	}
	// pre-populate a little while still standalone
	for i := e.rng.Intn(3); i > 0; i-- {
		e.mutatePlain(c, "C10")
	}
	wrap := 0
	if e.rng.Intn(4) == 0 {
		wrap = 1 + e.rng.Intn(2)
	}
	e.st.Hit(fmt.Sprintf("new-child-%c-in-%c-wrap%d", kind, p.kind, wrap))
	e.insertInto(p, sval{child: c, wrap: wrap})
}

// mutatePlain performs one plain-value mutation on container n through its current handle.
func (e *nestEnv) mutatePlain(n *node, prop string) {
	w := e.w
	e.mutated = false
	if e.ext && !e.tiny {
		defer e.guardOthers("a plain mutation", n)()
	}
	defer func() {
		if e.mutated {
			e.mutatedDetached(n)
			if e.ext {
				e.checkInlineRule(n)
			}
		}
	}()
	prof := e.rng.Intn(4)
	if n.kind == 'a' {
		r := e.rng.Intn(10)
		plainIdx := []int{}
		for i, v := range n.elems {
			if v.child == nil {
				plainIdx = append(plainIdx, i)
			}
		}
		if e.force == 1 {
			r = 0
		} else if e.force == 2 {
			r = 9
		}
		switch {
		case r < 5 || len(plainIdx) == 0:
			v := e.plain(prof)
			i := uint64(e.rng.Intn(len(n.elems) + 1))
			w.L("OP ains h=%d i=%d v=%d:%d", n.h, i, v.Size, v.Pay)
			err := n.arr.Insert(i, v)
			w.L("OBS %s", obsErr(err))
			e.emitEffects()
			if err != nil {
				e.violation(prop, fmt.Sprintf("insert into container %d failed: %v", n.h, err))
				return
			}
			n.elems = append(n.elems, sval{})
			copy(n.elems[i+1:], n.elems[i:])
			n.elems[i] = sval{tv: v}
			e.mutated = true
		case r < 7:
			i := plainIdx[e.rng.Intn(len(plainIdx))]
			v := e.plain(prof)
			w.L("OP aset h=%d i=%d v=%d:%d", n.h, i, v.Size, v.Pay)
			old, err := n.arr.Set(uint64(i), v)
			if err != nil {
				w.L("OBS err:%s", hx.ErrKind(err))
				e.emitEffects()
				e.violation(prop, fmt.Sprintf("set in container %d failed: %v", n.h, err))
				return
			}
			w.L("OBS ok:%s", renderStorable(old))
			e.emitEffects()
			e.disposeStorable(old)
			n.elems[i] = sval{tv: v}
			e.mutated = true
		default:
			i := plainIdx[e.rng.Intn(len(plainIdx))]
			w.L("OP arem h=%d i=%d", n.h, i)
			old, err := n.arr.Remove(uint64(i))
			if err != nil {
				w.L("OBS err:%s", hx.ErrKind(err))
				e.emitEffects()
				e.violation(prop, fmt.Sprintf("remove from container %d failed: %v", n.h, err))
				return
			}
			w.L("OBS ok:%s", renderStorable(old))
			e.emitEffects()
			e.disposeStorable(old)
			n.elems = append(n.elems[:i], n.elems[i+1:]...)
			e.mutated = true
		}
		return
	}
	// map
	var plainKeys []hx.TV
	for k, v := range n.kv {
		if v.child == nil {
			plainKeys = append(plainKeys, k)
		}
	}
	sort.Slice(plainKeys, func(i, j int) bool { return plainKeys[i].Pay < plainKeys[j].Pay })
	if e.force == 1 || (e.force == 0 && e.rng.Intn(10) < 6) || len(plainKeys) == 0 {
		k := hx.TV{Size: 9, Pay: uint64(100 + e.rng.Intn(80))}
		if ex, ok := n.kv[k]; ok && ex.child != nil {
			return
		}
		v := e.plain(prof)
		w.L("OP mset h=%d k=%s v=%d:%d", n.h, e.keyStr(n, k), v.Size, v.Pay)
		old, err := n.mp.Set(hx.CompareKey, e.hi(), k, v)
		if err != nil {
			w.L("OBS err:%s", hx.ErrKind(err))
			e.emitEffects()
			e.violation(prop, fmt.Sprintf("map set in container %d failed: %v", n.h, err))
			return
		}
		if old != nil {
			w.L("OBS ok:%s", renderStorable(old))
		} else {
			w.L("OBS ok:none")
		}
		e.emitEffects()
		if old != nil {
			e.disposeStorable(old)
		}
		n.kv[k] = sval{tv: v}
		e.mutated = true
	} else {
		k := plainKeys[e.rng.Intn(len(plainKeys))]
		w.L("OP mrem h=%d k=%s", n.h, e.keyStr(n, k))
		ks, vs, err := n.mp.Remove(hx.CompareKey, e.hi(), k)
		if err != nil {
			w.L("OBS err:%s", hx.ErrKind(err))
			e.emitEffects()
			e.violation(prop, fmt.Sprintf("map remove in container %d failed: %v", n.h, err))
			return
		}
		w.L("OBS ok:%s,%s", renderStorable(ks), renderStorable(vs))
		e.emitEffects()
		e.disposeStorable(vs)
		delete(n.kv, k)
		e.mutated = true
	}
}

func (e *nestEnv) disposeStorable(s atree.Storable) {
	if id, ok := s.(atree.SlabIDStorable); ok {
		e.w.L("DSP id=%s", hx.IDStr(atree.SlabID(id)))
		_ = e.ps.Remove(atree.SlabID(id))
	}
}

// deepRemove is the caller-side idiom for disposing of a value (cmd/smoke, Cadence): empty every
// container it holds with PopIterate, recursively, and remove the slab a reference points to.
func (e *nestEnv) deepRemove(s atree.Storable) { e.deepRemoveIn(e.rec, s) }

func (e *nestEnv) deepRemoveIn(st atree.SlabStorage, s atree.Storable) {
	v, err := s.StoredValue(st)
	if err != nil {
		e.violation("C09", fmt.Sprintf("a storable handed out by PopIterate does not resolve: %v", err))
		return
	}
	e.deepRemoveValueIn(st, v)
	inner := s
	for {
		ws, ok := inner.(atree.WrapperStorable)
		if !ok {
			break
		}
		inner = ws.UnwrapAtreeStorable()
	}
	if id, ok := inner.(atree.SlabIDStorable); ok {
		if err := st.Remove(atree.SlabID(id)); err != nil {
			e.violation("C09", fmt.Sprintf("removing referenced slab %s: %v", hx.IDStr(atree.SlabID(id)), err))
		}
	}
}

func (e *nestEnv) deepRemoveValue(v atree.Value) { e.deepRemoveValueIn(e.rec, v) }

func (e *nestEnv) deepRemoveValueIn(st atree.SlabStorage, v atree.Value) {
	for {
		sv, ok := v.(hx.SomeValue)
		if !ok {
			break
		}
		v = sv.V
	}
	var err error
	switch x := v.(type) {
	case *atree.Array:
		err = x.PopIterate(func(s atree.Storable) { e.deepRemoveIn(st, s) })
	case *atree.OrderedMap:
		err = x.PopIterate(func(k, v atree.Storable) { e.deepRemoveIn(st, k); e.deepRemoveIn(st, v) })
	}
	if err != nil {
		e.violation("C09", fmt.Sprintf("PopIterate during deep removal failed: %v", err))
	}
}

// epilogueDeepRemove (model-free, after the last compared trace line): every container that is still
// alive - the outermost one and the detached ones - is disposed of with the deep-removal idiom.
// C09: afterwards the storage holds no slab at all, pending or committed ("bulk pop releases every
// slab of the tree except the root" + the caller removes what was handed back).
func (e *nestEnv) epilogueDeepRemove() {
	e.st.Hit("epilogue-deep-remove")
	tops := append([]*node{e.root}, e.detached...)
	for _, n := range tops {
		e.deepRemoveValue(n.value(0))
		if err := e.rec.Remove(n.vidSlabID()); err != nil {
			e.violation("C09", fmt.Sprintf("removing root of container %d: %v", n.h, err))
		}
	}
	var left []string
	for id, sl := range atree.VerifDeltas(e.ps) {
		if sl != nil {
			left = append(left, hx.IDStr(id)+"(pending)")
		}
	}
	if err := e.ps.FastCommit(2); err != nil {
		e.violation("C09", "commit after deep removal failed: "+err.Error())
		return
	}
	for _, id := range e.ledger.SortedIDs() {
		left = append(left, hx.IDStr(id))
	}
	if len(left) > 0 {
		sort.Strings(left)
		e.violation("C09", fmt.Sprintf("after deep removal of every container (%d top-level, %d created) the storage still holds %d slabs: %s",
			len(tops), len(e.nodes), len(left), strings.Join(left, " ")))
	}
}

// kill marks every container nested in n (not n itself) as disposed of.
func (e *nestEnv) killDescendants(n *node) {
	for _, x := range e.nodes {
		if x == n || !x.live {
			continue
		}
		for y := x.parent; y != nil; y = y.parent {
			if y == n {
				x.live = false
				break
			}
		}
	}
	for _, x := range e.nodes {
		if !x.live {
			x.parent = nil
		}
	}
}

// adopt replaces the handle of the container that value v (possibly wrapped) denotes by v itself:
// from now on the program works with the handle the library just handed out.
func (e *nestEnv) adopt(v atree.Value, want *node, how string) bool {
	for {
		sv, ok := v.(hx.SomeValue)
		if !ok {
			break
		}
		v = sv.V
	}
	switch x := v.(type) {
	case *atree.Array:
		if want.kind != 'a' || x.ValueID().String() != want.vid {
			e.violation("C10", fmt.Sprintf("%s: expected container %d (%s), got array %s", how, want.h, want.vid, x.ValueID()))
			return false
		}
		want.arr = x
		want.gen++
	case *atree.OrderedMap:
		if want.kind != 'm' || x.ValueID().String() != want.vid {
			e.violation("C10", fmt.Sprintf("%s: expected container %d (%s), got map %s", how, want.h, want.vid, x.ValueID()))
			return false
		}
		want.mp = x
		want.gen++
	default:
		e.violation("C10", fmt.Sprintf("%s: expected container %d, got %T", how, want.h, v))
		return false
	}
	return true
}

func (e *nestEnv) sortedKeys(p *node) []hx.TV {
	keys := make([]hx.TV, 0, len(p.kv))
	for k := range p.kv {
		keys = append(keys, k)
	}
	sort.Slice(keys, func(i, j int) bool { return keys[i].Pay < keys[j].Pay })
	return keys
}

// getChild fetches the child at slot i / key k of p through the parent (Array.Get / OrderedMap.Get)
// and adopts the new handle.
func (e *nestEnv) getChildArr(p *node, i int) bool {
	c := p.elems[i].child
	e.w.L("OP aget h=%d i=%d", p.h, i)
	v, err := p.arr.Get(uint64(i))
	e.w.L("OBS %s", obsErr(err))
	e.emitEffects()
	if err != nil {
		e.violation("C10", fmt.Sprintf("Get(%d) on container %d failed: %v", i, p.h, err))
		return false
	}
	return e.adopt(v, c, fmt.Sprintf("Get(%d) on container %d", i, p.h))
}

func (e *nestEnv) getChildMap(p *node, k hx.TV) bool {
	c := p.kv[k].child
	e.w.L("OP mget h=%d k=%s", p.h, e.keyStr(p, k))
	v, err := p.mp.Get(hx.CompareKey, e.hi(), k)
	e.w.L("OBS %s", obsErr(err))
	e.emitEffects()
	if err != nil {
		e.violation("C10", fmt.Sprintf("Get(%d) on container %d failed: %v", k.Pay, p.h, err))
		return false
	}
	return e.adopt(v, c, fmt.Sprintf("Get(key %d) on container %d", k.Pay, p.h))
}

func hasChild(n *node) bool {
	for _, v := range n.elems {
		if v.child != nil {
			return true
		}
	}
	for _, v := range n.kv {
		if v.child != nil {
			return true
		}
	}
	return false
}

// opRefetch: C10 "a handle obtained on insertion, lookup or mutable iteration".  Obtains new handles
// for nested containers by lookup in the parent or by a mutable iteration over the parent, and
// continues with them.  One current handle per container: a child's callback is bound to the handle
// OBJECT of its parent, so after a container has been fetched again everything nested in it is
// fetched again through the new handle (otherwise the old parent handle stays in use behind the
// scenes: that is known finding F2b, exercised by the dualhandle stream).
func (e *nestEnv) opRefetch() {
	p := e.pickContainer(func(n *node) bool { return hasChild(n) })
	if p == nil {
		return
	}
	iterate := e.rng.Intn(2) == 0
	if !iterate {
		e.st.Hit("refetch-get")
		if p.kind == 'a' {
			var idx []int
			for i, v := range p.elems {
				if v.child != nil {
					idx = append(idx, i)
				}
			}
			i := idx[e.rng.Intn(len(idx))]
			if e.getChildArr(p, i) {
				e.refetchBelow(p.elems[i].child)
			}
		} else {
			var keys []hx.TV
			for _, k := range e.sortedKeys(p) {
				if p.kv[k].child != nil {
					keys = append(keys, k)
				}
			}
			k := keys[e.rng.Intn(len(keys))]
			if e.getChildMap(p, k) {
				e.refetchBelow(p.kv[k].child)
			}
		}
		return
	}
	e.refetchIterate(p)
}

// refetchIterate runs a mutable iteration over p: every child met gets a new handle (the trace
// records it as one lookup per child: the iterator installs the same callback as Get does).
func (e *nestEnv) refetchIterate(p *node) {
	e.st.Hit("refetch-iterate-" + string(p.kind))
	type met struct {
		i int
		k hx.TV
		v atree.Value
	}
	var seen []met
	var err error
	if p.kind == 'a' {
		i := 0
		err = p.arr.Iterate(func(v atree.Value) (bool, error) {
			if i < len(p.elems) && p.elems[i].child != nil {
				seen = append(seen, met{i: i, v: v})
			}
			i++
			return true, nil
		})
	} else {
		err = p.mp.Iterate(hx.CompareKey, e.hi(), func(k, v atree.Value) (bool, error) {
			kt, _ := k.(hx.TV)
			if sv, ok := p.kv[kt]; ok && sv.child != nil {
				seen = append(seen, met{k: kt, v: v})
			}
			return true, nil
		})
	}
	if err != nil {
		e.violation("C13", fmt.Sprintf("mutable iteration over container %d failed: %v", p.h, err))
		return
	}
	nChildren := 0
	for _, v := range p.elems {
		if v.child != nil {
			nChildren++
		}
	}
	for _, v := range p.kv {
		if v.child != nil {
			nChildren++
		}
	}
	if len(seen) != nChildren {
		e.violation("C13", fmt.Sprintf("mutable iteration over container %d met %d of its %d child containers", p.h, len(seen), nChildren))
		return
	}
	for _, m := range seen {
		if p.kind == 'a' {
			e.w.L("OP aget h=%d i=%d", p.h, m.i)
			e.w.L("OBS ok")
			e.emitEffects()
			if e.adopt(m.v, p.elems[m.i].child, fmt.Sprintf("mutable iteration over container %d at %d", p.h, m.i)) {
				e.refetchBelow(p.elems[m.i].child)
			}
		} else {
			e.w.L("OP mget h=%d k=%s", p.h, e.keyStr(p, m.k))
			e.w.L("OBS ok")
			e.emitEffects()
			if e.adopt(m.v, p.kv[m.k].child, fmt.Sprintf("mutable iteration over container %d at key %d", p.h, m.k.Pay)) {
				e.refetchBelow(p.kv[m.k].child)
			}
		}
	}
}

// refetchBelow re-fetches, top-down, every container nested in n.
func (e *nestEnv) refetchBelow(n *node) bool {
	if n.kind == 'a' {
		for i, v := range n.elems {
			if v.child != nil {
				if !e.getChildArr(n, i) || !e.refetchBelow(v.child) {
					return false
				}
			}
		}
		return true
	}
	for _, k := range e.sortedKeys(n) {
		if c := n.kv[k].child; c != nil {
			if !e.getChildMap(n, k) || !e.refetchBelow(c) {
				return false
			}
		}
	}
	return true
}

// opReopen commits and CONTINUES on a brand-new storage over the same ledger: every top-level
// container is reopened by its root ID, every nested one fetched again through its parent.
// (C10 "persisted by the next commit", C03, C08: the program goes on with what the registers say.)
func (e *nestEnv) opReopen() {
	e.w.L("COMMIT workers=2")
	err := e.ps.FastCommit(2)
	e.w.L("OBS %s", obsErr(err))
	if err != nil {
		e.violation("C10", "commit failed: "+err.Error())
		return
	}
	e.st.Hit("reopen")
	tops := append([]*node{e.root}, e.detached...)
	ids := make([]atree.SlabID, len(tops))
	for i, n := range tops {
		ids[i] = n.vidSlabID()
	}
	e.w.L("REOPEN")
	e.ps = hx.NewStorage(e.ledger)
	e.rec = hx.NewRecStorage(e.ps)
	for i, n := range tops {
		var err error
		n.gen++
		if n.kind == 'a' {
			n.arr, err = atree.NewArrayWithRootID(e.rec, ids[i])
		} else {
			n.mp, err = atree.NewMapWithRootID(e.rec, ids[i], atree.NewDefaultDigesterBuilder())
		}
		if err != nil {
			e.violation("C03", fmt.Sprintf("container %d cannot be reopened by its root ID after commit: %v", n.h, err))
			e.st.HarnessErr = "reopen failed (see violation)"
			return
		}
	}
	e.rec.Reset()
	for _, n := range tops {
		if !e.refetchBelow(n) {
			e.st.HarnessErr = "re-fetch after reopen failed (see violation)"
			return
		}
	}
	e.opReadBack()
	e.verifyRoot("after reopening on a fresh storage")
}

// opBoundaryWalk: C10 "children growing and shrinking across the inline limit in both directions".
// A nested container is grown with tiny values until it leaves its parent slab, its handle is
// (usually) obtained again while it is standalone - by lookup or by mutable iteration over the
// parent - and it is then shrunk, a few bytes at a time, until it is inlined again.
func (e *nestEnv) opBoundaryWalk() {
	c := e.pickContainer(func(n *node) bool { return n != e.root && n.parent != nil && e.attached(n) })
	if c == nil {
		return
	}
	inl := func() bool {
		if c.kind == 'a' {
			return c.arr.Inlined()
		}
		return c.mp.Inlined()
	}
	nv := len(e.st.Violations)
	ok := func() bool { return len(e.st.Violations) == nv && e.st.HarnessErr == "" }
	e.tiny = true
	defer func() { e.tiny, e.force = false, 0 }()
	e.force = 1
	for i := 0; i < 400 && inl() && ok(); i++ {
		e.mutatePlain(c, "C10")
	}
	if inl() || !ok() {
		return
	}
	for i := e.rng.Intn(4); i > 0 && ok(); i-- {
		e.mutatePlain(c, "C10")
	}
	e.st.Hit(fmt.Sprintf("boundary-walk-%c-in-%c", c.kind, c.parent.kind))
	switch e.rng.Intn(3) {
	case 0:
		p := c.parent
		if p.kind == 'a' {
			for i, v := range p.elems {
				if v.child == c && e.getChildArr(p, i) {
					e.refetchBelow(c)
				}
			}
		} else {
			for _, k := range e.sortedKeys(p) {
				if p.kv[k].child == c && e.getChildMap(p, k) {
					e.refetchBelow(c)
				}
			}
		}
	case 1:
		e.refetchIterate(c.parent)
	case 2:
		if e.ext {
			e.tiny = false // (the replacement wrappers are not tiny values; keeps the C11 guard on)
			e.opRewrap(c)
			e.tiny = true
		}
	}
	e.force = 2
	hasPlain := func() bool {
		for _, v := range c.elems {
			if v.child == nil {
				return true
			}
		}
		for _, v := range c.kv {
			if v.child == nil {
				return true
			}
		}
		return false
	}
	for i := 0; i < 800 && !inl() && hasPlain() && ok(); i++ {
		if !e.landNear(c) { // exactly budget+1, then exactly the budget (nestedstores.go)
			e.mutatePlain(c, "C10")
		}
	}
	for i := 0; i < 3 && hasPlain() && ok(); i++ {
		e.mutatePlain(c, "C10")
	}
	if ok() {
		e.opReadBack()
		e.verifyRoot(fmt.Sprintf("after walking container %d across the inline limit", c.h))
	}
}

// opSetType changes the type info of a container through its handle (C10: for an inlined child the
// type lives in the parent's slab, so the parent must be rewritten; C07: read back after reload).
func (e *nestEnv) opSetType() {
	n := e.pickContainer(func(x *node) bool { return e.target(x) })
	if n == nil {
		return
	}
	defer e.guardOthers("SetType", n)()
	ty := uint64(43 + e.rng.Intn(3))
	if e.rng.Intn(4) == 0 {
		ty = uint64(60 + e.rng.Intn(30))
	}
	e.w.L("OP sty h=%d ty=%d", n.h, ty)
	var err error
	if n.kind == 'a' {
		err = n.arr.SetType(hx.TI(ty))
	} else {
		err = n.mp.SetType(hx.TI(ty))
	}
	e.w.L("OBS %s", obsErr(err))
	e.emitEffects()
	if err != nil {
		e.violation("C10", fmt.Sprintf("SetType on container %d failed: %v", n.h, err))
		return
	}
	e.st.Hit("set-type")
	n.ty = ty
}

// opPop empties a container through its own handle with PopIterate - the outermost container, a
// container nested at any depth (inlined or standalone), or a detached one - and disposes of
// everything handed to the callback with the deep-removal idiom.  C10: the parent must stay valid
// and show the emptied child; C01/C02: the emptied container is usable again; C11: emptying a
// detached container does not touch its former parent.
func (e *nestEnv) opPop() {
	var n *node
	detached := len(e.detached) > 0 && e.rng.Intn(4) == 0
	if detached {
		n = e.detached[e.rng.Intn(len(e.detached))]
		if e.staleClosure(n) {
			e.st.Hit("skip-stale-closure-family")
			return
		}
	} else {
		nonEmpty := func(x *node) bool { return e.attached(x) && len(x.elems)+len(x.kv) > 0 }
		if e.rng.Intn(4) == 0 {
			nonEmpty = func(x *node) bool { return e.attached(x) }
		}
		// popping the outermost container ends most of the program's structure: keep it rare
		n = e.pickContainer(func(x *node) bool { return nonEmpty(x) && (x != e.root || e.rng.Intn(6) == 0) })
	}
	if n == nil {
		return
	}
	w := e.w
	before := ""
	if detached {
		before = e.dumpRoot()
	}
	if e.ext {
		defer e.guardOthers("PopIterate", n)()
	}
	// the caller may keep ONE of the popped child containers alive for a while instead of disposing
	// of it at once (C11: a handle that outlives the removal of its container)
	var keep *node
	keepWrap := 0
	if e.rng.Intn(2) == 0 {
		var kids []sval
		for _, v := range n.elems {
			if v.child != nil {
				kids = append(kids, v)
			}
		}
		for _, k := range e.sortedKeys(n) {
			if v := n.kv[k]; v.child != nil {
				kids = append(kids, v)
			}
		}
		if len(kids) > 0 {
			kv := kids[e.rng.Intn(len(kids))]
			keep, keepWrap = kv.child, kv.wrap
		}
	}
	keepArg := ""
	if keep != nil {
		keepArg = fmt.Sprintf(" keep=%d", keep.h)
	}
	var got []atree.Storable
	var obs []string
	var err error
	if n.kind == 'a' {
		w.L("OP apop h=%d%s", n.h, keepArg)
		err = n.arr.PopIterate(func(s atree.Storable) {
			got = append(got, s)
			obs = append(obs, renderStorable(s))
		})
	} else {
		w.L("OP mpop h=%d%s", n.h, keepArg)
		err = n.mp.PopIterate(func(k, v atree.Storable) {
			got = append(got, k, v)
			obs = append(obs, renderStorable(k)+","+renderStorable(v))
		})
	}
	if err != nil {
		w.L("OBS err:%s", hx.ErrKind(err))
		e.emitEffects()
		e.violation("C10", fmt.Sprintf("PopIterate through the handle of container %d failed: %v", n.h, err))
		return
	}
	w.L("OBS ok:%s", strings.Join(obs, "|"))
	e.emitEffects()
	e.st.Hit(fmt.Sprintf("pop-%c-depth%d-detached=%v", n.kind, e.depth(n), detached))
	// the caller disposes of everything it was handed (not through the recording storage: the
	// effects of the disposal are the caller's, not the operation's)
	keptStandalone := false
	for _, s := range got {
		if keep != nil {
			if id, kind, ok := storableContainerID(s); ok && fmt.Sprintf("0x%x.%d", id.AddressAsUint64(), id.IndexAsUint64()) == keep.vid {
				keptStandalone = kind == 'r'
				continue
			}
		}
		if id, ok := s.(atree.SlabIDStorable); ok {
			if _, isCont := e.nodeByID(atree.SlabID(id)); !isCont {
				w.L("DSP id=%s", hx.IDStr(atree.SlabID(id)))
			}
		}
		e.deepRemoveIn(e.ps, s)
	}
	n.elems = nil
	if n.kind == 'm' {
		n.kv = map[hx.TV]sval{}
	}
	if keep != nil {
		keep.parent = nil // its subtree survives the disposal of the rest
		e.noteDetached(keep, n, keepWrap)
	}
	e.killDescendants(n)
	e.mutatedDetached(n)
	if keep != nil {
		e.st.Hit(fmt.Sprintf("pop-keep-standalone=%v", keptStandalone))
		if keptStandalone {
			// a popped standalone child is simply a detached container from now on
			e.detached = append(e.detached, keep)
		} else {
			// a popped INLINED child lives only in memory; its handle still carries the closure of
			// its former parent.  Mutating it must not touch the (emptied) former parent.
			beforeRoot, beforeN := e.dumpRoot(), e.countOf(n)
			e.mutatePlain(keep, "C11")
			if after := e.dumpRoot(); after != beforeRoot || e.countOf(n) != beforeN {
				e.violation("C11", fmt.Sprintf("mutation through the handle of container %d, handed out by PopIterate of container %d, changed the former parent", keep.h, n.h))
			}
			if e.ext && e.mutated {
				// the popped slab is still flagged inlined: its callback cannot return early, looks
				// for the container in the emptied former parent, finds nothing
				if keep.hasUpdater() {
					e.violation("C11", fmt.Sprintf("container %d, popped inlined from container %d, was mutated through its handle: the callback cannot have found it in the emptied former parent, yet the handle still carries the callback (not cleared after a not-found)", keep.h, n.h))
				}
				e.handleState()
			}
			e.deepRemoveValueIn(e.ps, keep.value(0))
			// (the handle of a kept child works on the recording storage: what its disposal releases -
			// external collision groups, nested standalone slabs - is the caller's, not an operation's)
			e.rec.Reset()
			w.L("FORGET h=%d", keep.h)
			keep.live = false
			e.killDescendants(keep)
		}
	}
	if detached {
		if after := e.dumpRoot(); after != before {
			e.violation("C11", fmt.Sprintf("PopIterate through the handle of detached container %d changed the former parent", n.h))
		}
		return
	}
	// C10: visible through the parent, every ancestor structurally valid
	nv := len(e.st.Violations)
	e.opReadBack()
	e.verifyRoot(fmt.Sprintf("after PopIterate through the handle of container %d", n.h))
	if len(e.st.Violations) > nv {
		return
	}
	// the emptied container must be usable again (its bookkeeping about former children is gone)
	// (C01/C02: in-range requests on the emptied container never fail)
	if e.rng.Intn(2) == 0 {
		prop := "C01"
		if n.kind == 'm' {
			prop = "C02"
		}
		for i := 1 + e.rng.Intn(3); i > 0; i-- {
			e.mutatePlain(n, prop)
		}
	}
}

// storableContainerID: the slab ID a popped storable denotes if it is (a wrapper around) an inlined
// slab ('i') or a slab reference ('r').
func storableContainerID(s atree.Storable) (atree.SlabID, byte, bool) {
	for {
		ws, ok := s.(atree.WrapperStorable)
		if !ok {
			break
		}
		s = ws.UnwrapAtreeStorable()
	}
	switch x := s.(type) {
	case atree.SlabIDStorable:
		return atree.SlabID(x), 'r', true
	case atree.Slab:
		return x.SlabID(), 'i', true
	}
	return atree.SlabID{}, 0, false
}

func (e *nestEnv) countOf(n *node) uint64 {
	if n.kind == 'a' {
		return n.arr.Count()
	}
	return n.mp.Count()
}

func (e *nestEnv) nodeByID(id atree.SlabID) (*node, bool) {
	for _, x := range e.nodes {
		if x.vidSlabID() == id {
			return x, true
		}
	}
	return nil, false
}

func (e *nestEnv) opMutate(detached bool) {
	var n *node
	if detached {
		if len(e.detached) == 0 {
			return
		}
		n = e.detached[e.rng.Intn(len(e.detached))]
		if e.staleClosure(n) {
			e.st.Hit("skip-stale-closure-family")
			return
		}
		// pick the detached container or something nested in it
		var cands []*node
		for _, x := range e.nodes {
			for y := x; y != nil; y = y.parent {
				if y == n {
					cands = append(cands, x)
					break
				}
			}
		}
		n = cands[e.rng.Intn(len(cands))]
		// C11: the former parent must not change
		before := e.dumpRoot()
		e.st.Hit("mutate-detached")
		e.mutatePlain(n, "C11")
		if after := e.dumpRoot(); after != before {
			e.violation("C11", fmt.Sprintf("mutation through the handle of detached container %d changed the former parent", n.h))
		}
		return
	}
	n = e.pickContainer(func(x *node) bool { return e.attached(x) })
	if n == nil {
		return
	}
	e.st.Hit(fmt.Sprintf("mutate-depth%d", e.depth(n)))
	e.mutatePlain(n, "C10")
}

func (e *nestEnv) dumpRoot() string {
	if e.root.kind == 'a' {
		return hx.DumpTree(e.ps, atree.VerifArrayRoot(e.root.arr))
	}
	return hx.DumpTree(e.ps, atree.VerifMapRoot(e.root.mp))
}

func (e *nestEnv) opRestructureParent() {
	// plain inserts/removals in a container that has children (shifts their positions)
	p := e.pickContainer(func(n *node) bool {
		if !e.attached(n) {
			return false
		}
		for _, v := range n.elems {
			if v.child != nil {
				return true
			}
		}
		for _, v := range n.kv {
			if v.child != nil {
				return true
			}
		}
		return false
	})
	if p == nil {
		return
	}
	e.st.Hit("restructure-parent")
	for i := 1 + e.rng.Intn(3); i > 0; i-- {
		e.mutatePlain(p, "C10")
	}
}

func (e *nestEnv) opDetach() {
	// remove a child container from its parent, or overwrite its slot with a plain value
	p := e.pickContainer(func(n *node) bool {
		if !e.target(n) {
			return false
		}
		for _, v := range n.elems {
			if v.child != nil {
				return true
			}
		}
		for _, v := range n.kv {
			if v.child != nil {
				return true
			}
		}
		return false
	})
	if p == nil {
		return
	}
	w := e.w
	var c *node
	var cw int
	var old atree.Storable
	var err error
	overwrite := e.rng.Intn(2) == 0
	// the overwriting value: a plain value, or another (new) container put into the very same slot
	var repl sval
	if overwrite {
		// (extended) detach + attach in ONE Set: the overwriting value is an existing DETACHED
		// container, wrapped or not (never one that holds p: containment stays acyclic)
		var cand []int
		if e.ext {
			for i, d := range e.detached {
				if !inSubtree(p, d) {
					cand = append(cand, i)
				}
			}
		}
		if len(cand) > 0 && e.rng.Intn(2) == 0 && e.depth(p) < 4 {
			di := cand[e.rng.Intn(len(cand))]
			repl = sval{child: e.detached[di], wrap: e.rng.Intn(2)}
			e.detached = append(e.detached[:di], e.detached[di+1:]...)
			e.st.Hit("replace-by-detached-container")
		} else if e.rng.Intn(2) == 0 && e.depth(p) < 4 {
			kind := byte('a')
			if e.rng.Intn(3) == 0 {
				kind = 'm'
			}
			nc := e.newNode(kind)
			if nc == nil {
				return
			}
			repl = sval{child: nc}
			e.st.Hit("replace-by-container")
		} else {
			repl = sval{tv: e.plain(0)}
		}
	}
	defer e.guardOthers("detaching a child container", p, repl.child)()
	if p.kind == 'a' {
		var idx []int
		for i, v := range p.elems {
			if v.child != nil {
				idx = append(idx, i)
			}
		}
		i := idx[e.rng.Intn(len(idx))]
		c, cw = p.elems[i].child, p.elems[i].wrap
		if overwrite {
			w.L("OP aset h=%d i=%d v=%s", p.h, i, valStr(repl))
			old, err = p.arr.Set(uint64(i), repl.atreeValue())
			if err == nil {
				p.elems[i] = repl
				if repl.child != nil {
					repl.child.parent, repl.child.wrap = p, repl.wrap
				}
			}
		} else {
			w.L("OP arem h=%d i=%d", p.h, i)
			old, err = p.arr.Remove(uint64(i))
			if err == nil {
				p.elems = append(p.elems[:i], p.elems[i+1:]...)
			}
		}
	} else {
		var keys []hx.TV
		for k, v := range p.kv {
			if v.child != nil {
				keys = append(keys, k)
			}
		}
		sort.Slice(keys, func(i, j int) bool { return keys[i].Pay < keys[j].Pay })
		k := keys[e.rng.Intn(len(keys))]
		c, cw = p.kv[k].child, p.kv[k].wrap
		if overwrite {
			w.L("OP mset h=%d k=%s v=%s", p.h, e.keyStr(p, k), valStr(repl))
			old, err = p.mp.Set(hx.CompareKey, e.hi(), k, repl.atreeValue())
			if err == nil {
				p.kv[k] = repl
				if repl.child != nil {
					repl.child.parent, repl.child.wrap = p, repl.wrap
				}
			}
		} else {
			w.L("OP mrem h=%d k=%s", p.h, e.keyStr(p, k))
			_, old, err = p.mp.Remove(hx.CompareKey, e.hi(), k)
			if err == nil {
				delete(p.kv, k)
			}
		}
	}
	if err != nil {
		w.L("OBS err:%s", hx.ErrKind(err))
		e.emitEffects()
		e.violation("C11", fmt.Sprintf("detaching container %d from %d failed: %v", c.h, p.h, err))
		return
	}
	if p.kind == 'm' && !overwrite {
		w.L("OBS ok:*,%s", renderStorable(old))
	} else {
		w.L("OBS ok:%s", renderStorable(old))
	}
	e.emitEffects()
	e.st.Hit("detach")
	// C11: what the library hands back must be a reference to the now standalone container
	inner := old
	for {
		ws, ok := inner.(atree.WrapperStorable)
		if !ok {
			break
		}
		inner = ws.UnwrapAtreeStorable()
	}
	sid, ok := inner.(atree.SlabIDStorable)
	if !ok {
		e.violation("C11", fmt.Sprintf("detached container %d handed back as %T, not as a slab reference", c.h, inner))
	} else if fmt.Sprintf("0x%x.%d", atree.SlabID(sid).AddressAsUint64(), atree.SlabID(sid).IndexAsUint64()) != c.vid {
		e.violation("C11", fmt.Sprintf("detached container %d changed identity: %v vs %s", c.h, sid, c.vid))
	}
	c.parent = nil
	e.noteDetached(c, p, cw)
	e.detached = append(e.detached, c)
	if repl.child != nil {
		repl.child.hasBudget, repl.child.wantCleared = false, false
	}
	e.mutatedDetached(p)
}

func (e *nestEnv) opReattach() {
	if len(e.detached) == 0 {
		return
	}
	i := e.rng.Intn(len(e.detached))
	c := e.detached[i]
	p := e.pickContainer(func(n *node) bool {
		if e.ext {
			// anywhere but inside itself, also into another detached subtree
			return !inSubtree(n, c) && e.depth(n) < 4 && e.target(n)
		}
		return e.attached(n) && e.depth(n) < 4
	})
	if p == nil {
		return
	}
	defer e.guardOthers("re-attaching a detached container", p, c)()
	wrap := 0
	if e.rng.Intn(4) == 0 {
		wrap = 1
	}
	e.st.Hit("reattach")
	if e.insertInto(p, sval{child: c, wrap: wrap}) {
		e.detached = append(e.detached[:i], e.detached[i+1:]...)
	}
}

// readValue reads a value back through the library (recursively) and compares it with the shadow.
func (e *nestEnv) compareValue(path string, got atree.Value, want sval) bool {
	for i := 0; i < want.wrap; i++ {
		sv, ok := got.(hx.SomeValue)
		if !ok {
			e.violation("C10", fmt.Sprintf("%s: expected a wrapped value, got %T", path, got))
			return false
		}
		got = sv.V
	}
	if want.child == nil {
		if tv, ok := got.(hx.TV); !ok || tv != want.tv {
			e.violation("C10", fmt.Sprintf("%s: read %v, expected %v", path, got, want.tv))
			return false
		}
		return true
	}
	c := want.child
	if c.kind == 'a' {
		a, ok := got.(*atree.Array)
		if !ok {
			e.violation("C10", fmt.Sprintf("%s: expected an array, got %T", path, got))
			return false
		}
		return e.compareArray(path, a, c)
	}
	m, ok := got.(*atree.OrderedMap)
	if !ok {
		e.violation("C10", fmt.Sprintf("%s: expected a map, got %T", path, got))
		return false
	}
	return e.compareMap(path, m, c)
}

func (e *nestEnv) compareArray(path string, a *atree.Array, c *node) bool {
	if a.ValueID().String() != c.vid {
		e.violation("C10", fmt.Sprintf("%s: value ID %s, expected %s", path, a.ValueID(), c.vid))
		return false
	}
	if a.Type() != atree.TypeInfo(hx.TI(c.ty)) {
		e.violation("C07", fmt.Sprintf("%s (container %d): type info %v read back, %d was given at creation", path, c.h, a.Type(), c.ty))
		e.violation("C01", fmt.Sprintf("%s (array %d): Type() is %v, the history says %d", path, c.h, a.Type(), c.ty))
		if strings.HasPrefix(path, "reloaded") {
			e.violation("C10", fmt.Sprintf("%s (container %d): the type set through the nested handle was not persisted by the commit: %v read back, %d set", path, c.h, a.Type(), c.ty))
		}
		return false
	}
	if a.Count() != uint64(len(c.elems)) {
		e.violation("C10", fmt.Sprintf("%s (container %d): %d elements read through the parent, %d expected", path, c.h, a.Count(), len(c.elems)))
		return false
	}
	ok := true
	i := 0
	err := a.IterateReadOnly(func(v atree.Value) (bool, error) {
		if i >= len(c.elems) || !e.compareValue(fmt.Sprintf("%s[%d]", path, i), v, c.elems[i]) {
			ok = false
			return false, nil
		}
		i++
		return true, nil
	})
	if ok && (err != nil || i != len(c.elems)) {
		// (an enumeration that breaks off used to pass for a complete one)
		e.violation("C10", fmt.Sprintf("%s (container %d): reading the elements through the parent stopped after %d of %d: %v", path, c.h, i, len(c.elems), err))
		return false
	}
	return ok
}

func (e *nestEnv) compareMap(path string, m *atree.OrderedMap, c *node) bool {
	if m.ValueID().String() != c.vid {
		e.violation("C10", fmt.Sprintf("%s: value ID %s, expected %s", path, m.ValueID(), c.vid))
		return false
	}
	if m.Type() != atree.TypeInfo(hx.TI(c.ty)) {
		e.violation("C07", fmt.Sprintf("%s (container %d): type info %v read back, %d was given at creation", path, c.h, m.Type(), c.ty))
		e.violation("C02", fmt.Sprintf("%s (map %d): Type() is %v, the history says %d", path, c.h, m.Type(), c.ty))
		if strings.HasPrefix(path, "reloaded") {
			e.violation("C10", fmt.Sprintf("%s (container %d): the type set through the nested handle was not persisted by the commit: %v read back, %d set", path, c.h, m.Type(), c.ty))
		}
		return false
	}
	if m.Count() != uint64(len(c.kv)) {
		e.violation("C10", fmt.Sprintf("%s (container %d): %d entries read through the parent, %d expected", path, c.h, m.Count(), len(c.kv)))
		return false
	}
	ok := true
	met := 0
	err := m.IterateReadOnly(func(k, v atree.Value) (bool, error) {
		met++
		kt, _ := k.(hx.TV)
		want, has := c.kv[kt]
		if !has {
			e.violation("C10", fmt.Sprintf("%s: unexpected key %v", path, k))
			ok = false
			return false, nil
		}
		if !e.compareValue(fmt.Sprintf("%s{%d}", path, kt.Pay), v, want) {
			ok = false
			return false, nil
		}
		return true, nil
	})
	if ok && (err != nil || met != len(c.kv)) {
		e.violation("C10", fmt.Sprintf("%s (container %d): reading the entries through the parent stopped after %d of %d: %v", path, c.h, met, len(c.kv), err))
		return false
	}
	return ok
}

func (e *nestEnv) opReadBack() {
	e.st.Hit("readback")
	if e.root.kind == 'a' {
		e.compareArray("root", e.root.arr, e.root)
	} else {
		e.compareMap("root", e.root.mp, e.root)
	}
}

func (e *nestEnv) verifyRoot(when string) {
	tic := func(a, b atree.TypeInfo) bool { return a == b }
	var err error
	if e.root.kind == 'a' {
		err = atree.VerifyArray(e.root.arr, e.addr, e.root.arr.Type(), tic, e.hi(), true)
	} else {
		err = atree.VerifyMap(e.root.mp, e.addr, e.root.mp.Type(), tic, e.hi(), true)
	}
	if err != nil {
		e.violation("C10", when+": outermost container is not structurally valid: "+err.Error())
		return
	}
	e.verifyWrapped(e.root, "C10", when)
}

// verifyWrapped: the library's VerifyArray / VerifyMap descend into *Array / *OrderedMap element values only
// (map_verify.go verifyValue); a container under a WRAPPER (Some(child)) - inlined or referenced - and
// everything below it is skipped.  Every wrapped container of the family of top is therefore verified through
// its own handle (same slab objects), outermost first, so that the whole tree is covered.
func (e *nestEnv) verifyWrapped(top *node, prop, when string) {
	if !e.ext {
		return
	}
	tic := func(a, b atree.TypeInfo) bool { return a == b }
	for _, x := range e.nodes {
		if !x.live || x.parent == nil || x.wrap == 0 || !inSubtree(x, top) {
			continue
		}
		var err error
		if x.kind == 'a' {
			err = atree.VerifyArray(x.arr, e.addr, x.arr.Type(), tic, e.hi(), true)
		} else {
			err = atree.VerifyMap(x.mp, e.addr, x.mp.Type(), tic, e.hi(), true)
		}
		if err != nil {
			e.violation(prop, fmt.Sprintf("%s: container %d (in container %d under %d wrapper(s), which the verifier of the outermost container does not look into) is not structurally valid: %v", when, x.h, x.parent.h, x.wrap, err))
			return
		}
	}
}

func (e *nestEnv) fullCheck() {
	e.w.L("FULL h=%d %s", e.root.h, e.dumpRoot())
	e.opReadBack()
	e.verifyRoot("periodic check")
	if e.ext {
		e.checkDetached()
	}
	// C06 / C07 on every slab of the write set (nested slabs: inlined children, wrappers, re-based
	// sizes after inline <-> standalone transitions and bulk pops): reported size = encoded length,
	// flags truthful, decode / re-encode round trip
	ce := &codecEnv{w: e.w, st: e.st, cfg: e.cfg, prog: e.prog, step: e.step}
	deltas := atree.VerifDeltas(e.ps)
	ids := make([]atree.SlabID, 0, len(deltas))
	for id, sl := range deltas {
		if sl != nil {
			ids = append(ids, id)
		}
	}
	hx.SortIDs(ids)
	for _, id := range ids {
		ce.oracleSlab(deltas[id])
	}
	// C09: the storage holds exactly the live trees: the outermost root plus the detached containers
	roots, err := atree.CheckStorageHealth(e.ps, 1+len(e.detached))
	if err != nil {
		e.violation("C09", "storage health: "+err.Error())
	} else {
		rootID := e.root.vidSlabID()
		if _, ok := roots[rootID]; !ok {
			e.violation("C09", "the outermost container is not among the roots")
		}
	}
}

func (n *node) vidSlabID() atree.SlabID {
	if n.kind == 'a' {
		return n.arr.SlabID()
	}
	return n.mp.SlabID()
}

// opCommitReload commits, opens a brand-new storage, re-fetches every handle top-down and checks
// that everything done through child handles was persisted (C10 "persisted by the next commit").
func (e *nestEnv) opCommitReload() {
	e.w.L("COMMIT workers=2")
	err := e.ps.FastCommit(2)
	e.w.L("OBS %s", obsErr(err))
	if err != nil {
		e.violation("C10", "commit failed: "+err.Error())
		return
	}
	e.st.Hit("commit-reload")
	fresh := hx.NewStorage(e.ledger)
	var rootVal atree.Value
	if e.root.kind == 'a' {
		a, err := atree.NewArrayWithRootID(fresh, e.root.arr.SlabID())
		if err != nil {
			e.violation("C10", "reload: "+err.Error())
			return
		}
		rootVal = a
	} else {
		m, err := atree.NewMapWithRootID(fresh, e.root.mp.SlabID(), atree.NewDefaultDigesterBuilder())
		if err != nil {
			e.violation("C10", "reload: "+err.Error())
			return
		}
		rootVal = m
	}
	// C09 / C03: what the ledger holds after the commit is exactly the live trees (no stale register,
	// nothing missing), judged on a brand-new storage that has seen none of the history
	for _, id := range e.ledger.SortedIDs() { // the health check judges the loaded slabs: load every register
		if _, _, err := fresh.Retrieve(id); err != nil {
			e.violation("C03", fmt.Sprintf("register %s written by the commit cannot be read back: %v", hx.IDStr(id), err))
		}
	}
	if _, err := atree.CheckStorageHealth(fresh, 1+len(e.detached)); err != nil {
		for _, p := range []string{"C09", "C03"} {
			e.violation(p, "after commit, the registers seen by a fresh storage are not exactly the live trees: "+err.Error())
		}
	}
	n := len(e.st.Violations)
	e.compareValue("reloaded", rootVal, sval{child: e.root})
	if len(e.st.Violations) > n {
		e.st.Violations[n].What = "after commit, a fresh storage does not show what was done through child handles: " + e.st.Violations[n].What
		// whatever the container-level property, a commit that does not make the state durable is C03
		v := e.st.Violations[n]
		v.Property = "C03"
		e.st.Violations = append(e.st.Violations, v)
	}
}

// ------------------------------------------------------------------------------------------------
// Oracles added after audit a5 (model-free unless said otherwise)

// dumpExcept renders every standalone container among the first nBefore created ones that is not
// in excl: root slab tree (index slabs, data slabs, external collision groups; inlined children in
// place).  Large-value slabs are immutable and left out.
func (e *nestEnv) dumpExcept(excl map[*node]bool, nBefore int) string {
	var sb strings.Builder
	for _, x := range e.nodes[:nBefore] {
		if !x.live || excl[x] {
			continue
		}
		if x.kind == 'a' {
			if !x.arr.Inlined() {
				fmt.Fprintf(&sb, "[%d] %s\n", x.h, hx.DumpTree(e.ps, atree.VerifArrayRoot(x.arr)))
			}
		} else if !x.mp.Inlined() {
			fmt.Fprintf(&sb, "[%d] %s\n", x.h, hx.DumpTree(e.ps, atree.VerifMapRoot(x.mp)))
		}
	}
	return sb.String()
}

// guardOthers (C11, both directions): an operation through a handle of one family of containers
// (the outermost container with everything nested in it, or a detached container with everything
// nested in it) leaves the slabs of every OTHER family exactly as they were - in particular the
// former parent of a detached container, and every detached container while its former parent goes
// on being mutated.  ns: containers whose families the operation may legitimately change.
func (e *nestEnv) guardOthers(what string, ns ...*node) func() {
	tops := map[*node]bool{}
	for _, n := range ns {
		if n != nil {
			tops[topOf(n)] = true
		}
	}
	excl := map[*node]bool{}
	for _, x := range e.nodes {
		if x.live && tops[topOf(x)] {
			excl[x] = true
		}
	}
	nBefore := len(e.nodes)
	before := e.dumpExcept(excl, nBefore)
	return func() {
		if after := e.dumpExcept(excl, nBefore); after != before {
			e.violation("C11", fmt.Sprintf("%s (container %d) changed a container outside the family it belongs to:\nbefore:\n%s\nafter:\n%s",
				what, ns[0].h, clip(before, 1500), clip(after, 1500)))
		}
	}
}

func clip(s string, n int) string {
	if len(s) > n {
		return s[:n] + "..."
	}
	return s
}

// noteDetached records, for container c that has just left slot (p, wrap), the inline budget the
// callback of its current handle captured (array.go / map.go setCallbackWithChild: the parent's
// per-element limit minus the wrapper bytes).
func (e *nestEnv) noteDetached(c, p *node, wrap int) {
	c.budget, c.hasBudget, c.wantCleared = slotBudget(p, wrap), true, false
	c.formerP, c.formerGen = p, p.gen
}

func (n *node) inlinable(budget uint32) bool {
	if n.kind == 'a' {
		return n.arr.Inlinable(budget)
	}
	return n.mp.Inlinable(budget)
}

func (n *node) hasUpdater() bool {
	if n.kind == 'a' {
		return atree.VerifArrayHasParentUpdater(n.arr)
	}
	return atree.VerifMapHasParentUpdater(n.mp)
}

// mutatedDetached is called after a SUCCESSFUL element mutation through the handle of n.  If n is
// a detached container whose handle still carried the callback of its former parent, the callback
// was invoked; unless it returned early (standalone and not inlinable under the captured budget -
// evaluated on the state after the mutation, which is the state now) it looked for n in the former
// parent, found nothing, and the library must have cleared it (C11 mechanism "callback cleared
// after a not-found", array.go notifyParentIfNeeded / map.go notifyParentIfNeeded).
func (e *nestEnv) mutatedDetached(n *node) {
	if n.parent != nil || n == e.root || !n.hasBudget {
		return
	}
	if n.inlinable(n.budget) {
		n.wantCleared = true
	}
}

// vidStr renders the value ID of n like verif_hooks.go renders value IDs ("<address>.<index>").
func vidStr(n *node) string {
	var v atree.ValueID
	if n.kind == 'a' {
		v = n.arr.ValueID()
	} else {
		v = n.mp.ValueID()
	}
	return fmt.Sprintf("%d.%d", binary.BigEndian.Uint64(v[:8]), binary.BigEndian.Uint64(v[8:]))
}

// handleState (every step; C10 state anchors `parentUpdater`, `mutableElementIndex`; C11 state anchor
// "mutableElementIndex entry of the detached child", mechanism "callback cleared after a not-found"):
//   - model tie: one HST line with, per live container, whether its current handle carries a parent
//     callback and (arrays) its mutableElementIndex; the World replayer renders the same from
//     `hinfo` / `mutIdx` and compares;
//   - model-free: every container that sits in a parent has a callback; the mutableElementIndex of
//     every array is exactly {child value ID -> position} of the child containers it holds; a detached
//     container that was notified not-found has no callback any more.
func (e *nestEnv) handleState() {
	if !e.ext {
		return
	}
	var sb strings.Builder
	sb.WriteString("HST")
	for _, n := range e.nodes {
		if !n.live {
			continue
		}
		u := n.hasUpdater()
		if n.kind == 'a' {
			got := atree.VerifArrayMutableElementIndex(n.arr)
			fmt.Fprintf(&sb, " %d:%s:%s", n.h, b01(u), got)
			var want []string
			for i, v := range n.elems {
				if v.child != nil {
					want = append(want, fmt.Sprintf("%s=%d", vidStr(v.child), i))
				}
			}
			key := func(x string) string { return strings.SplitN(x, "=", 2)[0] }
			sort.Slice(want, func(i, j int) bool { return key(want[i]) < key(want[j]) }) // the hook sorts by value ID
			if w := strings.Join(want, ","); w != got && !n.idxReported {
				n.idxReported = true
				props := []string{"C10"}
				have := map[string]bool{}
				for _, x := range want {
					have[strings.SplitN(x, "=", 2)[0]] = true
				}
				for _, x := range strings.Split(got, ",") {
					if x != "" && !have[strings.SplitN(x, "=", 2)[0]] {
						props = []string{"C10", "C11"} // an entry for a container the array no longer holds
					}
				}
				e.violations(props, fmt.Sprintf("mutableElementIndex of array %d is {%s}; the child containers it holds are at {%s}", n.h, got, w))
			}
		} else {
			fmt.Fprintf(&sb, " %d:%s", n.h, b01(u))
		}
		e.checkInlineRule(n)
		if n.parent != nil && !u {
			e.violation("C10", fmt.Sprintf("container %d sits in container %d but its current handle has no parent callback: mutations through it cannot reach the parent", n.h, n.parent.h))
		}
		if n.parent == nil && n.wantCleared && u {
			e.violation("C11", fmt.Sprintf("detached container %d was mutated through its handle while inlinable under the budget of its former parent (%d bytes): the callback looked it up in the former parent and cannot have found it, yet the handle still carries the callback (not cleared after a not-found)", n.h, n.budget))
			n.wantCleared = false
		}
	}
	e.w.L("%s", sb.String())
}

// storageImage renders everything a rejected request could have left a trace in: every slab the
// storage can produce (pending or committed) and the keys of the write set.
func (e *nestEnv) storageImage() string {
	var sb strings.Builder
	deltas := atree.VerifDeltas(e.ps)
	seen := map[atree.SlabID]bool{}
	var ids []atree.SlabID
	for id, sl := range deltas {
		seen[id] = true
		ids = append(ids, id)
		if sl == nil {
			fmt.Fprintf(&sb, "delta %s deleted\n", hx.IDStr(id))
		} else {
			fmt.Fprintf(&sb, "delta %s\n", hx.IDStr(id))
		}
	}
	for _, id := range e.ledger.SortedIDs() {
		if !seen[id] {
			ids = append(ids, id)
		}
	}
	hx.SortIDs(ids)
	lines := strings.Split(sb.String(), "\n")
	sort.Strings(lines)
	out := []string{strings.Join(lines, "\n")}
	for _, id := range ids {
		if sl, isDelta := deltas[id]; isDelta {
			if sl != nil {
				out = append(out, atree.VerifDumpSlab(sl, hx.Describe))
			}
			continue
		}
		sl, ok, err := e.ps.Retrieve(id)
		if err != nil || !ok {
			out = append(out, "MISSING("+hx.IDStr(id)+")")
			continue
		}
		out = append(out, atree.VerifDumpSlab(sl, hx.Describe))
	}
	return strings.Join(out, "\n")
}

// opRejected issues a request that cannot be served through the handle of a nested container (index
// out of range for Get / Set / Insert / Remove, absent key for Get / Remove) at any depth, attached or
// inside a detached subtree.  C18 ("leaves the container, its ancestors and the pending write set
// exactly as they were"), and C10's share of it (every ancestor unchanged): the error names the cause,
// no slab of the whole storage and no key of the write set differs afterwards, the handle bookkeeping
// is untouched (next HST line), the model answers the same error with an empty effect.
func (e *nestEnv) opRejected() {
	n := e.pickContainer(func(x *node) bool { return true })
	if n == nil {
		return
	}
	w := e.w
	before, beforeTree := e.storageImage(), e.dumpExcept(nil, len(e.nodes))
	var err error
	wantKind := "IndexOutOfBounds:User"
	var names []any // what the error must name: index and bounds / the key
	if n.kind == 'a' {
		switch e.rng.Intn(4) {
		case 0:
			i := len(n.elems) + e.rng.Intn(3)
			w.L("OP arem h=%d i=%d", n.h, i)
			_, err = n.arr.Remove(uint64(i))
			names = []any{i, 0, len(n.elems)}
		case 1:
			i := len(n.elems) + e.rng.Intn(3)
			v := e.plain(0)
			w.L("OP aset h=%d i=%d v=%d:%d", n.h, i, v.Size, v.Pay)
			_, err = n.arr.Set(uint64(i), v)
			names = []any{i, 0, len(n.elems)}
		case 2:
			i := len(n.elems) + e.rng.Intn(3)
			w.L("OP aget h=%d i=%d", n.h, i)
			_, err = n.arr.Get(uint64(i))
			names = []any{i, 0, len(n.elems)}
		default:
			i := len(n.elems) + 1 + e.rng.Intn(3)
			v := e.plain(0)
			w.L("OP ains h=%d i=%d v=%d:%d", n.h, i, v.Size, v.Pay)
			err = n.arr.Insert(uint64(i), v)
			names = []any{i, 0, len(n.elems)}
		}
	} else {
		wantKind = "KeyNotFound:User"
		k := hx.TV{Size: 9, Pay: uint64(500 + e.rng.Intn(80))}
		names = []any{k}
		if e.rng.Intn(2) == 0 {
			w.L("OP mrem h=%d k=%s", n.h, e.keyStr(n, k))
			_, _, err = n.mp.Remove(hx.CompareKey, e.hi(), k)
		} else {
			w.L("OP mget h=%d k=%s", n.h, e.keyStr(n, k))
			_, err = n.mp.Get(hx.CompareKey, e.hi(), k)
		}
	}
	both := []string{"C18", "C10"}
	if err == nil {
		w.L("OBS ok")
		e.violations(both, fmt.Sprintf("an invalid request through the handle of nested container %d was accepted", n.h))
	} else {
		w.L("OBS err:%s", hx.ErrKind(err))
		if k := hx.ErrKind(err); k != wantKind {
			e.violation("C18", fmt.Sprintf("a rejected request through the handle of nested container %d is reported as %s, expected %s", n.h, k, wantKind))
		} else if d := hx.ErrNames(err, strings.SplitN(wantKind, ":", 2)[0], names...); d != "" {
			e.violation("C18", fmt.Sprintf("a rejected request (%s) through the handle of nested container %d: %s", e.w.LastOp, n.h, d))
		}
	}
	if eff := hx.NetEffect(e.rec.Effs); eff != "-" {
		e.violations(both, fmt.Sprintf("a rejected request through the handle of nested container %d stored / removed slabs: %s", n.h, eff))
	}
	e.emitEffects()
	e.st.Hit(fmt.Sprintf("rejected-depth%d-attached=%v", e.depth(n), e.attached(n)))
	if after := e.storageImage(); after != before {
		e.violations(both, fmt.Sprintf("a rejected request through the handle of nested container %d left a trace in the storage (slabs or write-set keys differ)", n.h))
	} else if after := e.dumpExcept(nil, len(e.nodes)); after != beforeTree {
		e.violations(both, fmt.Sprintf("a rejected request through the handle of nested container %d changed a container as seen through the handles", n.h))
	}
}

// checkDetached (C11 "the detached container itself remains an intact, independently stored value
// with unchanged identity"): every detached container reads back, through its own handle, exactly
// what the history put into it, and is structurally valid as a root.
func (e *nestEnv) checkDetached() {
	tic := func(a, b atree.TypeInfo) bool { return a == b }
	for _, d := range e.detached {
		nv := len(e.st.Violations)
		var err error
		if d.kind == 'a' {
			e.compareArray(fmt.Sprintf("detached%d", d.h), d.arr, d)
			err = atree.VerifyArray(d.arr, e.addr, d.arr.Type(), tic, e.hi(), true)
		} else {
			e.compareMap(fmt.Sprintf("detached%d", d.h), d.mp, d)
			err = atree.VerifyMap(d.mp, e.addr, d.mp.Type(), tic, e.hi(), true)
		}
		for i, end := nv, len(e.st.Violations); i < end; i++ {
			// the comparison helpers speak for C10 (reading through a parent); here the subject is C11
			v := e.st.Violations[i]
			v.Property = "C11"
			e.st.Violations = append(e.st.Violations, v)
		}
		if err != nil {
			e.violation("C11", fmt.Sprintf("detached container %d is not a structurally valid standalone value: %v", d.h, err))
		} else {
			e.verifyWrapped(d, "C11", fmt.Sprintf("detached container %d", d.h))
		}
	}
}

// slotBudget: the inline budget the callback of a child in slot (p, wrap) captures.
func slotBudget(p *node, wrap int) uint32 {
	_, _, _, maxArr, _, _ := atree.VerifThresholds()
	b := maxArr
	if p.kind == 'm' {
		b = atree.VerifMaxInlineMapValueSize(9) // every key of this stream is 9 bytes long
	}
	if uint32(2*wrap) > b {
		return 0
	}
	return b - uint32(2*wrap)
}

// opRewrap overwrites the slot of a nested container that currently is a SEPARATE slab by the very
// same container under a different number of wrappers (`parent.Set(i, Some(child))`, the in-place
// change of the optional-ness of a field).  The library hands back a reference to the container
// itself, which the caller therefore does not dispose of; the parent must go on tracking the child
// (array.go Set: the index entry is erased only if the new value is ANOTHER container - compared after
// unwrapping).  Restricted to standalone children that stay standalone: for an inlined child the
// request is observation O2 (DESIGN 13.8), and the model decides the form of the handed-back storable
// from the container's state after the Set.
func (e *nestEnv) opRewrap(c *node) {
	if c == nil {
		c = e.pickContainer(func(x *node) bool {
			if x.parent == nil || !e.target(x) {
				return false
			}
			if x.kind == 'a' {
				return !x.arr.Inlined()
			}
			return !x.mp.Inlined()
		})
	}
	if c == nil || c.parent == nil || (c.kind == 'a' && c.arr.Inlined()) || (c.kind == 'm' && c.mp.Inlined()) {
		return // (an inlined child overwritten by itself is observation O2, not a history of C10)
	}
	p := c.parent
	w := e.w
	defer e.guardOthers("re-wrapping a child in its slot", p)()
	pick := func(old int) int {
		nw := e.rng.Intn(4)
		if nw == old || (nw < old && c.inlinable(slotBudget(p, nw))) {
			nw = old + 1
		}
		return nw
	}
	var old atree.Storable
	var err error
	if p.kind == 'a' {
		i := -1
		for j, v := range p.elems {
			if v.child == c {
				i = j
			}
		}
		if i < 0 {
			return
		}
		nv := sval{child: c, wrap: pick(p.elems[i].wrap)}
		w.L("OP aset h=%d i=%d v=%s", p.h, i, valStr(nv))
		old, err = p.arr.Set(uint64(i), nv.atreeValue())
		if err == nil {
			p.elems[i], c.wrap = nv, nv.wrap
		}
	} else {
		var key *hx.TV
		for _, k := range e.sortedKeys(p) {
			if p.kv[k].child == c {
				kk := k
				key = &kk
			}
		}
		if key == nil {
			return
		}
		nv := sval{child: c, wrap: pick(p.kv[*key].wrap)}
		w.L("OP mset h=%d k=%s v=%s", p.h, e.keyStr(p, *key), valStr(nv))
		old, err = p.mp.Set(hx.CompareKey, e.hi(), *key, nv.atreeValue())
		if err == nil {
			p.kv[*key], c.wrap = nv, nv.wrap
		}
	}
	if err != nil {
		w.L("OBS err:%s", hx.ErrKind(err))
		e.emitEffects()
		e.violation("C10", fmt.Sprintf("overwriting the slot of container %d in container %d by the same container under other wrappers failed: %v", c.h, p.h, err))
		return
	}
	w.L("OBS ok:%s", renderStorable(old))
	e.emitEffects()
	e.st.Hit(fmt.Sprintf("rewrap-in-%c", p.kind))
	if id, kind, ok := storableContainerID(old); !ok || kind != 'r' || atree.VerifSlabIDString(id) != vidStr(c) {
		e.violation("C10", fmt.Sprintf("overwriting the slot of standalone container %d by the same container: handed back %s, not a reference to it", c.h, renderStorable(old)))
	}
	e.mutatedDetached(p)
}

// checkInlineRule (C10, second sentence: "a child is stored inline in its parent exactly when it
// occupies one slab that fits the parent's per-element limit and as a separate slab otherwise"),
// stated with the library's own public predicates: for a container in slot (parent, wrappers),
// Inlined() == Inlinable(per-element limit of the parent - wrapper bytes).  Holds between any two
// operations under the one-current-handle discipline (every mutator re-decides through the parent).
func (e *nestEnv) checkInlineRule(n *node) {
	if n.parent == nil || n.inlReported {
		return
	}
	b := slotBudget(n.parent, n.wrap)
	inl := false
	if n.kind == 'a' {
		inl = n.arr.Inlined()
	} else {
		inl = n.mp.Inlined()
	}
	if able := n.inlinable(b); inl != able {
		n.inlReported = true
		e.violation("C10", fmt.Sprintf("container %d in container %d under %d wrappers: Inlined() = %v but Inlinable(%d) = %v (per-element limit of the parent minus the wrapper bytes): not stored inline exactly when it fits", n.h, n.parent.h, n.wrap, inl, b, able))
	}
}
