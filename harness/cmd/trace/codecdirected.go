package main

// Directed programs of the `codec` stream (C06 / C07): slab shapes the random programs of codec.go /
// codecmap.go do not reach.
//
//   - large-value slabs whose storable holds a slab reference (plain, wrapped once, wrapped twice): the
//     has-pointers flag of a StorableSlab;
//   - inlined maps of a COMPOSITE type that are not eligible for the compact form: inline collision
//     groups under a colliding digester, wrapped keys (not comparable), oversized keys (stored as slab
//     references), next to eligible siblings;
//   - maps whose collision groups reach the last digest level the encoder accepts (maxDigestLevel) and
//     one level beyond (the encoder must refuse: `observation:digest-level-limit`, custom digesters only);
//   - more than 256 entries in the shared inlined-extra-data section of ONE slab (T = 8192 / 32768):
//     non-deduplicated map extra data, > 256 distinct array types, > 256 distinct compact-map types.
//     256 entries encode; with the 257th EncodeSlab and the commit FAIL with an error
//     (`observation:extra-data-index-limit`), nothing reaches the ledger, the in-memory container
//     stays usable, and after removing a child the commit succeeds again;
//   - the nesting walk: inlined arrays nested 1..17 deep, inlined maps 1..9 deep, wrapped inlined
//     arrays 1..12 deep, each committed and reloaded on a fresh storage.  Depths beyond what the CBOR
//     validator of the caller's DecMode allows (hx: cbor.DecOptions{}, 32 levels) commit but do not
//     reload (`observation:decmode-nesting-limit`); the model predicts the first failing depth
//     (`NEST` line) and, on every ENC line, whether the register decodes (Slab.vdepth).
//
// Trace lines added for these programs (replayed by lean/AtreeModel/Replay/Codec.lean):
//
//	ENCERR <kind> | <dump>          EncodeSlab returned the error <kind> (xdindex | level) on this slab;
//	                                the model's encodeSlabE must fail the same way
//	ENC <hex> size=<n> | <dump> | !nest
//	                                DecodeSlab rejects the register for its nesting depth; the model's
//	                                decoder must reject it too and Slab.vdepth must exceed the limit
//	NEST kind=<arr|map|warr> first=<k>   the first depth whose register does not reload

import (
	"fmt"
	"math/rand"
	"strings"

	"github.com/onflow/atree"

	"verifharness/hx"
)

// ---------------------------------------------------------------------------------------------
// keys that may be wrapped

func unwrapKey(v atree.Value) (hx.TV, int, bool) {
	n := 0
	for {
		switch x := v.(type) {
		case hx.TV:
			return x, n, true
		case hx.SomeValue:
			v = x.V
			n++
		default:
			return hx.TV{}, 0, false
		}
	}
}

func wkHashInput(v atree.Value, buf []byte) ([]byte, error) {
	tv, n, ok := unwrapKey(v)
	if !ok {
		return nil, fmt.Errorf("hash input: unsupported key %T", v)
	}
	b, err := hx.HashInput(tv, buf)
	return append(b, byte(n)), err
}

func wkCompare(st atree.SlabStorage, v atree.Value, s atree.Storable) (bool, error) {
	tv, n, ok := unwrapKey(v)
	if !ok {
		return false, fmt.Errorf("compare: unsupported key %T", v)
	}
	for i := 0; i < n; i++ {
		w, ok := s.(hx.SomeStorable)
		if !ok {
			return false, nil
		}
		s = w.S
	}
	return hx.CompareKey(st, tv, s)
}

// wkDigesterBuilder: table digests for (possibly wrapped) TV keys
type wkDigesterBuilder struct {
	L  uint
	Fn func(key hx.TV, wraps int, level uint) uint64
}

func (b *wkDigesterBuilder) SetSeed(uint64, uint64) {}
func (b *wkDigesterBuilder) Digest(_ atree.HashInputProvider, v atree.Value) (atree.Digester, error) {
	tv, n, ok := unwrapKey(v)
	if !ok {
		return nil, fmt.Errorf("digest: unsupported key %T", v)
	}
	d := &wkDigester{}
	for l := uint(0); l < b.L; l++ {
		d.digs = append(d.digs, atree.Digest(b.Fn(tv, n, l)))
	}
	return d, nil
}

type wkDigester struct{ digs []atree.Digest }

func (d *wkDigester) DigestPrefix(level uint) ([]atree.Digest, error) {
	if level > uint(len(d.digs)) {
		return nil, fmt.Errorf("level %d out of range", level)
	}
	return d.digs[:level], nil
}
func (d *wkDigester) Digest(level uint) (atree.Digest, error) {
	if level >= uint(len(d.digs)) {
		return 0, fmt.Errorf("level %d out of range", level)
	}
	return d.digs[level], nil
}
func (d *wkDigester) Reset()       {}
func (d *wkDigester) Levels() uint { return uint(len(d.digs)) }

// ---------------------------------------------------------------------------------------------

func (e *codecEnv) directedFail(what string) {
	if e.st.HarnessErr == "" {
		e.st.HarnessErr = "directed codec program: " + what
	}
}

// emitWriteSet: ENC (or ENCERR) lines for every slab of the write set, without committing
func (e *codecEnv) emitWriteSet(ps *atree.PersistentSlabStorage, emit bool) {
	deltas := atree.VerifDeltas(ps)
	ids := make([]atree.SlabID, 0, len(deltas))
	for id, s := range deltas {
		if s != nil {
			ids = append(ids, id)
		}
	}
	hx.SortIDs(ids)
	for _, id := range ids {
		if emit {
			e.emitSlab(deltas[id])
		} else {
			e.oracleSlab(deltas[id])
		}
	}
}

// 1. large-value slabs holding references
func (e *codecEnv) runStorableRefProgram(rng *rand.Rand, emit bool) regSet {
	atree.VerifSetThreshold(256)
	ledger := hx.NewLedger()
	ps := hx.NewStorage(ledger)
	addr := hx.MkAddr(uint64(1 + rng.Intn(1<<16)))
	if emit {
		e.w.L("CFG T=256 directed storable-ref")
	}
	target, err := atree.NewArray(ps, addr, hx.TI(1))
	if err != nil {
		e.directedFail(err.Error())
		return nil
	}
	ref := atree.SlabIDStorable(target.SlabID())
	cases := []atree.Storable{
		ref,
		hx.SomeStorable{S: ref},
		hx.SomeStorable{S: hx.SomeStorable{S: ref}},
		hx.SomeStorable{S: hx.TV{Size: 300, Pay: 7}},
		hx.SomeStorable{S: hx.TV{Size: 258, Pay: 9}}, // a gap value: tag 161 directly after tag 165
		hx.SomeStorable{S: hx.SomeStorable{S: hx.TV{Size: 25, Pay: 3}}},
		hx.TV{Size: 400, Pay: 5},
	}
	for _, s := range cases {
		if _, err := atree.NewStorableSlab(ps, addr, s, s.ByteSize()); err != nil {
			e.directedFail("NewStorableSlab: " + err.Error())
			return nil
		}
		e.st.Hit("directed:storable-slab")
		if storableHasRef(s) {
			e.st.Hit("directed:storable-slab-with-ref")
		}
	}
	e.checkpointStorage(rng, ps, emit)
	return e.emitRegisters(ledger, emit)
}

// 2. composite-typed inlined maps that cannot use the compact form
func (e *codecEnv) runCompositeNonCompactProgram(rng *rand.Rand, T uint32, emit bool) regSet {
	atree.VerifSetThreshold(T)
	_, _, _, _, _, maxKey := atree.VerifThresholds()
	ledger := hx.NewLedger()
	ps := hx.NewStorage(ledger)
	addr := hx.MkAddr(uint64(1 + rng.Intn(1<<16)))
	if emit {
		e.w.L("CFG T=%d directed composite-non-compact", T)
	}
	salt := uint64(rng.Int63())
	colliding := func(alph []uint64) atree.DigesterBuilder {
		return &wkDigesterBuilder{L: uint(len(alph)), Fn: func(k hx.TV, wraps int, l uint) uint64 {
			return mix(k.Pay+uint64(wraps)*977, uint64(l), salt) % alph[l] * 1000003
		}}
	}
	parentIsMap := rng.Intn(2) == 0
	var parr *atree.Array
	var pmap *atree.OrderedMap
	var err error
	if parentIsMap {
		pmap, err = atree.NewMap(ps, addr, atree.NewDefaultDigesterBuilder(), hx.TI(40))
	} else {
		parr, err = atree.NewArray(ps, addr, hx.TI(40))
	}
	if err != nil {
		e.directedFail(err.Error())
		return nil
	}
	nChild := 0
	attach := func(v atree.Value) bool {
		nChild++
		var err error
		if parr != nil {
			err = parr.Append(v)
		} else {
			_, err = pmap.Set(hx.CompareKey, hx.HashInput, hx.TV{Size: 9, Pay: uint64(5000 + nChild)}, v)
		}
		if err != nil {
			e.violation("C10", "attaching a composite child failed: "+err.Error())
			return false
		}
		return true
	}
	var kids []*atree.OrderedMap
	for round := 0; round < 6; round++ {
		ty := hx.CTI(uint64(rng.Intn(3)))
		var c *atree.OrderedMap
		shape := round % 6
		switch shape {
		case 0, 3: // colliding first level: inline collision groups inside the inlined map
			c, err = atree.NewMap(ps, addr, colliding([]uint64{2, 2, 1 << 62, 1 << 62}), ty)
		case 1: // collisions on every level: groups down to the last-level list
			c, err = atree.NewMap(ps, addr, colliding([]uint64{1, 1, 1}), ty)
		default:
			c, err = atree.NewMap(ps, addr, colliding([]uint64{1 << 62, 1 << 62, 1 << 62, 1 << 62}), ty)
		}
		if err != nil {
			e.directedFail(err.Error())
			return nil
		}
		n := 2 + rng.Intn(3)
		for i := 0; i < n; i++ {
			var k atree.Value = hx.TV{Size: uint32(2 + rng.Intn(8)), Pay: uint64(i + 1)}
			switch shape {
			case 2: // wrapped keys: not comparable
				if i != 1 {
					k = wrapN(k, 1+rng.Intn(2))
				}
			case 4: // one oversized key: stored as a slab reference
				if i == 0 {
					k = hx.TV{Size: maxKey + 1 + uint32(rng.Intn(20)), Pay: 77}
				}
			}
			var v atree.Value = hx.TV{Size: uint32(2 + rng.Intn(9)), Pay: uint64(100 + i)}
			if rng.Intn(4) == 0 {
				v = wrapN(v, 1)
			}
			if _, err := c.Set(wkCompare, wkHashInput, k, v); err != nil {
				e.violation("C02", "set on a composite child failed: "+err.Error())
				return nil
			}
		}
		kids = append(kids, c)
		if !attach(wrapN(c, []int{0, 0, 1}[rng.Intn(3)])) {
			return nil
		}
		e.emitWriteSet(ps, emit)
		e.st.Hit(fmt.Sprintf("directed:composite-shape-%d", shape))
	}
	// mutate the children through their handles (the parent is re-stored), then commit
	for i, c := range kids {
		_, _ = c.Set(wkCompare, wkHashInput, hx.TV{Size: 3, Pay: uint64(900 + i)}, hx.TV{Size: 2, Pay: 1})
	}
	e.checkpointStorage(rng, ps, emit)
	return e.emitRegisters(ledger, emit)
}

// 3. the last digest level the encoder accepts, and one beyond: for the deepest `hkeyElements`
// (keys that collide on every level but the last one used) and for the deepest `singleElements`
// (keys that collide on every level of the digester)
func (e *codecEnv) runDigestLevelProgram(rng *rand.Rand, emit bool) {
	maxLevel := uint(atree.VerifConsts()["maxDigestLevel"])
	for _, c := range []struct {
		L        uint // levels of the caller-supplied digester
		distinct int  // the level at which the keys differ (-1: never)
		deepest  uint // the deepest level an elements group reaches
	}{
		{maxLevel + 1, int(maxLevel), maxLevel},     // hkeyElements at maxDigestLevel: must commit
		{maxLevel, -1, maxLevel},                    // singleElements at maxDigestLevel: must commit
		{maxLevel + 2, int(maxLevel) + 1, maxLevel + 1}, // hkeyElements one level beyond: must be refused
		{maxLevel + 1, -1, maxLevel + 1},            // singleElements one level beyond: must be refused
	} {
		atree.VerifSetThreshold(1024)
		ledger := hx.NewLedger()
		ps := hx.NewStorage(ledger)
		addr := hx.MkAddr(uint64(1 + rng.Intn(1<<16)))
		if emit {
			e.w.L("CFG T=1024 directed digest-levels=%d distinct-at=%d", c.L, c.distinct)
		}
		distinct := c.distinct
		b := &hx.TableDigesterBuilder{L: c.L, Fn: func(k hx.TV, l uint) uint64 {
			if int(l) == distinct {
				return 1000 + k.Pay
			}
			return 7 + uint64(l)
		}}
		m, err := atree.NewMap(ps, addr, b, hx.TI(3))
		if err != nil {
			e.directedFail(err.Error())
			return
		}
		for i := 0; i < 3; i++ {
			if _, err := m.Set(hx.CompareKey, hx.HashInput, hx.TV{Size: 9, Pay: uint64(i + 1)}, hx.TV{Size: 4, Pay: uint64(i)}); err != nil {
				e.violation("C12", fmt.Sprintf("set under a colliding %d-level digester failed: %v", c.L, err))
				return
			}
		}
		e.emitWriteSet(ps, emit)
		if e.encPanic {
			return
		}
		err = ps.FastCommit(1)
		switch {
		case c.deepest <= maxLevel && err != nil:
			e.violation("C07", fmt.Sprintf("a map whose collision groups reach digest level %d (<= maxDigestLevel %d) cannot be committed: %v", c.deepest, maxLevel, err))
		case c.deepest > maxLevel && err == nil:
			e.violation("C07", fmt.Sprintf("a map with a group at digest level %d (> maxDigestLevel %d) was committed; nobody else checks the level", c.deepest, maxLevel))
		case c.deepest > maxLevel:
			e.st.Hit("observation:digest-level-limit")
			if len(ledger.Seg) != 0 {
				e.violation("C03", "a commit that failed while encoding wrote registers")
			}
		default:
			e.st.Hit("directed:max-digest-level-committed")
			e.emitRegisters(ledger, emit)
		}
	}
}

// 4. more than 256 entries in the shared inlined-extra-data section
func (e *codecEnv) runExtraDataLimitProgram(rng *rand.Rand, T uint32, kind int, emit bool) {
	atree.VerifSetThreshold(T)
	ledger := hx.NewLedger()
	ps := hx.NewStorage(ledger)
	addr := hx.MkAddr(uint64(1 + rng.Intn(1<<16)))
	kindName := []string{"map-children", "array-children-distinct-types", "compact-map-children-distinct-types", "map-children-of-a-map"}[kind]
	if emit {
		e.w.L("CFG T=%d directed extra-data-limit %s", T, kindName)
	}
	var parr *atree.Array
	var pmap *atree.OrderedMap
	var err error
	if kind == 3 {
		pmap, err = atree.NewMap(ps, addr, atree.NewDefaultDigesterBuilder(), hx.TI(1))
	} else {
		parr, err = atree.NewArray(ps, addr, hx.TI(1))
	}
	if err != nil {
		e.directedFail(err.Error())
		return
	}
	count := 0
	addChild := func() bool {
		var v atree.Value
		switch kind {
		case 0, 3:
			c, err := atree.NewMap(ps, addr, atree.NewDefaultDigesterBuilder(), hx.TI(uint64(2+count%3)))
			if err != nil {
				e.directedFail(err.Error())
				return false
			}
			if count%5 == 0 { // distinct counts as well as distinct seeds
				_, _ = c.Set(hx.CompareKey, hx.HashInput, hx.TV{Size: 2, Pay: 1}, hx.TV{Size: 2, Pay: uint64(count % 200)})
			}
			v = c
		case 1:
			c, err := atree.NewArray(ps, addr, hx.TI(uint64(1000+count)))
			if err != nil {
				e.directedFail(err.Error())
				return false
			}
			if count%7 == 0 {
				_ = c.Append(hx.TV{Size: 2, Pay: uint64(count % 200)})
			}
			v = c
		default:
			c, err := atree.NewMap(ps, addr, atree.NewDefaultDigesterBuilder(), hx.CTI(uint64(1000+count)))
			if err != nil {
				e.directedFail(err.Error())
				return false
			}
			_, _ = c.Set(hx.CompareKey, hx.HashInput, hx.TV{Size: 2, Pay: uint64(1 + count%3)}, hx.TV{Size: 2, Pay: uint64(count % 200)})
			v = c
		}
		if count%11 == 3 {
			v = hx.SomeValue{V: v}
		}
		if parr != nil {
			err = parr.Append(v)
		} else {
			_, err = pmap.Set(hx.CompareKey, hx.HashInput, hx.TV{Size: 3, Pay: uint64(count + 1)}, v)
		}
		if err != nil {
			e.violation("C10", "attaching an inlined child failed: "+err.Error())
			return false
		}
		count++
		return true
	}
	rootSlab := func() atree.Slab {
		if parr != nil {
			return atree.VerifArrayRoot(parr)
		}
		return atree.VerifMapRoot(pmap)
	}
	singleSlab := func() bool {
		_, isAD := rootSlab().(*atree.ArrayDataSlab)
		_, isMD := rootSlab().(*atree.MapDataSlab)
		return isAD || isMD
	}
	limit := int(atree.VerifConsts()["maxInlinedExtraDataIndex"]) + 1 // 256 entries are encodable
	for count < limit {
		if !addChild() {
			return
		}
	}
	if !singleSlab() {
		// the root split before the section filled up: nothing to observe at this threshold
		e.st.Hit("directed:extra-data-limit-not-reached:" + kindName)
		return
	}
	// exactly `limit` entries: must encode, commit and reload
	e.emitWriteSet(ps, emit)
	if e.encPanic {
		return
	}
	if err := ps.FastCommit(1); err != nil {
		e.violation("C07", fmt.Sprintf("%s: a slab with %d inlined-extra-data entries (indexes 0..%d) cannot be committed: %v", kindName, limit, limit-1, err))
		return
	}
	e.st.Hit("directed:extra-data-256-entries-committed")
	e.emitRegisters(ledger, emit)
	before := map[atree.SlabID]string{}
	for id, reg := range ledger.Seg {
		before[id] = string(reg)
	}
	// one more: the encoder must refuse with an error, never write a truncated index
	extra := 1 + rng.Intn(40)
	for i := 0; i < extra; i++ {
		if !addChild() {
			return
		}
	}
	if !singleSlab() {
		e.st.Hit("directed:extra-data-limit-not-reached:" + kindName)
		return
	}
	e.obsDetail = fmt.Sprintf("T=%d, one %T with %d inlined children of kind %s (%d entries in the shared section)", T, rootSlab(), count, kindName, count)
	e.emitWriteSet(ps, emit)
	e.obsDetail = ""
	if e.encPanic {
		return
	}
	err = ps.FastCommit(1)
	if err == nil {
		// (a mutant that lifts the limit: the registers hold truncated indexes; the reload below and
		// the ENC oracle catch it)
		st2 := hx.NewStorage(ledger)
		ok := false
		if parr != nil {
			a2, err2 := atree.NewArrayWithRootID(st2, parr.SlabID())
			ok = err2 == nil && a2.Count() == uint64(count)
		} else {
			m2, err2 := atree.NewMapWithRootID(st2, pmap.SlabID(), atree.NewDefaultDigesterBuilder())
			ok = err2 == nil && m2.Count() == uint64(count)
		}
		e.violation("C07", fmt.Sprintf("%s: a slab with %d inlined-extra-data entries was committed although an extra-data index is one byte (reload ok=%v)", kindName, count, ok))
		return
	}
	if !strings.Contains(err.Error(), "extra data index") {
		e.violation("C07", fmt.Sprintf("%s: commit of a slab with %d inlined children failed with an unexpected error: %v", kindName, count, err))
		return
	}
	e.st.Hit("observation:extra-data-index-limit")
	e.st.Hit("observation:extra-data-index-limit:commit-fails:" + kindName)
	// nothing reached the ledger
	if len(ledger.Seg) != len(before) {
		e.violation("C03", "a commit that failed while encoding changed the set of registers")
	}
	for id, reg := range ledger.Seg {
		if before[id] != string(reg) {
			e.violation("C03", "a commit that failed while encoding rewrote register "+hx.IDStr(id))
			break
		}
	}
	// the in-memory container is intact ...
	if parr != nil {
		if parr.Count() != uint64(count) {
			e.violation("C01", "array count wrong after a failed commit")
		}
		if _, err := parr.Get(uint64(count - 1)); err != nil {
			e.violation("C01", "array unreadable after a failed commit: "+err.Error())
		}
	} else if pmap.Count() != uint64(count) {
		e.violation("C02", "map count wrong after a failed commit")
	}
	// ... and committable again once enough children are gone
	for count > limit-3 {
		var old atree.Storable
		if parr != nil {
			old, err = parr.Remove(uint64(count - 1))
		} else {
			_, old, err = pmap.Remove(hx.CompareKey, hx.HashInput, hx.TV{Size: 3, Pay: uint64(count)})
		}
		if err != nil {
			e.violation("C01", "removing an inlined child after a failed commit failed: "+err.Error())
			return
		}
		_ = old
		count--
	}
	// (the removed children became standalone slabs of their own; they stay in the write set)
	e.emitWriteSet(ps, emit)
	if err := ps.FastCommit(1); err != nil {
		e.violation("C07", fmt.Sprintf("%s: commit still fails after shrinking to %d inlined children: %v", kindName, count, err))
		return
	}
	e.st.Hit("directed:extra-data-limit-recovered")
	st2 := hx.NewStorage(ledger)
	if parr != nil {
		a2, err := atree.NewArrayWithRootID(st2, parr.SlabID())
		if err != nil || a2.Count() != uint64(count) {
			e.violation("C07", fmt.Sprintf("%s: reload after recovery failed: %v", kindName, err))
		}
	} else {
		m2, err := atree.NewMapWithRootID(st2, pmap.SlabID(), atree.NewDefaultDigesterBuilder())
		if err != nil || m2.Count() != uint64(count) {
			e.violation("C07", fmt.Sprintf("%s: reload after recovery failed: %v", kindName, err))
		}
	}
}

// 5. the nesting walk
func (e *codecEnv) runNestingWalk(rng *rand.Rand, kind string, maxDepth int, emit bool) {
	const T = 1024
	first := 0
	for depth := 1; depth <= maxDepth; depth++ {
		atree.VerifSetThreshold(T)
		ledger := hx.NewLedger()
		ps := hx.NewStorage(ledger)
		addr := hx.MkAddr(uint64(1 + rng.Intn(1<<16)))
		if emit {
			e.w.L("CFG T=%d directed nesting kind=%s depth=%d", T, kind, depth)
		}
		// bottom-up: the innermost container first; every container is inlined into the next one
		var inner atree.Value = hx.TV{Size: 2, Pay: 7}
		var rootID atree.SlabID
		db := atree.NewDefaultDigesterBuilder
		for d := 0; d <= depth; d++ {
			switch kind {
			case "map":
				m, err := atree.NewMap(ps, addr, db(), hx.TI(uint64(1+d%2)))
				if err != nil {
					e.directedFail(err.Error())
					return
				}
				if _, err := m.Set(hx.CompareKey, hx.HashInput, hx.TV{Size: 2, Pay: 1}, inner); err != nil {
					e.violation("C10", fmt.Sprintf("nesting walk: set at level %d failed: %v", d, err))
					return
				}
				inner, rootID = m, m.SlabID()
			default:
				a, err := atree.NewArray(ps, addr, hx.TI(uint64(1+d%2)))
				if err != nil {
					e.directedFail(err.Error())
					return
				}
				if err := a.Append(inner); err != nil {
					e.violation("C10", fmt.Sprintf("nesting walk: append at level %d failed: %v", d, err))
					return
				}
				inner, rootID = a, a.SlabID()
				if kind == "warr" && d < depth {
					inner = hx.SomeValue{V: a}
				}
			}
		}
		nDeltas := 0
		for _, s := range atree.VerifDeltas(ps) {
			if s != nil {
				nDeltas++
			}
		}
		if nDeltas != 1 {
			e.directedFail(fmt.Sprintf("nesting walk %s depth %d: %d slabs in the write set, expected one (children not inlined)", kind, depth, nDeltas))
			return
		}
		e.nestWalk = true
		e.emitWriteSet(ps, emit)
		e.nestWalk = false
		if e.encPanic {
			return
		}
		if err := ps.FastCommit(1); err != nil {
			e.violation("C07", fmt.Sprintf("nesting walk %s depth %d: commit failed: %v", kind, depth, err))
			return
		}
		e.emitRegisters(ledger, emit)
		// reload on a fresh storage
		st2 := hx.NewStorage(ledger)
		var err error
		if kind == "map" {
			_, err = atree.NewMapWithRootID(st2, rootID, db())
		} else {
			_, err = atree.NewArrayWithRootID(st2, rootID)
		}
		switch {
		case err == nil && first != 0:
			e.violation("C07", fmt.Sprintf("nesting walk %s: depth %d reloads although depth %d did not", kind, depth, first))
		case err != nil && !strings.Contains(err.Error(), "exceeded max nested level"):
			e.violation("C07", fmt.Sprintf("nesting walk %s depth %d: committed container does not reload: %v", kind, depth, err))
			return
		case err != nil && first == 0:
			first = depth
		}
		if err == nil {
			e.st.Hit("directed:nesting-reloaded:" + kind)
		}
	}
	if first == 0 {
		e.directedFail(fmt.Sprintf("nesting walk %s: every depth up to %d reloads (the DecMode limit was not reached)", kind, maxDepth))
		return
	}
	e.st.Hit("observation:decmode-nesting-limit")
	e.st.Dist["observation:decmode-nesting-limit:first-failing-depth:"+kind] = first
	if emit {
		e.w.L("NEST kind=%s first=%d", kind, first)
	}
	e.st.Samples = append(e.st.Samples, fmt.Sprintf("OBSERVATION decmode-nesting-limit: inlined %s nested %d deep commit but do not reload under cbor.DecOptions{} (MaxNestedLevels 32); depth %d reloads", kind, first, first-1))
}

func (e *codecEnv) runDirectedPrograms(rng *rand.Rand, emit bool) {
	e.prog = 400
	e.runStorableRefProgram(rng, emit)
	e.st.Programs++
	for i, T := range []uint32{512, 1024} {
		e.prog = 410 + i
		e.runCompositeNonCompactProgram(rng, T, emit)
		e.st.Programs++
	}
	e.prog = 420
	e.runDigestLevelProgram(rng, emit)
	e.st.Programs++
	// (kind, T): 22-byte empty maps and 18-byte empty arrays fit 257 times into one slab at 8192;
	// compact maps and children of a map need 32768
	for i, c := range [][2]uint32{{0, 8192}, {1, 8192}, {2, 32768}, {3, 32768}, {0, 32768}} {
		e.prog = 430 + i
		e.runExtraDataLimitProgram(rng, c[1], int(c[0]), emit)
		e.st.Programs++
	}
	for i, k := range []struct {
		kind string
		max  int
	}{{"arr", 17}, {"map", 9}, {"warr", 12}} {
		e.prog = 440 + i
		e.runNestingWalk(rng, k.kind, k.max, emit)
		e.st.Programs++
	}
	// field names as compact-map keys (codecnamed.go); own PRNG: the programs above keep their inputs
	rng2 := rand.New(rand.NewSource(e.cfg.Seed*7919 + 12))
	e.prog = 450
	e.runCompactTypeIDProgram(rng2, emit)
	e.st.Programs++
	e.prog = 451
	e.runCompactSeparatorProbe(rng2)
	e.st.Programs++
	e.prog = 460
	e.runUintSizeTable(rng2, emit)
	e.st.Programs++
	e.runStorableSlabPrograms(rng, emit) // codecstorslab.go: size limit and inlined-container refusal of the StorableSlab
}
