package main

import (
	"fmt"
	"math/rand"
	"sync"
	"time"

	"github.com/onflow/atree"

	"verifharness/hx"
)

func init() { streams["malformedall"] = malformedAllStream }

// malformedAllStream (C19, model-free): registers of EVERY slab kind the library produces — map
// data / index / collision-group slabs, slabs with inlined arrays and maps, wrappers, compact maps,
// large-value slabs, array slabs — are truncated at every length and mutated (bit flips, byte
// overwrites, splices, deletions, length/tag edits); DecodeSlab, the three header queries and, on
// success, ByteSize / ChildStorables must neither panic nor hang (re-encoding is observed, not judged).
func malformedAllStream(cfg *Config) *hx.Stats {
	st := hx.NewStats("malformedall", cfg.Seed)
	rng := rand.New(rand.NewSource(cfg.Seed*48271 + 11))
	viol := func(what string) {
		if len(st.Violations) < 20 {
			st.Violations = append(st.Violations, hx.Violation{Property: "C19", Stream: "malformedall", Seed: cfg.Seed, What: what})
		}
	}
	atree.VerifSetThreshold(256)
	ledger := hx.NewLedger()
	ps := hx.NewStorage(ledger)
	addr := hx.MkAddr(1)
	// a multi-level map with collision groups (inline, external, last-level list)
	salt := uint64(rng.Int63())
	tb := &hx.TableDigesterBuilder{L: 3, Fn: func(k hx.TV, l uint) uint64 {
		return mix(k.Pay, uint64(l), salt) % []uint64{40, 2, 2}[l] * 977
	}}
	m, _ := atree.NewMap(ps, addr, tb, hx.TI(3))
	for i := 0; i < 160; i++ {
		_, _ = m.Set(hx.CompareKey, hx.HashInput, hx.TV{Size: 9, Pay: uint64(i + 1)}, hx.TV{Size: uint32(4 + i%50), Pay: uint64(i)})
	}
	// a multi-level map with real digests
	m2, _ := atree.NewMap(ps, addr, atree.NewDefaultDigesterBuilder(), hx.TI(4))
	for i := 0; i < 200; i++ {
		_, _ = m2.Set(hx.CompareKey, hx.HashInput, hx.TV{Size: 9, Pay: uint64(i + 1)}, hx.TV{Size: 12, Pay: uint64(i)})
	}
	// nested: array of (inlined arrays, inlined maps, wrapped children, compact maps, large values)
	outer, _ := atree.NewArray(ps, addr, hx.TI(5))
	for i := 0; i < 12; i++ {
		switch i % 4 {
		case 0:
			c, _ := atree.NewArray(ps, addr, hx.TI(6))
			for j := 0; j < 3; j++ {
				_ = c.Append(hx.TV{Size: 5, Pay: uint64(j)})
			}
			_ = outer.Append(c)
		case 1:
			c, _ := atree.NewMap(ps, addr, atree.NewDefaultDigesterBuilder(), hx.CTI(7))
			for j := 1; j <= 3; j++ {
				_, _ = c.Set(hx.CompareKey, hx.HashInput, hx.TV{Size: 9, Pay: uint64(j)}, hx.TV{Size: 4, Pay: uint64(j)})
			}
			_ = outer.Append(c)
		case 2:
			c, _ := atree.NewMap(ps, addr, atree.NewDefaultDigesterBuilder(), hx.TI(8))
			_, _ = c.Set(hx.CompareKey, hx.HashInput, hx.TV{Size: 9, Pay: 1}, hx.TV{Size: 4, Pay: 2})
			_ = outer.Append(hx.SomeValue{V: c})
		default:
			_ = outer.Append(hx.TV{Size: 200, Pay: uint64(i)})
		}
	}
	big, _ := atree.NewArray(ps, addr, hx.TI(9))
	for i := 0; i < 300; i++ {
		_ = big.Append(hx.TV{Size: 14, Pay: uint64(i)})
	}
	if err := ps.FastCommit(4); err != nil {
		st.HarnessErr = err.Error()
		return st
	}
	kinds := map[string]int{}
	var obsMu sync.Mutex
	obsEncodePanic := 0
	accepted := 0
	obsHuge := 0
	var tryT func(id atree.SlabID, b []byte, what string, limit time.Duration)
	try := func(id atree.SlabID, b []byte, what string) { tryT(id, b, what, 5*time.Second) }
	tryT = func(id atree.SlabID, b []byte, what string, limit time.Duration) {
		done := make(chan string, 1)
		go func() {
			defer func() {
				if r := recover(); r != nil {
					done <- fmt.Sprintf("panic: %v", r)
				}
			}()
			_, _ = atree.IsRootOfAnObject(b)
			_, _ = atree.HasPointers(b)
			_, _ = atree.HasSizeLimit(b)
			s, err := atree.DecodeSlab(id, b, hx.DecMode(), hx.DecodeStorable, hx.DecodeTypeInfo)
			if err == nil && s != nil {
				obsMu.Lock()
				accepted++
				obsMu.Unlock()
				_ = s.ByteSize()
				_ = s.ChildStorables()
				// Re-encoding an accepted slab is NOT part of C19 (the property names decoding, the header
				// queries and the size / child-reference accessors).  A panic here is counted as an
				// observation only (DESIGN.md 13.4, O1), never reported as a violation.
				func() {
					defer func() {
						if r := recover(); r != nil {
							obsMu.Lock()
							obsEncodePanic++
							obsMu.Unlock()
						}
					}()
					// (observation O1: canBeEncodedAsCompactMap allocates by the extra-data count of the
					// register; with a count of billions the call would exhaust memory, so it is not made)
					if _, huge := compactCountMismatch(atree.VerifDumpSlab(s, hx.Describe)); huge {
						obsMu.Lock()
						obsHuge++
						obsMu.Unlock()
						return
					}
					_, _ = atree.EncodeSlab(s, hx.EncMode())
				}()
			}
			done <- ""
		}()
		select {
		case r := <-done:
			if r != "" {
				viol(fmt.Sprintf("%s of register %s (%d bytes: %x): %s", what, hx.IDStr(id), len(b), b, r))
			}
		case <-time.After(limit):
			if limit < 120*time.Second {
				// a loaded machine can starve the goroutine for seconds: only a call that does not
				// return within a minute either is reported as a hang
				tryT(id, b, what, 120*time.Second)
				return
			}
			viol(fmt.Sprintf("%s of register %s: decoding does not return within 60 s (%x)", what, hx.IDStr(id), b))
		}
		st.Ops++
	}
	perReg := int(60 * cfg.Scale)
	for _, id := range ledger.SortedIDs() {
		reg := ledger.Seg[id]
		if len(reg) >= 2 {
			kinds[fmt.Sprintf("head=%02x%02x", reg[0]&0xf0, reg[1])]++
		}
		st.Programs++
		// every truncation
		for n := 0; n < len(reg); n++ {
			try(id, reg[:n], "truncation")
		}
		// directed: count fields vs. array lengths.  For every small CBOR array (k items) grow it by
		// duplicating its first item, alone and together with every earlier byte that holds k as a
		// small unsigned integer bumped to k+1 (a count field that "agrees" with the longer array
		// while a third length - e.g. the number of keys - does not).
		for _, m := range growArrayMutants(reg, 400) {
			try(id, m, "array-growth")
		}
		for k := 0; k < perReg; k++ {
			b := append([]byte(nil), reg...)
			switch rng.Intn(6) {
			case 0:
				i := rng.Intn(len(b))
				b[i] ^= 1 << uint(rng.Intn(8))
			case 1:
				b[rng.Intn(len(b))] = byte(rng.Intn(256))
			case 2:
				i := rng.Intn(len(b))
				b = append(b[:i], b[i+1:]...)
			case 3:
				i := rng.Intn(len(b) + 1)
				b = append(b[:i], append([]byte{byte(rng.Intn(256))}, b[i:]...)...)
			case 4: // edit a plausible length / count field
				i := rng.Intn(len(b))
				b[i] = []byte{0, 1, 0x17, 0x18, 0x19, 0x7f, 0x80, 0xff}[rng.Intn(8)]
			default: // splice with another register
				other := ledger.Seg[ledger.SortedIDs()[rng.Intn(len(ledger.Seg))]]
				i, j := rng.Intn(len(b)), rng.Intn(len(other))
				b = append(append([]byte(nil), b[:i]...), other[j:]...)
			}
			try(id, b, "mutation")
		}
	}
	// registers built from the slab grammar with per-field valid / boundary / invalid choices (grammar.go)
	nGram := int(12000 * cfg.Scale)
	obsMu.Lock()
	acc0 := accepted
	obsMu.Unlock()
	for i := 0; i < nGram && len(st.Violations) < 20; i++ {
		data, _ := genRegister(cfg.Seed*7000003+int64(i)+1<<40, i%2 == 1)
		try(hx.MkIDn(0x0102030405060708, uint64(1+i%200)), data, "grammar-built register")
	}
	st.Dist["grammar-built"] = nGram
	obsMu.Lock()
	gramOK := accepted - acc0
	obsMu.Unlock()
	st.Dist["grammar-built:accepted"] = gramOK
	if nGram > 0 && 100*gramOK < 30*nGram && len(st.Violations) == 0 {
		st.HarnessErr = fmt.Sprintf("grammar-aware generator: only %d of %d registers accepted (< 30%%)", gramOK, nGram)
	}
	for k, v := range kinds {
		st.Dist[k] = v
	}
	obsMu.Lock()
	st.Dist["observation:re-encode-of-accepted-mutant-panics"] = obsEncodePanic
	st.Dist["observation:re-encode-of-accepted-mutant-huge-count-not-called"] = obsHuge
	obsMu.Unlock()
	st.Distinct = int(st.Ops)
	st.Samples = append(st.Samples, fmt.Sprintf("%d registers (map data/index/collision-group, inlined arrays/maps, wrappers, compact maps, large values, array data/index): every truncation + %d mutations each", st.Programs, perReg))
	atree.VerifSetThreshold(1024)
	return st
}

// cborItemLen returns the encoded length of the CBOR data item starting at b[0] (definite lengths
// only), or 0 when it does not parse within b.
func cborItemLen(b []byte, depth int) int {
	if len(b) == 0 || depth > 16 {
		return 0
	}
	major, ai := b[0]>>5, b[0]&0x1f
	var arg uint64
	n := 1
	switch {
	case ai < 24:
		arg = uint64(ai)
	case ai == 24:
		if len(b) < 2 {
			return 0
		}
		arg, n = uint64(b[1]), 2
	case ai == 25:
		if len(b) < 3 {
			return 0
		}
		arg, n = uint64(b[1])<<8|uint64(b[2]), 3
	case ai == 26:
		if len(b) < 5 {
			return 0
		}
		arg, n = uint64(b[1])<<24|uint64(b[2])<<16|uint64(b[3])<<8|uint64(b[4]), 5
	case ai == 27:
		if len(b) < 9 {
			return 0
		}
		for i := 1; i <= 8; i++ {
			arg = arg<<8 | uint64(b[i])
		}
		n = 9
	default:
		return 0
	}
	switch major {
	case 0, 1, 7:
		return n
	case 2, 3:
		if arg > uint64(len(b)-n) {
			return 0
		}
		return n + int(arg)
	case 4, 5:
		items := arg
		if major == 5 {
			items *= 2
		}
		if items > uint64(len(b)) {
			return 0
		}
		for i := uint64(0); i < items; i++ {
			l := cborItemLen(b[n:], depth+1)
			if l == 0 {
				return 0
			}
			n += l
		}
		return n
	case 6:
		l := cborItemLen(b[n:], depth+1)
		if l == 0 {
			return 0
		}
		return n + l
	}
	return 0
}

// growArrayMutants: see the call site.
func growArrayMutants(reg []byte, limit int) [][]byte {
	var out [][]byte
	for j := 0; j < len(reg) && len(out) < limit; j++ {
		if reg[j] < 0x81 || reg[j] > 0x96 {
			continue
		}
		k := int(reg[j] - 0x80)
		if cborItemLen(reg[j:], 0) == 0 {
			continue
		}
		first := cborItemLen(reg[j+1:], 0)
		if first == 0 {
			continue
		}
		grown := append([]byte(nil), reg[:j]...)
		grown = append(grown, reg[j]+1)
		grown = append(grown, reg[j+1:j+1+first]...)
		grown = append(grown, reg[j+1:]...)
		out = append(out, grown)
		for i := 0; i < j && len(out) < limit; i++ {
			if int(reg[i]) == k {
				m := append([]byte(nil), grown...)
				m[i]++
				out = append(out, m)
			}
		}
	}
	return out
}
