package main

// Grammar-aware generator of registers for the `malformed` and `malformedall` streams (C19, C07).
//
// A register is built top-down from the slab grammar (both format versions, all seven slab kinds,
// the shared inlined-extra-data section, inlined arrays / maps / compact maps at several depths,
// collision groups, wrappers, type-info references).  Every FIELD of the grammar is a decision
// point: the generator first builds a valid register from a seed and counts its decision points,
// then rebuilds it from the same seed with 0-3 of the points deviating.  A deviating point takes a
// boundary or an invalid value of ITS OWN field and keeps everything else well formed:
//
//   - extra-data index ∈ {len-1, len, len+1, 255, 256, 2^32, an entry of the wrong kind},
//   - array counts ∈ {0, n-1, n+1} with as many (well-formed) items as announced, or a head that lies,
//   - fixed-length byte strings (slab index 8, slab ID 16, digests 8n) with length ±1, 0, doubled,
//   - digest count vs element count, key count vs digest count, value count vs key count,
//   - an item of another CBOR type where a uint / byte string / array / tag is expected,
//   - another tag number, an external collision group that is not a slab reference, a compact-map
//     key that is not comparable, zero extra-data entries, zero-child index slabs, child counts ±1,
//   - version nibbles above 1, undefined slab / array / map types, trailing bytes, truncation.
//
// Independently of the deviations every CBOR head is written in the encoder's form or, with a small
// probability, in any wider form (all five head widths occur at every field); these are VALID.
// Most registers are therefore accepted by DecodeSlab (the streams require >= 30 %), and a rejected
// one is rejected by exactly the check its deviating field belongs to.

import (
	"encoding/binary"
	"math/rand"
)

type gxd struct {
	kind  int // 0 array, 1 map, 2 compact map
	nkeys int
}

type ggen struct {
	r     *rand.Rand
	devAt map[int]bool
	pt    int
	devs  []string
	xd    []gxd
	inl   bool // the slab being generated has an inlined-extra-data section
	wide  float64
	bias  bool // more inlined children
}

func (g *ggen) p(x float64) bool { return g.r.Float64() < x }

// dev: is this decision point one of the deviating ones
func (g *ggen) dev(name string) bool {
	i := g.pt
	g.pt++
	if g.devAt[i] {
		g.devs = append(g.devs, name)
		return true
	}
	return false
}

// relabel: the deviation drawn last (the devs entry at index i, if one was appended since) turned out to be of
// another class than its name says (e.g. a count "overflow" whose sum still fits): the labels of gramLabel
// (grammarlabel.go) must say what the field IS, not what the generator tried
func (g *ggen) relabel(i int, name string) {
	if i < len(g.devs) {
		g.devs[i] = name
	}
}

func gMinW(n uint64) int {
	switch {
	case n < 24:
		return 0
	case n < 256:
		return 1
	case n < 65536:
		return 2
	case n < 1<<32:
		return 3
	}
	return 4
}

// gHeadW: CBOR head of the given width class (0 = immediate, 1, 2, 4, 8 argument bytes)
func gHeadW(major byte, n uint64, w int) []byte {
	switch w {
	case 0:
		return []byte{major<<5 | byte(n)}
	case 1:
		return []byte{major<<5 | 24, byte(n)}
	case 2:
		return []byte{major<<5 | 25, byte(n >> 8), byte(n)}
	case 3:
		b := []byte{major<<5 | 26, 0, 0, 0, 0}
		binary.BigEndian.PutUint32(b[1:], uint32(n))
		return b
	}
	b := []byte{major<<5 | 27, 0, 0, 0, 0, 0, 0, 0, 0}
	binary.BigEndian.PutUint64(b[1:], n)
	return b
}

// head: minimal width, sometimes any wider one (valid for the CBOR library's default DecMode)
func (g *ggen) head(major byte, n uint64) []byte {
	w := gMinW(n)
	if w < 4 && g.p(g.wide) {
		w += 1 + g.r.Intn(4-w)
	}
	return gHeadW(major, n, w)
}

// junk: a small well-formed CBOR item of a type chosen at random
func (g *ggen) junk() []byte {
	switch g.r.Intn(12) {
	case 0:
		return g.head(0, uint64(g.r.Intn(30)))
	case 1:
		return []byte{0x20 | byte(g.r.Intn(24))}
	case 2:
		return append(g.head(2, 2), 7, 9)
	case 3:
		return append(g.head(3, 2), 'h', 'i')
	case 4:
		return []byte{0x80}
	case 5:
		return append([]byte{0x81}, g.junk()...)
	case 6:
		return []byte{0xa0}
	case 7:
		return []byte{0xf6}
	case 8:
		return []byte{0xf9, 0x3c, 0x00}
	case 9:
		return append([]byte{0xc2}, append(g.head(2, 2), 1, 2)...)
	case 10:
		return append(g.head(6, uint64(200+g.r.Intn(56))), g.head(0, uint64(g.r.Intn(5)))...)
	default:
		return []byte{0x40}
	}
}

func (g *ggen) randLen() int {
	switch g.r.Intn(12) {
	case 0:
		return 0
	case 1:
		return 22 + g.r.Intn(4)
	case 2:
		return 253 + g.r.Intn(5)
	case 3:
		return 8
	case 4:
		return 16
	default:
		return 1 + g.r.Intn(12)
	}
}

func (g *ggen) content(l int) []byte {
	b := make([]byte, l)
	if l > 0 && g.p(0.8) {
		n := l
		if n > 8 {
			n = 8
		}
		b[n-1] = byte(g.r.Intn(256))
		if g.p(0.1) {
			g.r.Read(b)
		}
	}
	return b
}

// bytesOf: a definite-length byte string with this content; a deviating point writes it as an
// indefinite-length string, as a text string, with a head that announces one byte more, or replaces it
func (g *ggen) bytesOf(name string, c []byte) []byte {
	if g.dev(name + "-form") {
		switch g.r.Intn(4) {
		case 0:
			out := []byte{0x5f}
			out = append(out, g.head(2, uint64(len(c)))...)
			out = append(out, c...)
			return append(out, 0xff)
		case 1:
			return append(g.head(3, uint64(len(c))), c...)
		case 2:
			return append(g.head(2, uint64(len(c)+1)), c...)
		default:
			return g.junk()
		}
	}
	return append(g.head(2, uint64(len(c))), c...)
}

// fixedBytes: a byte string that must be exactly `want` bytes long
func (g *ggen) fixedBytes(name string, want int, fill func(l int) []byte) []byte {
	l := want
	if g.dev(name + "-len") {
		l = []int{want - 1, want + 1, 0, 2 * want, want + 8}[g.r.Intn(5)]
	}
	return g.bytesOf(name, fill(l))
}

// uintOf: an unsigned integer; `fixed8` = the encoder writes it as 0x18 n
func (g *ggen) uintOf(name string, n uint64, fixed8 bool) []byte {
	if g.dev(name + "-type") {
		switch g.r.Intn(3) {
		case 0:
			return []byte{0x20 | byte(n&0x0f)} // negative integer
		case 1:
			return append(g.head(2, 1), byte(n))
		default:
			return g.junk()
		}
	}
	if fixed8 && n < 256 && g.p(0.8) {
		return []byte{0x18, byte(n)}
	}
	return g.head(0, n)
}

func (g *ggen) randUint() uint64 {
	switch g.r.Intn(8) {
	case 0:
		return uint64(g.r.Intn(24))
	case 1:
		return uint64(g.r.Intn(300))
	case 2:
		return g.r.Uint64()
	case 3:
		return uint64(g.r.Uint32())
	case 4:
		return uint64(65530 + g.r.Intn(10))
	default:
		return uint64(g.r.Intn(5))
	}
}

var gTags = []uint64{160, 161, 165, 246, 247, 248, 249, 250, 251, 252, 253, 254, 255, 2, 3, 0, 24, 100, 55799}

// tag: a tag head; the encoder writes 0xd8 n
func (g *ggen) tag(name string, n uint64) []byte {
	if g.dev(name + "-tag") {
		if g.p(0.2) {
			return g.junk() // not a tag at all
		}
		for {
			m := gTags[g.r.Intn(len(gTags))]
			if m != n {
				n = m
				break
			}
		}
	}
	if n >= 24 && n < 256 && g.p(0.85) {
		return []byte{0xd8, byte(n)}
	}
	return g.head(6, n)
}

// fixedArray: an array that must have `want` items.  A deviating point changes the number of items
// and announces what follows (well-formed CBOR of the wrong shape: missing items at the end, or extra
// well-formed items), or announces one item more / fewer than follow.
func (g *ggen) fixedArray(name string, want int, item func(i int) []byte) []byte {
	announced, written := want, want
	if g.dev(name + "-count") {
		switch g.r.Intn(6) {
		case 0:
			announced, written = want-1, want-1
		case 1, 2:
			announced, written = want+1, want+1
		case 3:
			announced, written = 0, 0
		case 4:
			announced = want + 1
		default:
			announced = want - 1
		}
	}
	out := g.head(4, uint64(announced))
	for i := 0; i < written; i++ {
		if i < want {
			out = append(out, item(i)...)
		} else {
			out = append(out, g.junk()...)
		}
	}
	return out
}

// listHead: the head of a variable-length element array of n items; the encoder writes 0x99 hi lo
func (g *ggen) listHead(name string, n int) []byte {
	if g.dev(name + "-count") {
		switch g.r.Intn(3) {
		case 0:
			n++
		case 1:
			if n > 0 {
				n--
			} else {
				n += 2
			}
		default:
			return g.junk()
		}
	}
	if n < 65536 && g.p(0.7) {
		return []byte{0x99, byte(n >> 8), byte(n)}
	}
	return g.head(4, uint64(n))
}

func (g *ggen) slabIndex() []byte {
	return g.fixedBytes("slab-index", 8, func(l int) []byte {
		b := make([]byte, l)
		if l > 0 {
			b[l-1] = byte(1 + g.r.Intn(5))
		}
		if g.p(0.1) {
			g.r.Read(b)
		}
		return b
	})
}

func (g *ggen) slabIDRaw() []byte {
	b := make([]byte, 16)
	b[7] = byte(g.r.Intn(3))
	b[15] = byte(g.r.Intn(5))
	if g.p(0.1) {
		g.r.Read(b)
	}
	return b
}

// xdIndex: the extra-data index of an inlined slab of the given kind
func (g *ggen) xdIndex(kind int) (out []byte, entry int) {
	var cands []int
	for i, e := range g.xd {
		if e.kind == kind {
			cands = append(cands, i)
		}
	}
	n := uint64(len(g.xd))
	var i uint64
	if len(cands) > 0 {
		// boundary-heavy: the first and the last entry of the kind
		switch g.r.Intn(4) {
		case 0:
			i = uint64(cands[0])
		case 1:
			i = uint64(cands[len(cands)-1])
		default:
			i = uint64(cands[g.r.Intn(len(cands))])
		}
	} else {
		i = n
	}
	if g.dev("xd-index") {
		switch g.r.Intn(7) {
		case 0, 1:
			i = n // one past the end
		case 2:
			i = 255
		case 3:
			i = 256
		case 4:
			i = n + 1
		case 5:
			i = []uint64{1 << 32, 1 << 63, 1<<64 - 1, 65535}[g.r.Intn(4)]
		default: // an entry of another kind
			i = n
			for j, e := range g.xd {
				if e.kind != kind {
					i = uint64(j)
				}
			}
		}
	}
	entry = -1
	if i < n {
		entry = int(i)
	}
	return g.uintOf("xd-index", i, true), entry
}

func (g *ggen) hasXD(kind int) bool {
	for _, e := range g.xd {
		if e.kind == kind {
			return true
		}
	}
	return false
}

// value: a plain value of the harness (byte string, or tag 161 + byte string)
func (g *ggen) value() []byte {
	if g.p(0.15) {
		return append(g.tag("gap", 161), g.bytesOf("val", g.content(g.randLen()))...)
	}
	return g.bytesOf("val", g.content(g.randLen()))
}

func (g *ggen) slabIDStorable() []byte {
	out := g.tag("slabid", 255)
	return append(out, g.fixedBytes("slabid", 16, func(l int) []byte {
		b := make([]byte, l)
		if l > 15 {
			b[7], b[15] = byte(g.r.Intn(3)), byte(g.r.Intn(5))
		} else if l > 0 {
			b[l-1] = 1
		}
		return b
	})...)
}

func (g *ggen) storable(depth int) []byte {
	if g.dev("storable-shape") {
		return g.junk()
	}
	k := g.r.Intn(100)
	if g.bias && depth < 3 && g.p(0.5) {
		k = 55 + g.r.Intn(45)
	}
	if depth > 4 {
		k %= 45
	}
	switch {
	case k < 36:
		return g.value()
	case k < 46:
		return g.slabIDStorable()
	case k < 55:
		return append(g.tag("some", 165), g.storable(depth+1)...)
	}
	// inlined children need an entry of their kind in the shared section
	kinds := []int{}
	for kind := 0; kind < 3; kind++ {
		if g.inl && g.hasXD(kind) {
			kinds = append(kinds, kind)
		}
	}
	if len(kinds) == 0 {
		if g.dev("inlined-without-entry") {
			kinds = []int{g.r.Intn(3)}
		} else {
			return g.value()
		}
	}
	switch kinds[g.r.Intn(len(kinds))] {
	case 0:
		out := g.tag("inl-arr", 250)
		return append(out, g.fixedArray("inl-arr", 3, func(i int) []byte {
			switch i {
			case 0:
				b, _ := g.xdIndex(0)
				return b
			case 1:
				return g.slabIndex()
			}
			n := g.r.Intn(4)
			o := g.listHead("inl-arr-elems", n)
			for j := 0; j < n; j++ {
				o = append(o, g.storable(depth+1)...)
			}
			return o
		})...)
	case 1:
		out := g.tag("inl-map", 251)
		return append(out, g.fixedArray("inl-map", 3, func(i int) []byte {
			switch i {
			case 0:
				b, _ := g.xdIndex(1)
				return b
			case 1:
				return g.slabIndex()
			}
			return g.elements(depth+1, 0)
		})...)
	default:
		out := g.tag("inl-cmap", 252)
		entry := -1
		return append(out, g.fixedArray("inl-cmap", 3, func(i int) []byte {
			switch i {
			case 0:
				var b []byte
				b, entry = g.xdIndex(2)
				return b
			case 1:
				return g.slabIndex()
			}
			n := g.r.Intn(3)
			if entry >= 0 && g.xd[entry].kind == 2 {
				n = g.xd[entry].nkeys
			}
			if g.dev("cmap-value-count") {
				n = []int{n + 1, n + 2, (n + 2) % 3}[g.r.Intn(3)]
			}
			o := g.head(4, uint64(n))
			for j := 0; j < n; j++ {
				o = append(o, g.storable(depth+1)...)
			}
			return o
		})...)
	}
}

func (g *ggen) singleElem(depth int) []byte {
	return g.fixedArray("single-elem", 2, func(i int) []byte { return g.storable(depth) })
}

func (g *ggen) digests(nd int, single bool) []byte {
	dl := nd * 8
	at := len(g.devs)
	if g.dev("digest-len") {
		dl = []int{dl + 1, dl + 7, dl + 8, dl + 16, (dl + 64 - 8) % 64, dl + 4}[g.r.Intn(6)]
		if dl%8 == 0 {
			g.relabel(at, "digest-len-8n") // whole digests: another COUNT of digests, not a broken length
		}
	}
	c := make([]byte, dl)
	for i := range c {
		if i%8 == 7 {
			c[i] = byte(i/8 + 1)
		} else if g.p(0.05) {
			c[i] = byte(g.r.Intn(256))
		}
	}
	if g.dev("digest-form") {
		return g.bytesOf("digest", c) // (its own deviation draws another point; harmless)
	}
	switch {
	case single && dl == 0 && g.p(0.8):
		return []byte{0x40}
	case dl < 65536 && g.p(0.75):
		return append([]byte{0x59, byte(dl >> 8), byte(dl)}, c...)
	}
	return append(g.head(2, uint64(dl)), c...)
}

// elements: [level, digests, [element ...]]
func (g *ggen) elements(depth int, level int) []byte {
	n := g.r.Intn(4)
	single := g.p(0.2)
	var parts [3][]byte
	lv := uint64(level)
	if g.p(0.04) {
		lv = g.randUint() // any level is accepted by the decoder
	}
	if lv < 24 && g.p(0.8) {
		parts[0] = g.uintOf("level", lv, false)
		if len(parts[0]) > 1 && parts[0][0] == 0x18 {
			parts[0] = []byte{byte(lv)}
		}
	} else {
		parts[0] = g.uintOf("level", lv, false)
	}
	nd := n
	if single {
		nd = 0
	}
	if g.dev("digest-count") {
		nd = []int{n + 1, n + 2, (n + 3) % 4, 1}[g.r.Intn(4)]
	}
	parts[1] = g.digests(nd, single)
	o := g.listHead("elements-list", n)
	for j := 0; j < n; j++ {
		if single {
			o = append(o, g.singleElem(depth)...)
			continue
		}
		if g.dev("element-shape") {
			if g.p(0.5) {
				o = append(o, g.value()...) // a bare storable where an element is expected
			} else {
				o = append(o, g.junk()...)
			}
			continue
		}
		switch k := g.r.Intn(10); {
		case k < 6 || depth > 4:
			o = append(o, g.singleElem(depth)...)
		case k < 8:
			o = append(o, g.tag("inline-group", 253)...)
			o = append(o, g.elements(depth+1, level+1)...)
		case k < 9:
			o = append(o, g.tag("external-group", 254)...)
			at := len(g.devs)
			if g.dev("external-group-not-slabid") {
				switch g.r.Intn(3) {
				case 0:
					o = append(o, g.value()...)
				case 1:
					o = append(o, append(g.tag("some", 165), g.slabIDStorable()...)...)
				default:
					g.relabel(at, "external-group-any-storable") // (may well be a slab ID)
					o = append(o, g.storable(depth+1)...)
				}
			} else {
				o = append(o, g.slabIDStorable()...)
			}
		default:
			o = append(o, g.singleElem(depth)...)
		}
	}
	parts[2] = o
	return g.fixedArray("elements", 3, func(i int) []byte { return parts[i] })
}

// typeInfo: a plain or composite type info; inside the inlined-extra-data entries (nTis > 0) also a
// reference into the duplicate list, in every form cbor.Unmarshal(&uint64) accepts
func (g *ggen) typeInfo(nTis int) []byte {
	if nTis > 0 && g.p(0.5) {
		out := []byte{0xd8, 0xf6}
		if g.dev("tiref-tag-form") {
			out = gHeadW(6, 246, 2+g.r.Intn(3)) // a wide tag head is not recognised as a reference
		}
		idx := uint64(g.r.Intn(nTis))
		if g.dev("tiref-index") {
			idx = uint64(nTis + g.r.Intn(2))
		}
		if g.dev("tiref-value") {
			switch g.r.Intn(4) {
			case 0:
				return append(out, 0xf4) // false
			case 1:
				return append(out, 0xf9, 0, 0) // float16
			case 2:
				return append(out, 0x20|byte(idx)) // negative integer
			default:
				return append(out, 0xc3, 0x41, byte(idx)) // negative bignum
			}
		}
		switch g.r.Intn(14) {
		case 0:
			return append(out, 0xc2, 0x41, byte(idx)) // bignum
		case 1:
			return append(out, 0xd9, 0xd9, 0xf7, byte(idx)) // self-described
		case 2:
			if idx == 0 {
				return append(out, 0xf6) // nil leaves the zero value
			}
		case 3:
			return append(out, 0xc1, byte(idx)) // epoch tag + uint
		case 4:
			return append(out, 0xe0|byte(idx)) // simple value
		case 5:
			return append(out, 0xc2, 0x5f, 0x41, byte(idx), 0xff)
		}
		return append(out, g.head(0, idx)...)
	}
	if g.p(0.4) {
		return append(g.tag("composite-ti", 160), g.uintOf("ti", g.randUint(), false)...)
	}
	return g.uintOf("ti", g.randUint(), false)
}

func (g *ggen) mapExtra(nTis int) []byte {
	return g.fixedArray("map-extra", 3, func(i int) []byte {
		switch i {
		case 0:
			return g.typeInfo(nTis)
		case 1:
			return g.uintOf("map-count", g.randUint(), false)
		}
		return g.uintOf("map-seed", g.randUint(), false)
	})
}

func (g *ggen) arrExtra(nTis int) []byte {
	return g.fixedArray("arr-extra", 1, func(i int) []byte { return g.typeInfo(nTis) })
}

// iedSection: the shared inlined-extra-data section [[type infos], [entries]]
func (g *ggen) iedSection() []byte {
	g.xd = nil
	nTis := 0
	if g.p(0.5) || g.bias {
		nTis = 1 + g.r.Intn(2)
	}
	tis := g.head(4, uint64(nTis))
	if g.dev("ti-count") {
		tis = g.head(4, uint64(nTis+1))
	}
	for i := 0; i < nTis; i++ {
		tis = append(tis, g.typeInfo(0)...)
	}
	n := 1 + g.r.Intn(4)
	if g.dev("xd-count-zero") {
		n = 0
	}
	entries := g.listHeadPlain("xd-list", n)
	var xd []gxd
	for i := 0; i < n; i++ {
		k := g.r.Intn(3)
		if g.bias && g.p(0.5) {
			k = 2
		}
		switch k {
		case 0:
			xd = append(xd, gxd{0, 0})
			entries = append(entries, g.tag("xd-arr", 247)...)
			entries = append(entries, g.arrExtra(nTis)...)
		case 1:
			xd = append(xd, gxd{1, 0})
			entries = append(entries, g.tag("xd-map", 248)...)
			entries = append(entries, g.mapExtra(nTis)...)
		default:
			nk := g.r.Intn(3)
			xd = append(xd, gxd{2, nk})
			entries = append(entries, g.tag("xd-cmap", 249)...)
			entries = append(entries, g.fixedArray("xd-cmap", 3, func(i int) []byte {
				switch i {
				case 0:
					return g.mapExtra(nTis)
				case 1:
					nd := nk
					if g.dev("cmap-digest-count") {
						nd = []int{nk + 1, nk + 2, (nk + 2) % 3}[g.r.Intn(3)]
					}
					dl := nd * 8
					if g.dev("cmap-digest-len") {
						dl = []int{dl + 1, dl + 7, dl + 4}[g.r.Intn(3)]
					}
					c := make([]byte, dl)
					for j := range c {
						c[j] = byte(j)
					}
					return g.bytesOf("cmap-digest", c)
				}
				o := g.head(4, uint64(nk))
				for j := 0; j < nk; j++ {
					if g.dev("cmap-key-shape") {
						switch g.r.Intn(4) {
						case 0:
							o = append(o, append(g.tag("some", 165), g.value()...)...)
						case 1:
							o = append(o, g.slabIDStorable()...)
						case 2:
							o = append(o, append(g.tag("some", 165), append(g.tag("some", 165), g.slabIDStorable()...)...)...)
						default:
							o = append(o, g.junk()...)
						}
					} else {
						o = append(o, g.value()...)
					}
				}
				return o
			})...)
		}
	}
	g.xd = xd
	parts := [2][]byte{tis, entries}
	return g.fixedArray("ied", 2, func(i int) []byte { return parts[i] })
}

// listHeadPlain: a variable-length array head the encoder writes in minimal form
func (g *ggen) listHeadPlain(name string, n int) []byte {
	if g.dev(name + "-count") {
		if g.p(0.5) {
			n++
		} else if n > 0 {
			n--
		} else {
			n = 2
		}
	}
	return g.head(4, uint64(n))
}

// slab: one register
func (g *ggen) slab() []byte {
	g.xd = nil
	g.inl = false
	kind := g.r.Intn(10)
	version := byte(1)
	if g.p(0.25) && !g.bias {
		version = 0
	}
	if g.dev("version") {
		version = byte(2 + g.r.Intn(14))
	}
	root := g.p(0.5)
	hasNext := !root && g.p(0.6)
	if g.dev("root-with-next") {
		hasNext = !hasNext
	}
	hasInl := version == 1 && (g.p(0.6) || g.bias)
	b0 := version << 4
	var b1 byte
	if root {
		b1 |= 0x80
	}
	if g.p(0.3) {
		b1 |= 0x40
	}
	if g.p(0.1) {
		b1 |= 0x20
	}
	secondHead := func(out []byte) []byte {
		if version == 0 {
			if g.dev("v0-second-head") {
				if g.p(0.5) {
					return out
				}
				return append(out, 0)
			}
			return append(out, 0, b1)
		}
		return out
	}
	finish := func(out []byte) []byte {
		if g.dev("trailing") {
			for i := 1 + g.r.Intn(3); i > 0; i-- {
				out = append(out, byte(g.r.Intn(256)))
			}
		}
		if g.dev("truncate") && len(out) > 0 {
			if g.p(0.5) {
				out = out[:len(out)-1-g.r.Intn(minInt(3, len(out)))]
			} else {
				out = out[:g.r.Intn(len(out))]
			}
		}
		return out
	}
	next := func(out []byte) []byte {
		if (version == 1 && hasNext) || (version == 0 && !root) || (version > 1 && hasNext) {
			id := g.slabIDRaw()
			if g.dev("next-short") {
				id = id[:g.r.Intn(16)]
			}
			out = append(out, id...)
		}
		return out
	}
	switch {
	case kind < 3: // array data
		if g.dev("slab-type") {
			b1 = b1&0xe0 | []byte{2, 3, 4, 7, 0x10, 0x12}[g.r.Intn(6)]
		}
		if hasNext && version >= 1 {
			b0 |= 2
		}
		if hasInl {
			b0 |= 1
		}
		out := []byte{b0, b1}
		if root {
			out = append(out, g.arrExtra(0)...)
			out = secondHead(out)
		}
		if hasInl {
			g.inl = true
			out = append(out, g.iedSection()...)
		}
		out = next(out)
		n := g.r.Intn(5)
		// "data is too short for array element head": the head must leave at least three bytes
		var hd []byte
		at := len(g.devs)
		short := g.dev("elem-head-short")
		if short {
			hd = gHeadW(4, uint64(n), gMinW(uint64(n)))
			if g.p(0.5) {
				hd, n = []byte{0x80}, 0
				if g.p(0.5) {
					hd = []byte{0x98, 0}
				}
			}
		} else {
			hd = g.listHead("array-elems", n)
			if len(g.devs) == at && n <= 1 && len(hd) < 3 {
				// a VALID choice never leaves an element area below three bytes (no element, or a single one-byte
				// element, behind a one- or two-byte head: that is the deviation elem-head-short)
				hd = []byte{0x99, 0, byte(n)}
			}
		}
		area := len(out)
		out = append(out, hd...)
		for i := 0; i < n; i++ {
			out = append(out, g.storable(0)...)
		}
		if short && len(out)-area >= 3 {
			g.relabel(at, "elem-head-minimal") // head in minimal form, the area has its three bytes: valid
		}
		return finish(out)
	case kind < 7: // map data / collision group
		b1 |= 0x08
		if g.p(0.3) {
			b1 |= 0x03
		}
		if g.dev("slab-type") {
			b1 = b1&0xf8 | []byte{2, 4, 5, 6, 7}[g.r.Intn(5)]
		}
		if hasNext && version >= 1 {
			b0 |= 2
		}
		if hasInl {
			b0 |= 1
		}
		out := []byte{b0, b1}
		if root {
			out = append(out, g.mapExtra(0)...)
			out = secondHead(out)
		}
		if hasInl {
			g.inl = true
			out = append(out, g.iedSection()...)
		}
		out = next(out)
		out = append(out, g.elements(0, 0)...)
		return finish(out)
	case kind < 8: // array index slab
		b1 = b1&0xe0 | 0x01
		out := []byte{b0, b1}
		if root {
			out = append(out, g.arrExtra(0)...)
			out = secondHead(out)
		}
		n := g.r.Intn(4) // zero children are accepted by the decoders
		announced := n
		if g.dev("child-count") {
			announced = []int{n + 1, n + 2, (n + 3) % 4, 65535}[g.r.Intn(4)]
		}
		at := len(g.devs)
		overflow := g.dev("count-sum-overflow")
		var countSum uint64
		defer func() {
			if overflow && countSum <= 1<<32-1 {
				g.relabel(at, "count-sum-boundary") // counts at 2^32-1 / 2^32-2 whose sum still fits: valid
			}
		}()
		if version == 0 {
			out = append(out, byte(announced>>8), byte(announced))
			for i := 0; i < n; i++ {
				out = append(out, g.slabIDRaw()...)
				c := make([]byte, 8)
				cnt := uint32(g.r.Intn(300))
				if overflow {
					cnt = 1<<32 - 1 - uint32(g.r.Intn(2))
				}
				countSum += uint64(cnt)
				binary.BigEndian.PutUint32(c, cnt)
				binary.BigEndian.PutUint32(c[4:], uint32(g.randUint()))
				out = append(out, c...)
			}
		} else {
			out = append(out, g.slabIDRaw()[:8]...)
			out = append(out, byte(announced>>8), byte(announced))
			for i := 0; i < n; i++ {
				out = append(out, g.slabIDRaw()[8:]...)
				c := make([]byte, 6)
				cnt := uint32(g.r.Intn(300))
				if overflow {
					cnt = 1<<32 - 1 - uint32(g.r.Intn(2))
				}
				countSum += uint64(cnt)
				binary.BigEndian.PutUint32(c, cnt)
				binary.BigEndian.PutUint16(c[4:], uint16(g.randUint()))
				out = append(out, c...)
			}
		}
		return finish(out)
	case kind < 9: // map index slab
		b1 = b1&0xe0 | 0x09
		out := []byte{b0, b1}
		if root {
			out = append(out, g.mapExtra(0)...)
			out = secondHead(out)
		}
		n := g.r.Intn(4)
		announced := n
		if g.dev("child-count") {
			announced = []int{n + 1, n + 2, (n + 3) % 4, 65535}[g.r.Intn(4)]
		}
		if version == 0 {
			out = append(out, byte(announced>>8), byte(announced))
			for i := 0; i < n; i++ {
				out = append(out, g.slabIDRaw()...)
				c := make([]byte, 12)
				binary.BigEndian.PutUint64(c, g.randUint())
				binary.BigEndian.PutUint32(c[8:], uint32(g.randUint()))
				out = append(out, c...)
			}
		} else {
			out = append(out, g.slabIDRaw()[:8]...)
			out = append(out, byte(announced>>8), byte(announced))
			for i := 0; i < n; i++ {
				out = append(out, g.slabIDRaw()[8:]...)
				c := make([]byte, 10)
				binary.BigEndian.PutUint64(c, g.randUint())
				binary.BigEndian.PutUint16(c[8:], uint16(g.randUint()))
				out = append(out, c...)
			}
		}
		return finish(out)
	default: // large-value slab (any version nibble decodes)
		b1 = b1&0xe0 | 0x1f
		if g.p(0.1) {
			b0 = byte(g.r.Intn(16))<<4 | byte(g.r.Intn(4))
		}
		out := []byte{b0, b1}
		out = append(out, g.storable(0)...)
		return finish(out)
	}
}

func minInt(a, b int) int {
	if a < b {
		return a
	}
	return b
}

// genRegister builds the register of this seed: first without deviations (to count the decision
// points), then with 0-3 deviating points; one register in ten additionally gets one random byte edit.
func genRegister(seed int64, bias bool) (data []byte, devs []string) {
	g := &ggen{r: rand.New(rand.NewSource(seed)), wide: 0.08, bias: bias}
	g.slab()
	n := g.pt
	pick := rand.New(rand.NewSource(seed*2654435761 + 97))
	k := 0
	switch x := pick.Intn(100); {
	case x < 42:
		k = 0
	case x < 84:
		k = 1
	case x < 96:
		k = 2
	default:
		k = 3
	}
	devAt := map[int]bool{}
	for i := 0; i < k && n > 0; i++ {
		devAt[pick.Intn(n)] = true
	}
	g = &ggen{r: rand.New(rand.NewSource(seed)), wide: 0.08, bias: bias, devAt: devAt}
	data = g.slab()
	devs = g.devs
	if pick.Intn(10) == 0 && len(data) > 0 {
		devs = append(devs, "byte-edit")
		switch pick.Intn(4) {
		case 0:
			data[pick.Intn(len(data))] ^= 1 << uint(pick.Intn(8))
		case 1:
			i := pick.Intn(len(data))
			data = append(data[:i:i], append([]byte{byte(pick.Intn(256))}, data[i:]...)...)
		case 2:
			i := pick.Intn(len(data))
			data = append(data[:i:i], data[i+1:]...)
		default:
			data[pick.Intn(len(data))] = byte(pick.Intn(256))
		}
	}
	return data, devs
}
