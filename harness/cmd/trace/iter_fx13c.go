package main

// fx13c (sweep s3, mutants I06 / I07 and their map twins): the EXACT yield of the loaded-value
// iterators, model-free.
//
// The old oracle "the yielded values are an in-order subsequence of the full enumeration" accepts a
// truncated result: an iterator that STOPS at the first unloaded element / child instead of skipping
// it passes.  What the unchanged library does (array_iterator.go, map_iterator.go, storable.go):
//
//   - arrayLoadedSlabIterator.next / mapLoadedSlabIterator.next: a child of an index slab is visited
//     iff storage.RetrieveIfLoaded(header.slabID) != nil, otherwise "Skip this child because it
//     references unloaded slab. Try next child." (continue);
//   - arrayLoadedElementIterator.next / mapLoadedElementIterator.next -> getLoadedValue(storage, s):
//     `case SlabIDStorable: slab := storage.RetrieveIfLoaded(SlabID(storable)); if slab == nil {
//     return nil, nil }` - "Skip this element because it references unloaded slab. Try next element."
//     (the same for a WrapperStorable around a SlabIDStorable); the referenced slab may be a
//     large-value slab or the root of a stand-alone child container, the test is the same; every
//     other storable (plain values, INLINED children) is yielded through StoredValue; for maps the key
//     and the value are tested, in this order;
//   - mapLoadedElementIterator.next, `case *externalCollisionGroup: externalSlab :=
//     i.storage.RetrieveIfLoaded(e.slabID); if externalSlab == nil { continue }`: the pairs of an
//     external collision group are visited iff the group's slab is loaded; inline groups always.
//
// So: an element is yielded iff every slab on its way below the root (index slabs, its data slab,
// external collision-group slabs) and every slab its key / value refers to is loaded, and the yield
// is the full enumeration filtered by that predicate, in order.  The harness computes the element
// list with the slabs each element depends on by walking the COMMITTED tree on a separate, fully
// readable reference storage (VerifChildSlabIDs for the children of index slabs and the external
// groups of a data slab, Slab.ChildStorables for the elements), evaluates the predicate with
// RetrieveIfLoaded on the storage the iterator ran on, and requires EQUALITY.
//
// Required branches (full-scale runs): an unloaded slab in the MIDDLE with loaded, yielded elements
// after it - a child of an index slab followed by a loaded sibling, a referenced large value followed
// by further elements of its data slab, (maps) an external group followed by further elements of the
// data slab.  itLoadedHoles produces each of them deliberately once per commit round: everything
// loaded but one such slab.

import (
	"fmt"

	"github.com/onflow/atree"

	"verifharness/hx"
)

var iterLoadedRequired = []string{
	"arr:loaded:exact", "arr:loaded:hole:child", "arr:loaded:hole:value",
	"map:loaded:exact", "map:loaded:hole:child", "map:loaded:hole:value", "map:loaded:hole:group",
	"nest:loaded:exact", "nest:loaded:hole:child-root", "nest:loaded:standalone-child-unloaded", "nest:loaded:inlined-child-yielded",
}

// ldEntry is one element of a committed container with the slabs its visit depends on.
type ldEntry struct {
	key, val atree.Storable // key == nil for arrays
	path     []atree.SlabID // slabs below the root on the way to the element, top down
	group    []bool         // path[i] is an external collision-group slab (otherwise: a child of an index slab)
	leaf     atree.SlabID   // the slab whose element list holds the element (a data slab or a group slab)
	refs     []atree.SlabID // slabs the key / the value refer to
}

func ldRefs(s atree.Storable, out []atree.SlabID) []atree.SlabID {
	if w, ok := s.(atree.WrapperStorable); ok {
		s = w.UnwrapAtreeStorable()
	}
	if id, ok := s.(atree.SlabIDStorable); ok {
		out = append(out, atree.SlabID(id))
	}
	return out
}

// ldWalk lists the elements of the tree under root in enumeration order (ref must be able to read
// every slab).  problem != "" when the tree is not what the walk understands.
func ldWalk(ref atree.SlabStorage, root atree.Slab) (entries []ldEntry, problem string) {
	get := func(id atree.SlabID) atree.Slab {
		s, ok, err := ref.Retrieve(id)
		if err != nil || !ok {
			if problem == "" {
				problem = fmt.Sprintf("slab %s of the committed tree cannot be read (%v)", hx.IDStr(id), err)
			}
			return nil
		}
		return s
	}
	push := func(path []atree.SlabID, group []bool, id atree.SlabID, g bool) ([]atree.SlabID, []bool) {
		return append(append([]atree.SlabID(nil), path...), id), append(append([]bool(nil), group...), g)
	}
	var elems func(s atree.Slab, path []atree.SlabID, group []bool)
	elems = func(s atree.Slab, path []atree.SlabID, group []bool) {
		ext := map[atree.SlabID]bool{}
		for _, id := range atree.VerifChildSlabIDs(s) {
			ext[id] = true
		}
		cs := s.ChildStorables()
		for i := 0; i < len(cs); {
			if id, ok := cs[i].(atree.SlabIDStorable); ok && ext[atree.SlabID(id)] {
				if g := get(atree.SlabID(id)); g != nil {
					if _, ok := g.(*atree.MapDataSlab); !ok {
						problem = fmt.Sprintf("external collision group %s is a %T", hx.IDStr(atree.SlabID(id)), g)
						return
					}
					p2, g2 := push(path, group, atree.SlabID(id), true)
					elems(g, p2, g2)
				}
				i++
				continue
			}
			if i+1 >= len(cs) {
				problem = fmt.Sprintf("data slab %s lists a key without a value", hx.IDStr(s.SlabID()))
				return
			}
			entries = append(entries, ldEntry{key: cs[i], val: cs[i+1], path: path, group: group, leaf: s.SlabID(),
				refs: ldRefs(cs[i+1], ldRefs(cs[i], nil))})
			i += 2
		}
	}
	var rec func(s atree.Slab, path []atree.SlabID, group []bool)
	rec = func(s atree.Slab, path []atree.SlabID, group []bool) {
		switch s.(type) {
		case *atree.ArrayMetaDataSlab, *atree.MapMetaDataSlab:
			for _, id := range atree.VerifChildSlabIDs(s) {
				if c := get(id); c != nil {
					p2, g2 := push(path, group, id, false)
					rec(c, p2, g2)
				}
			}
		case *atree.ArrayDataSlab:
			for _, st := range s.ChildStorables() {
				entries = append(entries, ldEntry{val: st, path: path, group: group, leaf: s.SlabID(), refs: ldRefs(st, nil)})
			}
		case *atree.MapDataSlab:
			elems(s, path, group)
		default:
			problem = fmt.Sprintf("slab %s is a %T", hx.IDStr(s.SlabID()), s)
		}
	}
	rec(root, nil, nil)
	return entries, problem
}

// ldMiss says why an element is not visited on a storage: kind "" (it is visited), "child" (an
// unloaded child of index slab `parent`), "group" (an unloaded external group in the element list
// of `parent`), "value" (an unloaded slab its key or value refers to; parent = its leaf).
type ldMiss struct {
	kind   string
	parent atree.SlabID
	slab   atree.SlabID
}

func (x *ldEntry) miss(st atree.SlabStorage, root atree.SlabID) ldMiss {
	for k, id := range x.path {
		if st.RetrieveIfLoaded(id) == nil {
			parent := root
			if k > 0 {
				parent = x.path[k-1]
			}
			if x.group[k] {
				return ldMiss{"group", parent, id}
			}
			return ldMiss{"child", parent, id}
		}
	}
	for _, id := range x.refs {
		if st.RetrieveIfLoaded(id) == nil {
			return ldMiss{"value", x.leaf, id}
		}
	}
	return ldMiss{}
}

// ldExpected evaluates the predicate on st: the indices of the visited elements, why the first
// unvisited one is not visited, and the kinds of "hole in the middle" present: an unvisited element
// followed by a visited one that a stop (instead of a skip) at the unloaded slab would have lost.
func ldExpected(entries []ldEntry, st atree.SlabStorage, root atree.SlabID) (exp []int, misses []ldMiss, holes map[string]bool) {
	misses = make([]ldMiss, len(entries))
	for i := range entries {
		misses[i] = entries[i].miss(st, root)
		if misses[i].kind == "" {
			exp = append(exp, i)
		}
	}
	holes = map[string]bool{}
	leafAfter := map[atree.SlabID]bool{} // leaves of visited elements after position i
	pathAfter := map[atree.SlabID]bool{} // slabs on the way to visited elements after position i
	anyAfter := false
	for i := len(entries) - 1; i >= 0; i-- {
		m := misses[i]
		if m.kind == "" {
			anyAfter = true
			leafAfter[entries[i].leaf] = true
			for _, id := range entries[i].path {
				pathAfter[id] = true
			}
			continue
		}
		switch m.kind {
		case "child":
			if (m.parent == root && anyAfter) || pathAfter[m.parent] {
				holes["child"] = true
			}
		case "group":
			if leafAfter[m.parent] {
				holes["group"] = true
			}
		case "value":
			if leafAfter[m.parent] {
				holes["value"] = true
			}
		}
	}
	return exp, misses, holes
}

// ldResolve turns a stored element into the plain value (through the reference storage).
func ldResolve(ref *atree.PersistentSlabStorage, s atree.Storable) (hx.TV, bool) {
	return itResolve(ref, s)
}

// ldDiff describes the first difference between the yield and the expectation.
func ldDiff(nGot, nExp int, same func(i int) bool, describe func(i int) string) string {
	n := nGot
	if nExp < n {
		n = nExp
	}
	for i := 0; i < n; i++ {
		if !same(i) {
			return fmt.Sprintf("first difference at position %d of the yield (expected %s)", i, describe(i))
		}
	}
	if nGot < nExp {
		return fmt.Sprintf("the yield ends after %d elements; the next expected one is %s", nGot, describe(nGot))
	}
	return fmt.Sprintf("the yield has %d elements more than expected", nGot-nExp)
}

// ---------------------------------------------------------------------------------------------
// arrays

// committedEntries walks the committed array on a reference storage and checks the walk against
// the element sequence.
func (e *itArr) committedEntries() (*atree.PersistentSlabStorage, []ldEntry, []hx.TV, bool) {
	ref := hx.NewStorage(e.ledger)
	root, ok, err := ref.Retrieve(e.arr.SlabID())
	if err != nil || !ok {
		e.violation("C03", "committed array root cannot be read: "+errLine(err))
		return nil, nil, nil, false
	}
	entries, problem := ldWalk(ref, root)
	if problem != "" {
		e.violation("C13", "structural walk of the committed array: "+problem)
		return nil, nil, nil, false
	}
	full := make([]hx.TV, len(entries))
	for i := range entries {
		tv, ok := ldResolve(ref, entries[i].val)
		if !ok {
			e.violation("C13", fmt.Sprintf("structural walk of the committed array: element %d (%s) does not resolve to a value", i, itRenderStorable(entries[i].val)))
			return nil, nil, nil, false
		}
		full[i] = tv
	}
	if !equalTV(full, e.shadow) {
		e.violation("C13", fmt.Sprintf("the data slabs of the committed array, read left to right, hold %d elements; the sequence has %d (or they differ)", len(full), len(e.shadow)))
		return nil, nil, nil, false
	}
	return ref, entries, full, true
}

// loadedExact: the yield `got` of a loaded-value iteration over the committed array on storage st
// must be EXACTLY the elements whose slabs are loaded in st.
func (e *itArr) loadedExact(what string, st *atree.PersistentSlabStorage, got []hx.TV) {
	_, entries, full, ok := e.committedEntries()
	if !ok {
		return
	}
	rootID := e.arr.SlabID()
	exp, misses, holes := ldExpected(entries, st, rootID)
	e.st.Hit("arr:loaded:exact")
	for k := range holes {
		e.st.Hit("arr:loaded:hole:" + k)
	}
	same := len(got) == len(exp)
	for i := 0; same && i < len(exp); i++ {
		same = got[i] == full[exp[i]]
	}
	if same {
		return
	}
	firstMiss := "none"
	for i, m := range misses {
		if m.kind != "" {
			firstMiss = fmt.Sprintf("element %d (unloaded %s slab %s)", i, m.kind, hx.IDStr(m.slab))
			break
		}
	}
	e.violation("C13", fmt.Sprintf("%s: loaded-value iteration yielded %d values; exactly the %d elements (of %d) whose index slabs, data slab and referenced slab are loaded must be yielded, in order: %s; first element that is not loaded: %s",
		what, len(got), len(exp), len(entries),
		ldDiff(len(got), len(exp), func(i int) bool { return got[i] == full[exp[i]] },
			func(i int) string {
				return fmt.Sprintf("element %d = %d:v%d", exp[i], full[exp[i]].Size, full[exp[i]].Pay)
			}),
		firstMiss))
}

// ldHoleCandidates: slabs whose absence (everything else loaded) leaves a hole in the MIDDLE.
func ldHoleCandidates(entries []ldEntry, root atree.SlabID) map[string][]atree.SlabID {
	out := map[string][]atree.SlabID{}
	n := len(entries)
	last := map[atree.SlabID]int{} // last element index under a slab / in a leaf's own list
	lastLeaf := map[atree.SlabID]int{}
	last[root] = n - 1
	for i, x := range entries {
		for _, id := range x.path {
			last[id] = i
		}
		lastLeaf[x.leaf] = i
	}
	seen := map[atree.SlabID]bool{}
	for i, x := range entries {
		for k, id := range x.path {
			if seen[id] {
				continue
			}
			seen[id] = true
			parent := root
			if k > 0 {
				parent = x.path[k-1]
			}
			if x.group[k] {
				// an element of the parent's own list after the group
				if lastLeaf[parent] > last[id] {
					out["group"] = append(out["group"], id)
				}
			} else if last[parent] > last[id] {
				out["child"] = append(out["child"], id)
			}
		}
		if len(x.refs) > 0 && lastLeaf[x.leaf] > i {
			out["value"] = append(out["value"], x.refs[0])
		}
	}
	return out
}

// itLoadedHoles: per kind of hole one fresh storage with everything loaded but one slab.
func (e *itArr) itLoadedHoles() {
	_, entries, _, ok := e.committedEntries()
	if !ok {
		return
	}
	cands := ldHoleCandidates(entries, e.arr.SlabID())
	for _, kind := range []string{"child", "value"} {
		c := cands[kind]
		if len(c) == 0 {
			e.st.Hit("arr:loaded:directed-hole:" + kind + ":no-candidate")
			continue
		}
		drop := c[e.rng.Intn(len(c))]
		fresh := hx.NewStorage(e.ledger)
		load := func() {
			for _, id := range e.ledger.SortedIDs() {
				if id != drop {
					_, _, _ = fresh.Retrieve(id)
				}
			}
		}
		before := e.rng.Intn(2) == 0
		if before {
			load()
		}
		a2, err := atree.NewArrayWithRootID(fresh, e.arr.SlabID())
		if err != nil {
			e.violation("C03", "cannot reopen committed array: "+errLine(err))
			return
		}
		if !before {
			load()
		}
		ld := loadedIDs(fresh)
		var got []hx.TV
		bad := false
		err = a2.IterateReadOnlyLoadedValues(collectTV(&got, &bad))
		e.w.L("IT arr h=0 kind=loaded ld=%s", idList(ld))
		e.st.Hit("arr:loaded:directed-hole:" + kind)
		if err != nil {
			e.obsErr(err)
			e.violation("C13", "loaded-value iteration failed: "+errLine(err))
			return
		}
		e.w.L("OBS ok:%s", tvList(got))
		if bad {
			e.violation("C13", "loaded-value iteration yielded a value of an unexpected type")
		}
		if after := loadedIDs(fresh); !sameIDs(ld, after) {
			e.violation("C13", fmt.Sprintf("loaded-value iteration loaded or dropped slabs: %d before, %d after", len(ld), len(after)))
		}
		if !isSubsequence(got, e.shadow) {
			e.violation("C13", fmt.Sprintf("array with one unloaded %s slab (%s): %d yielded values are not an in-order subsequence of the %d elements", kind, hx.IDStr(drop), len(got), len(e.shadow)))
		}
		e.loadedExact(fmt.Sprintf("array with everything loaded but the %s slab %s", kind, hx.IDStr(drop)), fresh, got)
	}
}

// ---------------------------------------------------------------------------------------------
// maps

func (e *itMap) committedEntries() (*atree.PersistentSlabStorage, []ldEntry, []kvTV, bool) {
	ref := hx.NewStorage(e.ledger)
	root, ok, err := ref.Retrieve(e.m.SlabID())
	if err != nil || !ok {
		e.violation("C03", "committed map root cannot be read: "+errLine(err))
		return nil, nil, nil, false
	}
	entries, problem := ldWalk(ref, root)
	if problem != "" {
		e.violation("C13", "structural walk of the committed map: "+problem)
		return nil, nil, nil, false
	}
	full := make([]kvTV, len(entries))
	for i := range entries {
		k, ok1 := ldResolve(ref, entries[i].key)
		v, ok2 := ldResolve(ref, entries[i].val)
		if !ok1 || !ok2 {
			e.violation("C13", fmt.Sprintf("structural walk of the committed map: entry %d (%s=%s) does not resolve to values", i, itRenderStorable(entries[i].key), itRenderStorable(entries[i].val)))
			return nil, nil, nil, false
		}
		full[i] = kvTV{k, v}
	}
	live := e.fullList()
	same := len(live) == len(full)
	for i := 0; same && i < len(full); i++ {
		same = live[i] == full[i]
	}
	if !same {
		e.violation("C13", fmt.Sprintf("the data slabs and collision groups of the committed map, read left to right, hold %d entries; the read-only enumeration of the live map yields %d (or they differ)", len(full), len(live)))
		return nil, nil, nil, false
	}
	return ref, entries, full, true
}

func (e *itMap) loadedExact(what string, st *atree.PersistentSlabStorage, got []kvTV) {
	_, entries, full, ok := e.committedEntries()
	if !ok {
		return
	}
	exp, misses, holes := ldExpected(entries, st, e.m.SlabID())
	e.st.Hit("map:loaded:exact")
	for k := range holes {
		e.st.Hit("map:loaded:hole:" + k)
	}
	same := len(got) == len(exp)
	for i := 0; same && i < len(exp); i++ {
		same = got[i] == full[exp[i]]
	}
	if same {
		return
	}
	firstMiss := "none"
	for i, m := range misses {
		if m.kind != "" {
			firstMiss = fmt.Sprintf("entry %d (unloaded %s slab %s)", i, m.kind, hx.IDStr(m.slab))
			break
		}
	}
	e.violation("C13", fmt.Sprintf("%s: loaded-value iteration yielded %d entries; exactly the %d entries (of %d) whose index slabs, data slab, collision-group slab and referenced slabs are loaded must be yielded, in order: %s; first entry that is not loaded: %s",
		what, len(got), len(exp), len(entries),
		ldDiff(len(got), len(exp), func(i int) bool { return got[i] == full[exp[i]] },
			func(i int) string {
				p := full[exp[i]]
				return fmt.Sprintf("entry %d = %d:v%d=%d:v%d", exp[i], p.k.Size, p.k.Pay, p.v.Size, p.v.Pay)
			}),
		firstMiss))
}

func (e *itMap) itLoadedHoles(mk func() atree.DigesterBuilder) {
	_, entries, full, ok := e.committedEntries()
	if !ok {
		return
	}
	cands := ldHoleCandidates(entries, e.m.SlabID())
	for _, kind := range []string{"child", "value", "group"} {
		c := cands[kind]
		if len(c) == 0 {
			e.st.Hit("map:loaded:directed-hole:" + kind + ":no-candidate")
			continue
		}
		drop := c[e.rng.Intn(len(c))]
		fresh := hx.NewStorage(e.ledger)
		load := func() {
			for _, id := range e.ledger.SortedIDs() {
				if id != drop {
					_, _, _ = fresh.Retrieve(id)
				}
			}
		}
		before := e.rng.Intn(2) == 0
		if before {
			load()
		}
		m2, err := atree.NewMapWithRootID(fresh, e.m.SlabID(), mk())
		if err != nil {
			e.violation("C03", "cannot reopen committed map: "+errLine(err))
			return
		}
		if !before {
			load()
		}
		ld := loadedIDs(fresh)
		var got []kvTV
		bad := false
		err = m2.IterateReadOnlyLoadedValues(func(k, v atree.Value) (bool, error) {
			kt, ok1 := k.(hx.TV)
			vt, ok2 := v.(hx.TV)
			bad = bad || !ok1 || !ok2
			got = append(got, kvTV{kt, vt})
			return true, nil
		})
		e.w.L("IT map h=0 kind=loaded ld=%s", idList(ld))
		e.st.Hit("map:loaded:directed-hole:" + kind)
		if err != nil {
			e.w.L("OBS err:%s", hx.ErrKind(err))
			e.violation("C13", "loaded-value iteration failed: "+errLine(err))
			return
		}
		e.w.L("OBS ok:%s", kvList(got))
		if bad {
			e.violation("C13", "loaded-value iteration yielded a value of an unexpected type")
		}
		if after := loadedIDs(fresh); !sameIDs(ld, after) {
			e.violation("C13", fmt.Sprintf("loaded-value iteration loaded or dropped slabs: %d before, %d after", len(ld), len(after)))
		}
		if !isSubsequence(got, full) {
			e.violation("C13", fmt.Sprintf("map with one unloaded %s slab (%s): %d yielded entries are not an in-order subsequence of the %d entries", kind, hx.IDStr(drop), len(got), len(full)))
		}
		e.loadedExact(fmt.Sprintf("map with everything loaded but the %s slab %s", kind, hx.IDStr(drop)), fresh, got)
	}
}

// ---------------------------------------------------------------------------------------------
// parents whose elements are child containers (iternest.go, no model): a stand-alone child is a
// SlabIDStorable to its root slab - getLoadedValue skips it iff that ROOT slab is unloaded, whatever
// else of the child is loaded; an INLINED child is part of the parent's data slab and is always
// yielded; the further slabs of a stand-alone child do not matter for the parent's yield.

// loadedPartial runs the parent's loaded-value iterator on fresh storages holding a subset of the
// committed slabs and requires exactly the slots whose slabs are loaded, in order, each yielded
// child equal to its shadow.  The parent must be committed.
func (e *inEnv) loadedPartial(when string) {
	if e.failed {
		return
	}
	rootID := atree.SlabIDUndefined
	if e.isMap {
		rootID = e.pm.SlabID()
	} else {
		rootID = e.pa.SlabID()
	}
	ref := hx.NewStorage(e.ledger)
	root, ok, err := ref.Retrieve(rootID)
	if err != nil || !ok {
		e.viol(when + ": committed parent root cannot be read: " + errLine(err))
		return
	}
	entries, problem := ldWalk(ref, root)
	if problem != "" {
		e.viol(when + ": structural walk of the committed parent: " + problem)
		return
	}
	if len(entries) != len(e.slots) {
		e.viol(fmt.Sprintf("%s: the data slabs of the committed parent hold %d elements, the shadow has %d", when, len(entries), len(e.slots)))
		return
	}
	for i := range entries {
		_, isPlain := entries[i].val.(hx.TV)
		if isPlain != (e.slots[i].child == nil) {
			e.viol(fmt.Sprintf("%s: slot %d of the committed parent holds %s, the shadow says child=%v", when, i, itRenderStorable(entries[i].val), e.slots[i].child != nil))
			return
		}
	}
	ids := e.ledger.SortedIDs()
	tree := treeIDs(ref, root) // the parent's own slabs
	cands := ldHoleCandidates(entries, rootID)
	for mode := 0; mode < 6 && !e.failed; mode++ {
		fresh := hx.NewStorage(e.ledger)
		skip := map[atree.SlabID]bool{}
		switch mode {
		case 0: // everything but the root of one stand-alone child that further elements of its data slab follow
			if c := cands["value"]; len(c) > 0 {
				skip[c[e.rng.Intn(len(c))]] = true
			}
		case 1: // the parent's own tree only: no stand-alone child is loaded
			for _, id := range ids {
				skip[id] = !tree[id]
			}
		case 2: // everything but one data slab of the parent with later siblings (if the parent has several)
			if c := cands["child"]; len(c) > 0 {
				skip[c[e.rng.Intn(len(c))]] = true
			}
		case 3: // everything
		default: // each slab with probability p
			p := []float64{0.3, 0.6, 0.85}[e.rng.Intn(3)]
			for _, id := range ids {
				skip[id] = e.rng.Float64() >= p
			}
		}
		load := func() {
			for _, id := range ids {
				if !skip[id] {
					_, _, _ = fresh.Retrieve(id)
				}
			}
		}
		before := e.rng.Intn(2) == 0
		if before {
			load()
		}
		var pa *atree.Array
		var pm *atree.OrderedMap
		if e.isMap {
			pm, err = atree.NewMapWithRootID(fresh, rootID, e.builder())
		} else {
			pa, err = atree.NewArrayWithRootID(fresh, rootID)
		}
		if err != nil {
			e.viol(when + ": cannot reopen the committed parent: " + errLine(err))
			return
		}
		if !before {
			load()
		}
		ld := loadedIDs(fresh)
		exp, misses, holes := ldExpected(entries, fresh, rootID)
		var keys, vals []atree.Value
		if e.isMap {
			err = pm.IterateReadOnlyLoadedValues(func(k, v atree.Value) (bool, error) {
				keys, vals = append(keys, k), append(vals, v)
				return true, nil
			})
		} else {
			err = pa.IterateReadOnlyLoadedValues(func(v atree.Value) (bool, error) {
				vals = append(vals, v)
				return true, nil
			})
		}
		what := fmt.Sprintf("%s: loaded-value iteration over the parent with %d of %d slabs loaded (mode %d)", when, len(ld), len(ids), mode)
		if err != nil {
			e.viol(what + " failed: " + errLine(err))
			return
		}
		if after := loadedIDs(fresh); !sameIDs(ld, after) {
			e.viol(fmt.Sprintf("%s loaded or dropped slabs: %d before, %d after", what, len(ld), len(after)))
		}
		e.st.Hit("nest:loaded:exact")
		if len(vals) != len(exp) {
			firstMiss := "none"
			for i, m := range misses {
				if m.kind != "" {
					firstMiss = fmt.Sprintf("slot %d (unloaded %s slab %s)", i, m.kind, hx.IDStr(m.slab))
					break
				}
			}
			e.viol(fmt.Sprintf("%s yielded %d elements; exactly the %d slots (of %d) whose data slab is loaded and whose stand-alone child has its root slab loaded must be yielded; first slot that is not loaded: %s",
				what, len(vals), len(exp), len(entries), firstMiss))
			return
		}
		inlinedYielded := false
		for j, i := range exp {
			sl := e.slots[i]
			if e.isMap && keys[j] != atree.Value(sl.key) {
				e.viol(fmt.Sprintf("%s: position %d yielded key %v, the %d-th loaded slot has key %v", what, j, keys[j], j, sl.key))
				return
			}
			if sl.child == nil {
				if tv, _ := vals[j].(hx.TV); tv != sl.plain {
					e.viol(fmt.Sprintf("%s: position %d yielded %v, loaded slot %d holds %v", what, j, vals[j], i, sl.plain))
					return
				}
				continue
			}
			if d := e.sameChild(vals[j], sl.child); d != "" {
				e.viol(fmt.Sprintf("%s: position %d must be the child of slot %d, but the yielded value %s", what, j, i, d))
				return
			}
			if _, isRef := entries[i].val.(atree.SlabIDStorable); !isRef {
				inlinedYielded = true
			}
		}
		if inlinedYielded {
			e.st.Hit("nest:loaded:inlined-child-yielded")
		}
		if holes["value"] {
			e.st.Hit("nest:loaded:hole:child-root")
		}
		if holes["child"] {
			e.st.Hit("nest:loaded:hole:parent-data-slab")
		}
		for _, m := range misses {
			if m.kind == "value" {
				e.st.Hit("nest:loaded:standalone-child-unloaded")
				break
			}
		}
	}
}
