package main

// Compact maps whose keys are FIELD NAMES (sweep s5, S1).
//
// The library identifies the compact type of an inlined composite map by a STRING
// (compactmap_extradata.go, makeCompactMapTypeID): the encoded type info, then the IDs of the keys
// (ComparableStorable.ID()) in sorted order, all joined by the separator ",".  That string is the key of
// the encoder's per-slab table InlinedExtraData.compactMapTypeSet (extradata.go, addCompactMapExtraData):
// a second map with the same string adopts the entry - index AND cached key list - of the first.
//
// The harness's first key type, hx.TV, has a self-delimiting ID ("tv<size>.<pay>"): its IDs can be put
// side by side without a separator and still be told apart, so nothing the streams did before could see a
// lost separator.  hx.NK is a key whose ID is the bare name.  The programs here (and, with e.named set,
// runInlineProgram of codecmap.go; the compact stream has its own) give same-typed sibling maps field sets
// that concatenate to the same string, are prefixes of each other, or are empty.  Oracles: the ordinary
// ones of the codec stream (EncodeSlab succeeds, bytes = model's bytes, round trip, length law), the commit
// succeeds, and a brand-new storage reads every field of every child back under its own name.
//
// NOT part of the oracle, but reproduced on every run as an OBSERVATION about the unchanged library
// (observation:compact-type-id-not-injective-for-ids-containing-separator): the separator is not escaped.
// Two composite maps of one type with the key sets {"a,b"} and {"a","b"} (or {"a,b","c"} / {"a","b,c"})
// get the same type ID "<type info>,a,b" (",a,b,c"); the second one adopts the cached keys of the first
// and encodeAsInlinedCompactMap fails with an EncodingError ("number of elements 2 is different from number
// of elements in cached compact map type 1", resp. "failed to find key ..."): the parent slab cannot be
// encoded, the commit fails (nothing is written), until one of the two children leaves the slab.  The
// contract that excludes it: the ID() of a compact-map key never contains ",".  The programs above keep
// the comma out of their names.

import (
	"bytes"
	"fmt"
	"math/rand"
	"sort"
	"strings"

	"github.com/fxamacker/cbor/v2"
	"github.com/onflow/atree"

	"verifharness/hx"
)

// nkNames: names over a tiny alphabet - most are prefixes of others, many pairs of subsets concatenate to
// the same string, one is empty.  No comma (see above); none looks like the ID of a TV ("tv...").
var nkNames = []string{"", "a", "b", "c", "ab", "bc", "abc", "aa", "aab", "ba", "a.", ".b", "b.c", "x", "abcabcab"}

// nkNameFamilies: same-typed siblings with these field sets would share a type ID if a separator were lost
// (all separators; only the first one; only between the type info and the names)
var nkNameFamilies = [][][]string{
	{{"ab", "c"}, {"a", "bc"}},
	{{"a", "bc", "x"}, {"ab", "c", "x"}},
	{{"", "ab"}, {"a", "b"}, {"ab"}},
	{{"a"}, {"", "a"}, {""}},
	{{"abc"}, {"ab", "c"}, {"a", "bc"}, {"a", "b", "c"}},
	{{"aa", "b", "x"}, {"a", "ab", "x"}, {"aab", "x"}, {"a", "a.", "b"}},
}

func (x *inlEnv) nkSubset(n int) []string {
	perm := x.rng.Perm(len(nkNames))
	out := make([]string, 0, n)
	for _, i := range perm[:n] {
		out = append(out, nkNames[i])
	}
	return out
}

// runCompactTypeIDProgram: per family one parent (array or map) holding one inlined composite map per
// field set, all of the same type info.
func (e *codecEnv) runCompactTypeIDProgram(rng *rand.Rand, emit bool) {
	for fi, fam := range nkNameFamilies {
		T := []uint32{1024, 512, 2048}[fi%3]
		atree.VerifSetThreshold(T)
		ledger := hx.NewLedger()
		ps := hx.NewStorage(ledger)
		addr := hx.MkAddr(uint64(1 + rng.Intn(1<<16)))
		if emit {
			e.w.L("CFG T=%d directed compact-type-id family=%d", T, fi)
		}
		parentIsMap := rng.Intn(3) == 0
		var parr *atree.Array
		var pmap *atree.OrderedMap
		var err error
		if parentIsMap {
			pmap, err = atree.NewMap(ps, addr, atree.NewDefaultDigesterBuilder(), hx.TI(40))
		} else {
			parr, err = atree.NewArray(ps, addr, hx.TI(40))
		}
		if err != nil {
			e.directedFail(err.Error())
			return
		}
		ty := hx.CTI(uint64(rng.Intn(3)))
		// every field set twice (the second copy in another insertion order: same type, one entry), then once more
		// under another type info
		type kid struct {
			names []string
			vals  map[string]hx.TV
			ty    hx.CTI
		}
		var kids []kid
		add := func(names []string, ty hx.CTI) bool {
			c, err := atree.NewMap(ps, addr, atree.NewDefaultDigesterBuilder(), ty)
			if err != nil {
				e.directedFail(err.Error())
				return false
			}
			k := kid{names: names, vals: map[string]hx.TV{}, ty: ty}
			for _, n := range names {
				v := hx.TV{Size: uint32(2 + rng.Intn(7)), Pay: uint64(1 + rng.Intn(200))}
				if _, err := c.Set(hx.CompareKey, hx.HashInput, hx.NK{Name: n}, v); err != nil {
					e.violation("C02", "set of a named field failed: "+err.Error())
					return false
				}
				k.vals[n] = v
			}
			var v atree.Value = c
			if rng.Intn(5) == 0 {
				v = hx.SomeValue{V: v}
			}
			if parr != nil {
				err = parr.Append(v)
			} else {
				_, err = pmap.Set(hx.CompareKey, hx.HashInput, hx.TV{Size: 9, Pay: uint64(7000 + len(kids))}, v)
			}
			if err != nil {
				e.violation("C10", "attaching a composite child with named fields failed: "+err.Error())
				return false
			}
			kids = append(kids, k)
			return true
		}
		for _, names := range fam {
			if !add(names, ty) {
				return
			}
		}
		for _, names := range fam {
			rev := append([]string(nil), names...)
			rng.Shuffle(len(rev), func(i, j int) { rev[i], rev[j] = rev[j], rev[i] })
			if !add(rev, ty) {
				return
			}
		}
		if !add(fam[0], ty+1) {
			return
		}
		e.st.Hit("directed:compact-type-id-family")
		nDeltas := 0
		for _, s := range atree.VerifDeltas(ps) {
			if s != nil {
				nDeltas++
			}
		}
		if nDeltas != 1 {
			e.directedFail(fmt.Sprintf("compact-type-id family %d: %d slabs in the write set, expected one (children not inlined)", fi, nDeltas))
			return
		}
		e.emitWriteSet(ps, emit)
		if e.encPanic {
			e.encPanic = false
			continue
		}
		if err := ps.FastCommit(1); err != nil {
			e.violation("C07", fmt.Sprintf("a slab holding same-typed inlined composite maps with the field sets %v cannot be committed: %v", fam, err))
			e.violation("C03", fmt.Sprintf("commit of a valid state fails (same-typed inlined composite maps with the field sets %v): %v", fam, err))
			continue
		}
		e.emitRegisters(ledger, emit)
		// a brand-new storage reads every field back under its own name
		st2 := hx.NewStorage(ledger)
		child := func(i int) (*atree.OrderedMap, error) {
			var v atree.Value
			var err error
			if parr != nil {
				a2, err2 := atree.NewArrayWithRootID(st2, parr.SlabID())
				if err2 != nil {
					return nil, err2
				}
				v, err = a2.Get(uint64(i))
			} else {
				m2, err2 := atree.NewMapWithRootID(st2, pmap.SlabID(), atree.NewDefaultDigesterBuilder())
				if err2 != nil {
					return nil, err2
				}
				v, err = m2.Get(hx.CompareKey, hx.HashInput, hx.TV{Size: 9, Pay: uint64(7000 + i)})
			}
			if err != nil {
				return nil, err
			}
			if w, ok := v.(hx.SomeValue); ok {
				v = w.V
			}
			m, ok := v.(*atree.OrderedMap)
			if !ok {
				return nil, fmt.Errorf("child %d reads back as %T", i, v)
			}
			return m, nil
		}
		for i, k := range kids {
			m, err := child(i)
			if err != nil {
				e.violation("C07", fmt.Sprintf("compact-type-id family %d: child %d does not read back from a fresh storage: %v", fi, i, err))
				break
			}
			if m.Count() != uint64(len(k.names)) || m.Type() != atree.TypeInfo(k.ty) {
				e.violation("C07", fmt.Sprintf("compact-type-id family %d: child %d reads back with %d fields of type %v, was written with %d of type %v", fi, i, m.Count(), m.Type(), len(k.names), k.ty))
			}
			var got []string
			_ = m.IterateReadOnlyKeys(func(kv atree.Value) (bool, error) {
				t, _ := hx.AsTV(kv)
				got = append(got, fmt.Sprintf("%d:%d", t.Size, t.Pay))
				return true, nil
			})
			var want []string
			for _, n := range k.names {
				t := hx.NK{Name: n}.TV()
				want = append(want, fmt.Sprintf("%d:%d", t.Size, t.Pay))
			}
			sort.Strings(got)
			sort.Strings(want)
			if strings.Join(got, ",") != strings.Join(want, ",") {
				e.violation("C07", fmt.Sprintf("compact-type-id family %d: child %d (fields %q) reads back with the keys %v, want %v", fi, i, k.names, got, want))
			}
			for _, n := range k.names {
				v, err := m.Get(hx.CompareKey, hx.HashInput, hx.NK{Name: n})
				if tv, _ := v.(hx.TV); err != nil || tv != k.vals[n] {
					e.violation("C07", fmt.Sprintf("compact-type-id family %d: field %q of child %d (fields %q) reads back as %v (%v), was %v", fi, n, i, k.names, v, err, k.vals[n]))
				}
			}
		}
		e.st.Hit("directed:compact-type-id-reloaded")
	}
}

// runCompactSeparatorProbe: the observation described at the head of this file.  Model-free (no trace lines).
func (e *codecEnv) runCompactSeparatorProbe(rng *rand.Rand) {
	const tag = "compact-type-id-not-injective-for-ids-containing-separator"
	for pi, sets := range [][2][]string{
		{{"a,b"}, {"a", "b"}},        // different numbers of keys: the length check of encodeAsInlinedCompactMap fires
		{{"a,b", "c"}, {"a", "b,c"}}, // same number of keys: encodeCompactMapValues does not find the cached key
		{{",", "a"}, {"", "a"}},      // IDs ",,a" vs ",a" - no collision: the control
	} {
		atree.VerifSetThreshold(1024)
		ledger := hx.NewLedger()
		ps := hx.NewStorage(ledger)
		addr := hx.MkAddr(uint64(1 + rng.Intn(1<<16)))
		parent, err := atree.NewArray(ps, addr, hx.TI(40))
		if err != nil {
			e.directedFail(err.Error())
			return
		}
		var kids []*atree.OrderedMap
		for ci, names := range sets {
			c, err := atree.NewMap(ps, addr, atree.NewDefaultDigesterBuilder(), hx.CTI(5))
			if err != nil {
				e.directedFail(err.Error())
				return
			}
			for vi, n := range names {
				if _, err := c.Set(hx.CompareKey, hx.HashInput, hx.NK{Name: n}, hx.TV{Size: 3, Pay: uint64(10*ci + vi)}); err != nil {
					e.violation("C02", "set of a named field failed: "+err.Error())
					return
				}
			}
			if err := parent.Append(c); err != nil {
				e.violation("C10", "attaching a composite child failed: "+err.Error())
				return
			}
			kids = append(kids, c)
		}
		root := atree.VerifArrayRoot(parent)
		_, encErr, pan := guardedEncode(root)
		if pan != "" {
			e.violation("*", fmt.Sprintf("EncodeSlab panicked (%s) on a slab holding composite maps with the field sets %q", pan, sets))
			continue
		}
		commitErr := ps.FastCommit(1)
		if (encErr == nil) != (commitErr == nil) {
			e.violation("C03", fmt.Sprintf("EncodeSlab of the only slab of the write set says %v, the commit says %v (field sets %q)", encErr, commitErr, sets))
			continue
		}
		if commitErr == nil {
			e.st.Hit(fmt.Sprintf("probe:compact-type-id-separator:committed:%d", pi))
			// no collision (the control, or a library that escapes the separator): the ordinary oracle applies
			st2 := hx.NewStorage(ledger)
			a2, err := atree.NewArrayWithRootID(st2, parent.SlabID())
			if err != nil || a2.Count() != uint64(len(sets)) {
				e.violation("C07", fmt.Sprintf("composite maps with the field sets %q were committed but do not reload: %v", sets, err))
				continue
			}
			for ci, names := range sets {
				v, err := a2.Get(uint64(ci))
				m, _ := v.(*atree.OrderedMap)
				if err != nil || m == nil || m.Count() != uint64(len(names)) {
					e.violation("C07", fmt.Sprintf("composite map %d of the field sets %q reads back as %v (%v)", ci, sets, v, err))
					continue
				}
				for vi, n := range names {
					got, err := m.Get(hx.CompareKey, hx.HashInput, hx.NK{Name: n})
					if tv, _ := got.(hx.TV); err != nil || tv != (hx.TV{Size: 3, Pay: uint64(10*ci + vi)}) {
						e.violation("C07", fmt.Sprintf("field %q of composite map %d (field sets %q) reads back as %v (%v)", n, ci, sets, got, err))
					}
				}
			}
			continue
		}
		msg := commitErr.Error()
		kind := hx.ErrKind(commitErr)
		switch {
		case strings.Contains(msg, "is different from number of elements in cached compact map type"):
			e.st.Hit("observation:" + tag + ":key-count-differs")
		case strings.Contains(msg, "failed to find key"):
			e.st.Hit("observation:" + tag + ":cached-key-not-found")
		default:
			e.violation("C07", fmt.Sprintf("commit of composite maps with the field sets %q fails with an unexpected error: %v", sets, commitErr))
			continue
		}
		e.st.Hit("observation:" + tag)
		e.noteObservation(tag, fmt.Sprintf("two inlined maps of one composite type with the key sets %q (keys: hx.NK, ID() = the name) in one slab: "+
			"makeCompactMapTypeID joins the IDs with an unescaped \",\", both maps get the same compact type ID, the second adopts the cached keys of the first; "+
			"EncodeSlab and the commit fail (%s: %s); nothing is written", sets, kind, msg))
		// a failed commit writes nothing and leaves the containers readable; once a child has left the slab the commit succeeds
		if len(ledger.Seg) != 0 {
			e.violation("C03", "a commit that failed while encoding wrote registers")
		}
		if v, err := kids[1].Get(hx.CompareKey, hx.HashInput, hx.NK{Name: sets[1][0]}); err != nil || v == nil {
			e.violation("C02", fmt.Sprintf("a composite map is unreadable after a failed commit: %v", err))
		}
		if _, err := parent.Remove(1); err != nil {
			e.violation("C01", "removing an inlined child after a failed commit failed: "+err.Error())
			continue
		}
		if err := ps.FastCommit(1); err != nil {
			e.violation("C07", fmt.Sprintf("the commit still fails after one of the two colliding children left the slab: %v", err))
			continue
		}
		e.st.Hit("probe:compact-type-id-separator:recovered")
	}
}

// ---------------------------------------------------------------------------------------------
// GetUintCBORSize (encode.go): the exported helper with which a caller's Storable reports the ByteSize() of an
// unsigned integer (sweep s5, S3).  The library never calls it, so no container stream can see it; it is
// compared here, settings-style, with the bytes the CBOR encoder really writes: EXHAUSTIVELY over 0..70000
// (the width boundaries 23|24, 255|256, 65535|65536 with everything around them), around every power of two up
// to 2^64-1 (2^32-1|2^32 among them), and on random 64-bit values; the values at and next to the five width
// boundaries and the powers of two also go to the model (USZ lines: Codec.headLen, which
// TransEq.GetUintCBORSize_eq_model ties to the translated Go function at every value).
func (e *codecEnv) runUintSizeTable(rng *rand.Rand, emit bool) {
	written := func(n uint64) uint32 {
		var buf bytes.Buffer
		enc := cbor.NewStreamEncoder(&buf)
		if err := enc.EncodeUint64(n); err != nil {
			return 0
		}
		if err := enc.Flush(); err != nil {
			return 0
		}
		return uint32(buf.Len())
	}
	bad := 0
	one := func(n uint64, line bool) {
		got := atree.GetUintCBORSize(n)
		if w := written(n); got != w && bad < 5 {
			bad++
			e.violation("C06", fmt.Sprintf("GetUintCBORSize(%d) = %d, the CBOR encoder writes %d bytes for that unsigned integer (a Storable that reports 1 + GetUintCBORSize(v) as the ByteSize of a tagged integer is off by %d)", n, got, w, int(w)-int(got)))
		}
		if line && emit {
			e.w.L("USZ n=%d size=%d", n, got)
		}
		e.st.Ops++
	}
	near := map[uint64]bool{}
	for k := uint(0); k <= 64; k++ {
		var p uint64
		if k < 64 {
			p = uint64(1) << k
		}
		for d := uint64(0); d <= 4; d++ {
			near[p-3+d] = true // 2^k-3 .. 2^k+1 (wrapping at 2^64: 2^64-3 .. 2^64-1, 0, 1)
		}
	}
	for _, b := range []uint64{23, 24, 255, 256, 65535, 65536, 1<<32 - 1, 1 << 32, 1<<64 - 1} {
		for d := uint64(0); d <= 4; d++ {
			near[b-2+d] = true
		}
	}
	for n := uint64(0); n <= 70000; n++ {
		one(n, near[n])
		delete(near, n)
	}
	rest := make([]uint64, 0, len(near))
	for n := range near {
		rest = append(rest, n)
	}
	sort.Slice(rest, func(i, j int) bool { return rest[i] < rest[j] })
	for _, n := range rest {
		one(n, true)
	}
	for i := 0; i < 2000; i++ {
		one(rng.Uint64()>>uint(rng.Intn(64)), i < 50)
	}
	e.st.Hit("usz:all-width-boundaries")
}
