package main

// Stream "iter" (property C13): every way of enumerating a container.
//
// Arrays and maps are built by ordinary operations (traced in the vocabulary of the "array" and
// "map" streams, so the Lean replayer rebuilds the same model trees and keeps comparing every
// observation, effect and slab dump), committed, and then enumerated
//   - by the loaded-value iterator on FRESH storages in which a chosen subset of the slabs has been
//     loaded (the set of loaded slab IDs is read off the storage's write set and read cache),
//   - by every other iterator flavour (read-only, mutable, ranges with valid and invalid bounds,
//     keys-only, values-only),
//   - by the mutable iterator while the callback overwrites the current element,
//   - by PopIterate.
// Every output is written to the trace (the replayer runs the model iterators on its model tree)
// and is checked here by model-free oracles (hx.Violation{Property: "C13"}).

import (
	"fmt"
	"math/rand"
	"path/filepath"
	"sort"
	"strings"

	"github.com/onflow/atree"

	"verifharness/hx"
)

func init() {
	streams["iter"] = iterStream
}

// iterDistinct counts the container shapes (kind, threshold, digest mode, size) iterated so far.
var iterDistinct int

func iterNote(st *hx.Stats, seen map[string]bool, key, sample string) {
	if !seen[key] {
		seen[key] = true
		iterDistinct++
	}
	if len(st.Samples) < 4 {
		st.Samples = append(st.Samples, sample)
	}
}

var iterSeen = map[string]bool{}

func iterStream(cfg *Config) *hx.Stats {
	iterDistinct = 0
	iterSeen = map[string]bool{}
	st := hx.NewStats("iter", cfg.Seed)
	rng := rand.New(rand.NewSource(cfg.Seed*104729 + 5))
	w := hx.NewW(filepath.Join(cfg.Out, fmt.Sprintf("iter-%d.trace", cfg.Seed)))
	defer w.Close()
	st.TraceFiles = append(st.TraceFiles, w.Path)
	nProg := int(48 * cfg.Scale)
	if nProg < 2 {
		nProg = 2
	}
	for p := 0; p < nProg && len(st.Violations) <= 20; p++ {
		if p%2 == 0 {
			iterArrayProgram(cfg, st, w, rng, p)
		} else {
			iterMapProgram(cfg, st, w, rng, p)
		}
		st.Programs++
	}
	// nested containers mutated during mutable iteration (implementation oracles only)
	nNested := int(12 * cfg.Scale)
	if nNested < 2 {
		nNested = 2
	}
	for p := 0; p < nNested && len(st.Violations) <= 20; p++ {
		iterNestedOracle(cfg, st, w, rng, nProg+p)
		st.Programs++
	}
	// children obtained through read-only / mutable enumerations of their parent, mutated and iterated
	nRO := int(8 * cfg.Scale)
	if nRO < 2 {
		nRO = 2
	}
	for p := 0; p < nRO && len(st.Violations) <= 20 && st.HarnessErr == ""; p++ {
		iterNestedReadOnly(cfg, st, w, rng, nProg+nNested+p)
		st.Programs++
	}
	// ... the same over wrapped children and over maps whose keys are containers (iternestx.go)
	for p := 0; p < nRO && len(st.Violations) <= 20 && st.HarnessErr == ""; p++ {
		iterNestedExotic(cfg, st, w, rng, nProg+nNested+nRO+p)
		st.Programs++
	}
	iterCheckRequired(cfg, st, append(append(append(append([]string{}, iterRequired...), iterNestRequired...), iterNestXRequired...), iterLoadedRequired...))
	st.TraceLines = w.Lines
	st.Distinct = iterDistinct
	atree.VerifSetThreshold(1024)
	atree.VerifSetMaxCollisionLimitPerDigest(255)
	return st
}

// loadedIDs returns the IDs for which RetrieveIfLoaded would return a slab: non-nil entries of the
// write set, and of the read cache where the write set has no entry.
func loadedIDs(ps *atree.PersistentSlabStorage) []atree.SlabID {
	set := map[atree.SlabID]bool{}
	deltas := atree.VerifDeltas(ps)
	for id, s := range deltas {
		if s != nil {
			set[id] = true
		}
	}
	for id, s := range atree.VerifCache(ps) {
		if _, shadowed := deltas[id]; !shadowed && s != nil {
			set[id] = true
		}
	}
	ids := make([]atree.SlabID, 0, len(set))
	for id := range set {
		ids = append(ids, id)
	}
	hx.SortIDs(ids)
	return ids
}

// errLine is the first line of an error message (fatal errors carry a stack trace).
func errLine(err error) string {
	if err == nil {
		return "<nil>"
	}
	m := err.Error()
	if i := strings.IndexByte(m, '\n'); i >= 0 {
		m = m[:i]
	}
	if len(m) > 200 {
		m = m[:200]
	}
	return m
}

func idList(ids []atree.SlabID) string {
	if len(ids) == 0 {
		return "-"
	}
	return strings.Join(itIDStrs(ids), ",")
}

func sameIDs(a, b []atree.SlabID) bool {
	if len(a) != len(b) {
		return false
	}
	for i := range a {
		if a[i] != b[i] {
			return false
		}
	}
	return true
}

func tvList(l []hx.TV) string {
	parts := make([]string, len(l))
	for i, v := range l {
		parts[i] = fmt.Sprintf("%d:v%d", v.Size, v.Pay)
	}
	return "[" + strings.Join(parts, ",") + "]"
}

// isSubsequence reports whether got is an in-order subsequence of full.
func isSubsequence[T comparable](got, full []T) bool {
	j := 0
	for _, g := range got {
		for j < len(full) && full[j] != g {
			j++
		}
		if j == len(full) {
			return false
		}
		j++
	}
	return true
}

func equalTV(a, b []hx.TV) bool {
	if len(a) != len(b) {
		return false
	}
	for i := range a {
		if a[i] != b[i] {
			return false
		}
	}
	return true
}

// loadSubset loads a subset of the committed slabs into a fresh storage.  mode: 0 nothing (the
// caller loads the root), 1 everything, 2 each ID with probability p, 3 everything but a few.
func loadSubset(rng *rand.Rand, fresh *atree.PersistentSlabStorage, ids []atree.SlabID, mode int) {
	switch mode {
	case 1:
		for _, id := range ids {
			_, _, _ = fresh.Retrieve(id)
		}
	case 2:
		p := []float64{0.1, 0.3, 0.5, 0.7, 0.9}[rng.Intn(5)]
		for _, id := range ids {
			if rng.Float64() < p {
				_, _, _ = fresh.Retrieve(id)
			}
		}
	case 3:
		skip := map[atree.SlabID]bool{}
		for i := 0; i < 1+rng.Intn(4) && len(ids) > 0; i++ {
			skip[ids[rng.Intn(len(ids))]] = true
		}
		for _, id := range ids {
			if !skip[id] {
				_, _, _ = fresh.Retrieve(id)
			}
		}
	}
}

// ---------------------------------------------------------------------------------------------
// environments and helpers (this file depends only on package hx, `streams` and `Config`)

type itArr struct {
	w       *hx.W
	st      *hx.Stats
	cfg     *Config
	rng     *rand.Rand
	T       uint32
	maxInl  uint32
	ledger  *hx.Ledger
	ps      *atree.PersistentSlabStorage
	rec     *hx.RecStorage
	arr     *atree.Array
	addr    atree.Address
	ty      hx.TI
	shadow  []hx.TV
	nextPay uint64
	prog    int
	step    int
}

type itMap struct {
	w       *hx.W
	st      *hx.Stats
	cfg     *Config
	rng     *rand.Rand
	T       uint32
	ledger  *hx.Ledger
	ps      *atree.PersistentSlabStorage
	rec     *hx.RecStorage
	m       *atree.OrderedMap
	b       atree.DigesterBuilder
	addr    atree.Address
	ty      hx.TI
	L       uint
	climit  uint32
	shadow  map[hx.TV]hx.TV
	keyUniv []hx.TV
	nextPay uint64
	prog    int
	step    int
	maxKey  uint32
	maxElem uint32
}

// itRenderStorable renders a storable as "<size>:<desc>" (the form of OBS lines).
func itRenderStorable(s atree.Storable) string {
	if s == nil {
		return "0:nil"
	}
	switch x := s.(type) {
	case atree.SlabIDStorable:
		return fmt.Sprintf("%d:R%s", s.ByteSize(), hx.IDStr(atree.SlabID(x)))
	case hx.TV:
		return fmt.Sprintf("%d:v%d", x.Size, x.Pay)
	case atree.Slab:
		return fmt.Sprintf("%d:%s", s.ByteSize(), atree.VerifDumpSlab(x, hx.Describe))
	}
	return fmt.Sprintf("%d:%s", s.ByteSize(), hx.Describe.Storable(s))
}

func itIDStrs(ids []atree.SlabID) []string {
	out := make([]string, len(ids))
	for i, id := range ids {
		out[i] = hx.IDStr(id)
	}
	return out
}

func itMix(a, b, c uint64) uint64 {
	x := a*0x9E3779B97F4A7C15 ^ (b+1)*0xC2B2AE3D27D4EB4F ^ (c+7)*0x165667B19E3779F9
	x ^= x >> 29
	x *= 0xBF58476D1CE4E5B9
	x ^= x >> 32
	return x
}

func itEmitEffects(w *hx.W, ps *atree.PersistentSlabStorage, rec *hx.RecStorage) {
	w.L("EFF %s", hx.NetEffect(rec.Effs))
	for _, id := range hx.StoredIDs(rec.Effs) {
		s, ok, err := ps.Retrieve(id)
		if err != nil || !ok {
			w.L("SLB MISSING(%s)", hx.IDStr(id))
			continue
		}
		w.L("SLB %s", atree.VerifDumpSlab(s, hx.Describe))
	}
	rec.Reset()
}

// itDispose releases a large-value slab the library handed back (the caller's duty).
func itDispose(w *hx.W, ps *atree.PersistentSlabStorage, s atree.Storable) {
	if id, ok := s.(atree.SlabIDStorable); ok {
		w.L("DSP id=%s", hx.IDStr(atree.SlabID(id)))
		_ = ps.Remove(atree.SlabID(id))
	}
}

// itResolve turns a stored value (plain or a reference to a large-value slab) into the value.
func itResolve(ps *atree.PersistentSlabStorage, s atree.Storable) (hx.TV, bool) {
	switch x := s.(type) {
	case hx.TV:
		return x, true
	case atree.SlabIDStorable:
		sl, ok, err := ps.Retrieve(atree.SlabID(x))
		if err != nil || !ok {
			return hx.TV{}, false
		}
		cs := sl.ChildStorables()
		if len(cs) == 1 {
			tv, ok := cs[0].(hx.TV)
			return tv, ok
		}
	}
	return hx.TV{}, false
}

func itFitValue(size uint32, pay uint64) hx.TV {
	if size < 2 {
		size = 2
	}
	for !hx.ValidTV(size, pay) {
		pay %= 200
		if !hx.ValidTV(size, pay) {
			size++
		}
	}
	return hx.TV{Size: size, Pay: pay}
}

func (e *itArr) violation(prop, what string) {
	e.st.Violations = append(e.st.Violations, hx.Violation{
		Property: prop, Stream: e.st.Stream, Seed: e.cfg.Seed, Program: e.prog, Step: e.step, What: what, Trace: e.w.Path, Line: e.w.Lines,
	})
}
func (e *itArr) emitEffects()             { itEmitEffects(e.w, e.ps, e.rec) }
func (e *itArr) dispose(s atree.Storable) { itDispose(e.w, e.ps, s) }
func (e *itArr) obsErr(err error)         { e.w.L("OBS err:%s", hx.ErrKind(err)) }

func (e *itArr) genSize(prof int) uint32 {
	m := e.maxInl
	r := e.rng
	switch prof {
	case 0: // tiny
		return uint32(2 + r.Intn(10))
	case 1: // mid
		return uint32(10 + r.Intn(int(m/2)))
	case 2: // at and around the inline limit
		return m - uint32(r.Intn(3))
	case 3: // just over the limit: externalised
		return m + 1 + uint32(r.Intn(40))
	case 4: // just under half of T
		return e.T/2 - 21 - uint32(r.Intn(8))
	case 5: // fixed small
		return 9
	case 6: // quarter
		return m/2 + uint32(r.Intn(5))
	default: // mixture
		return e.genSize(r.Intn(7))
	}
}

func (e *itArr) genValue(prof int) hx.TV {
	size := e.genSize(prof)
	if size > e.T*2 {
		size = e.T * 2
	}
	e.nextPay++
	return itFitValue(size, e.nextPay)
}

func (e *itArr) checkReturned(prop string, got atree.Storable, want hx.TV) {
	tv, ok := itResolve(e.ps, got)
	if !ok {
		e.violation(prop, fmt.Sprintf("returned storable %s does not resolve to a value", itRenderStorable(got)))
		return
	}
	if tv != want {
		e.violation(prop, fmt.Sprintf("returned element %v, sequence says %v", tv, want))
	}
}

func (e *itMap) violation(prop, what string) {
	e.st.Violations = append(e.st.Violations, hx.Violation{
		Property: prop, Stream: e.st.Stream, Seed: e.cfg.Seed, Program: e.prog, Step: e.step, What: what, Trace: e.w.Path, Line: e.w.Lines,
	})
}
func (e *itMap) emitEffects()                           { itEmitEffects(e.w, e.ps, e.rec) }
func (e *itMap) dispose(s atree.Storable)               { itDispose(e.w, e.ps, s) }
func (e *itMap) resolve(s atree.Storable) (hx.TV, bool) { return itResolve(e.ps, s) }

func (e *itMap) keyStr(k hx.TV) string {
	digs, err := hx.Digests(e.b, k)
	if err != nil {
		panic(err)
	}
	parts := make([]string, len(digs))
	for i, d := range digs {
		parts[i] = fmt.Sprintf("%d", d)
	}
	return fmt.Sprintf("%d:%d@%s", k.Size, k.Pay, strings.Join(parts, ","))
}

func (e *itMap) genValue(prof int) hx.TV {
	var size uint32
	m := e.maxElem
	switch prof {
	case 0:
		size = uint32(2 + e.rng.Intn(12))
	case 1:
		size = uint32(10 + e.rng.Intn(int(m/2)))
	case 2:
		size = m - 30 + uint32(e.rng.Intn(40)) // around the value limit for small keys
	case 3:
		size = m/2 + uint32(e.rng.Intn(6))
	default:
		return e.genValue(e.rng.Intn(4))
	}
	e.nextPay++
	return itFitValue(size, e.nextPay)
}

// ---------------------------------------------------------------------------------------------
// arrays

func (e *itArr) itApply(op string, i uint64, v hx.TV) {
	w := e.w
	n := len(e.shadow)
	switch op {
	case "app":
		w.L("OP app h=0 v=%d:%d", v.Size, v.Pay)
		if err := e.arr.Append(v); err != nil {
			e.obsErr(err)
			e.violation("C01", "append failed: "+errLine(err))
		} else {
			w.L("OBS ok")
			e.shadow = append(e.shadow, v)
		}
		e.emitEffects()
	case "ins":
		w.L("OP ins h=0 i=%d v=%d:%d", i, v.Size, v.Pay)
		if err := e.arr.Insert(i, v); err != nil {
			e.obsErr(err)
			e.violation("C01", fmt.Sprintf("in-range insert at %d of %d failed: %v", i, n, err))
		} else {
			w.L("OBS ok")
			e.shadow = append(e.shadow, hx.TV{})
			copy(e.shadow[i+1:], e.shadow[i:])
			e.shadow[i] = v
		}
		e.emitEffects()
	case "set":
		w.L("OP set h=0 i=%d v=%d:%d", i, v.Size, v.Pay)
		old, err := e.arr.Set(i, v)
		if err != nil {
			e.obsErr(err)
			e.violation("C01", fmt.Sprintf("in-range set at %d of %d failed: %v", i, n, err))
		} else {
			w.L("OBS ok:%s", itRenderStorable(old))
			e.checkReturned("C01", old, e.shadow[i])
			e.shadow[i] = v
		}
		e.emitEffects()
		if err == nil {
			e.dispose(old)
		}
	case "rem":
		w.L("OP rem h=0 i=%d", i)
		old, err := e.arr.Remove(i)
		if err != nil {
			e.obsErr(err)
			e.violation("C01", fmt.Sprintf("in-range remove at %d of %d failed: %v", i, n, err))
		} else {
			w.L("OBS ok:%s", itRenderStorable(old))
			e.checkReturned("C01", old, e.shadow[i])
			e.shadow = append(e.shadow[:i], e.shadow[i+1:]...)
		}
		e.emitEffects()
		if err == nil {
			e.dispose(old)
		}
	}
}

func collectTV(dst *[]hx.TV, bad *bool) atree.ArrayIterationFunc {
	return func(v atree.Value) (bool, error) {
		tv, ok := v.(hx.TV)
		if !ok {
			*bad = true
		}
		*dst = append(*dst, tv)
		return true, nil
	}
}

func iterArrayProgram(cfg *Config, st *hx.Stats, w *hx.W, rng *rand.Rand, p int) {
	T := []uint32{256, 256, 512, 256, 1024, 300}[(p/2)%6]
	e := &itArr{w: w, st: st, cfg: cfg, rng: rng, T: T, prog: p}
	_, _, maxInl, _ := atree.VerifSetThreshold(T)
	e.maxInl = maxInl
	e.ledger = hx.NewLedger()
	e.ps = hx.NewStorage(e.ledger)
	e.rec = hx.NewRecStorage(e.ps)
	e.addr = hx.MkAddr(uint64(1 + rng.Intn(3)))
	e.ty = hx.TI(uint64(rng.Intn(100)))
	w.L("PROG kind=arr")
	w.L("CFG T=%d", T)
	a, err := atree.NewArray(e.rec, e.addr, e.ty)
	if err != nil {
		st.HarnessErr = "NewArray: " + err.Error()
		return
	}
	e.arr = a
	w.L("NEW h=0 addr=%d ty=%d", e.addr[7], uint64(e.ty))
	e.emitEffects()
	st.Hit(fmt.Sprintf("arr:T=%d", T))

	// size profile: tiny values give wide leaves, profile 3 externalises values, 7 mixes
	sizeProf := []int{7, 0, 7, 3, 1, 7, 5, 2}[rng.Intn(8)]
	target := 0
	switch rng.Intn(6) {
	case 0:
		target = rng.Intn(6) // empty and single-slab arrays
	case 1:
		target = 10 + rng.Intn(40)
	default:
		target = 80 + rng.Intn(520)
	}
	for len(e.shadow) < target {
		n := len(e.shadow)
		r := rng.Intn(100)
		switch {
		case r < 55 || n == 0:
			e.itApply("app", 0, e.genValue(sizeProf))
		case r < 85:
			e.itApply("ins", uint64(rng.Intn(n+1)), e.genValue(sizeProf))
		case r < 93:
			e.itApply("set", uint64(rng.Intn(n)), e.genValue(sizeProf))
		default:
			e.itApply("rem", uint64(rng.Intn(n)), hx.TV{})
		}
		e.step++
		st.Ops++
	}
	e.itFull()

	rounds := 3 + rng.Intn(3)
	iterNote(st, iterSeen, fmt.Sprintf("arr/%d/%d/%d", T, sizeProf, len(e.shadow)),
		fmt.Sprintf("array T=%d sizeProfile=%d elements=%d slabs=%d rounds=%d (8 loaded subsets + 20 flavours + overwrite pass each)",
			T, sizeProf, len(e.shadow), len(atree.VerifDeltas(e.ps)), rounds))
	for r := 0; r < rounds && len(st.Violations) <= 20; r++ {
		if err := e.ps.FastCommit(1 + rng.Intn(3)); err != nil {
			e.violation("C03", "fault-free commit failed: "+errLine(err))
			return
		}
		for k := 0; k < 8; k++ {
			e.itLoadedRound(k)
		}
		e.itLoadedHoles()
		e.itFlavours()
		e.itStop()
		e.itObj()
		e.itMutSet(sizeProf)
		e.itFull()
		e.step++
	}
	// reverse-order bulk pop (the existing array replay handles the op)
	n := len(e.shadow)
	w.L("OP pop h=0")
	var got []atree.Storable
	if err := e.arr.PopIterate(func(s atree.Storable) { got = append(got, s) }); err != nil {
		e.obsErr(err)
		e.violation("C13", "PopIterate failed: "+errLine(err))
	} else {
		parts := make([]string, len(got))
		for k, s := range got {
			parts[k] = itRenderStorable(s)
		}
		w.L("OBS ok:[%s]", strings.Join(parts, ","))
		if len(got) != n {
			e.violation("C13", fmt.Sprintf("pop yielded %d elements, sequence has %d", len(got), n))
		} else {
			for k, s := range got {
				e.checkReturned("C13", s, e.shadow[n-1-k])
			}
		}
		e.shadow = e.shadow[:0]
		if e.arr.Count() != 0 {
			e.violation("C13", "array not empty after PopIterate")
		}
	}
	e.emitEffects()
	for _, s := range got {
		e.dispose(s)
	}
	st.Hit("arr:pop")
	e.itFull()
}

func (e *itArr) itFull() {
	e.w.L("FULL h=0 %s", hx.DumpTree(e.ps, atree.VerifArrayRoot(e.arr)))
	if err := atree.VerifyArray(e.arr, e.addr, e.ty, func(a, b atree.TypeInfo) bool { return a == b }, nil, true); err != nil {
		e.violation("C05", "VerifyArray: "+errLine(err))
	}
}

// itLoadedRound opens the committed array on a fresh storage, loads a subset of the slabs and runs
// the loaded-value iterator.
func (e *itArr) itLoadedRound(k int) {
	fresh := hx.NewStorage(e.ledger)
	ids := e.ledger.SortedIDs()
	mode := k % 5
	if mode == 4 {
		mode = 2
	}
	if k >= 5 {
		mode = 0
	}
	// slabs loaded BEFORE the handle exists are found by the iterator just the same
	before := e.rng.Intn(2) == 0
	if before {
		loadSubset(e.rng, fresh, ids, mode)
	}
	a2, err := atree.NewArrayWithRootID(fresh, e.arr.SlabID())
	if err != nil {
		e.violation("C03", "cannot reopen committed array: "+errLine(err))
		return
	}
	if !before {
		loadSubset(e.rng, fresh, ids, mode)
	}
	if k == 7 {
		// the live handle on the live storage (write set and read cache hold every slab)
		fresh, a2 = e.ps, e.arr
	}
	if k == 5 && len(e.shadow) > 0 {
		// natural partial load: a few positional reads load root-to-leaf paths (and large values)
		for j := 0; j < 1+e.rng.Intn(5); j++ {
			_, _ = a2.Get(uint64(e.rng.Intn(len(e.shadow))))
		}
	}
	if k == 6 && len(e.shadow) > 0 {
		// a range read loads a run of neighbouring leaves
		lo := e.rng.Intn(len(e.shadow))
		hi := lo + e.rng.Intn(len(e.shadow)-lo+1)
		_ = a2.IterateReadOnlyRange(uint64(lo), uint64(hi), func(atree.Value) (bool, error) { return true, nil })
	}
	ld := loadedIDs(fresh)
	var got []hx.TV
	bad := false
	var pan string
	err, pan = guardedRead(func() error { return a2.IterateReadOnlyLoadedValues(collectTV(&got, &bad)) })
	if pan != "" {
		e.violation("*", fmt.Sprintf("IterateReadOnlyLoadedValues PANICKED on an array with the loaded slabs %s: %s", idList(ld), pan))
		return
	}
	e.w.L("IT arr h=0 kind=loaded ld=%s", idList(ld))
	e.st.Hit(fmt.Sprintf("arr:loaded:mode%d", mode))
	if err != nil {
		e.obsErr(err)
		e.violation("C13", "loaded-value iteration failed: "+errLine(err))
		return
	}
	e.w.L("OBS ok:%s", tvList(got))
	if bad {
		e.violation("C13", "loaded-value iteration yielded a value of an unexpected type")
	}
	if after := loadedIDs(fresh); !sameIDs(ld, after) {
		e.violation("C13", fmt.Sprintf("loaded-value iteration loaded or dropped slabs: %d before, %d after", len(ld), len(after)))
	}
	if !isSubsequence(got, e.shadow) {
		e.violation("C13", fmt.Sprintf("partially loaded array (%d of %d slabs): %d yielded values are not an in-order subsequence of the %d elements",
			len(ld), len(ids), len(got), len(e.shadow)))
	}
	e.loadedExact(fmt.Sprintf("partially loaded array (%d of %d slabs)", len(ld), len(ids)), fresh, got)
	if len(ld) == len(ids) {
		e.st.Hit("arr:loaded:all")
		if !equalTV(got, e.shadow) {
			e.violation("C13", fmt.Sprintf("fully loaded array: loaded-value iteration yielded %d values, sequence has %d (or order differs)", len(got), len(e.shadow)))
		}
	} else if len(got) < len(e.shadow) {
		e.st.Hit("arr:loaded:partial")
	}
	if len(got) == 0 && len(e.shadow) > 0 {
		e.st.Hit("arr:loaded:nothing")
	}
}

// itFlavours runs every non-loaded iterator flavour on a fresh storage and on the live handle.
func (e *itArr) itFlavours() {
	w := e.w
	n := len(e.shadow)
	fresh := hx.NewStorage(e.ledger)
	a2, err := atree.NewArrayWithRootID(fresh, e.arr.SlabID())
	if err != nil {
		e.violation("C03", "cannot reopen committed array: "+errLine(err))
		return
	}
	type res struct {
		name string
		got  []hx.TV
	}
	var all []res
	run := func(name, line string, arr *atree.Array, f func(*atree.Array, atree.ArrayIterationFunc) error, lo, hi uint64) {
		var got []hx.TV
		bad := false
		w.L("%s", line)
		err := f(arr, collectTV(&got, &bad))
		e.st.Hit("arr:" + name)
		valid := lo <= hi && hi <= uint64(n)
		if err != nil {
			e.obsErr(err)
			if valid {
				e.violation("C13", fmt.Sprintf("%s: valid range [%d,%d) of %d rejected: %v", name, lo, hi, n, err))
				return
			}
			want := "InvalidSliceIndex:User"
			if lo > uint64(n) || hi > uint64(n) {
				want = "SliceOutOfBounds:User"
			}
			if k := hx.ErrKind(err); k != want {
				e.violation("C13", fmt.Sprintf("%s: invalid range [%d,%d) of %d rejected with %s, want %s", name, lo, hi, n, k, want))
			} else {
				// the refusal names the range that was asked for (and the bounds it violates)
				d := hx.ErrNames(err, "InvalidSliceIndex", lo, hi)
				if want == "SliceOutOfBounds:User" {
					d = hx.ErrNames(err, "SliceOutOfBounds", lo, hi, 0, n)
				}
				if d != "" {
					e.violation("C13", fmt.Sprintf("%s: invalid range [%d,%d) of %d: %s", name, lo, hi, n, d))
				}
			}
			if len(got) != 0 {
				e.violation("C13", fmt.Sprintf("%s: rejected range still yielded %d elements", name, len(got)))
			}
			e.st.Hit("arr:range-rejected:" + want)
			return
		}
		w.L("OBS ok:%s", tvList(got))
		if !valid {
			e.violation("C13", fmt.Sprintf("%s: invalid range [%d,%d) of %d accepted", name, lo, hi, n))
			return
		}
		if bad || !equalTV(got, e.shadow[lo:hi]) {
			e.violation("C13", fmt.Sprintf("%s over [%d,%d) of %d: %d elements, not the elements at these positions exactly once in index order", name, lo, hi, n, len(got)))
		}
		if lo == 0 && hi == uint64(n) {
			all = append(all, res{name, got})
		}
	}
	ro := func(a *atree.Array, fn atree.ArrayIterationFunc) error { return a.IterateReadOnly(fn) }
	mut := func(a *atree.Array, fn atree.ArrayIterationFunc) error { return a.Iterate(fn) }
	run("ro", "OP iter h=0 mode=ro", a2, ro, 0, uint64(n))
	run("mut", "OP iter h=0 mode=mut", a2, mut, 0, uint64(n))
	run("ro-live", "OP iter h=0 mode=ro", e.arr, ro, 0, uint64(n))
	run("mut-live", "OP iter h=0 mode=mut", e.arr, mut, 0, uint64(n))
	for j := 0; j < 8; j++ {
		var lo, hi uint64
		switch j {
		case 0:
			lo, hi = 0, uint64(n)
		case 1:
			lo, hi = uint64(n), uint64(n)
		case 2: // past the end
			lo, hi = uint64(e.rng.Intn(n+1)), uint64(n+1+e.rng.Intn(3))
		case 3: // inverted
			if n > 0 {
				hi = uint64(e.rng.Intn(n))
				lo = hi + 1 + uint64(e.rng.Intn(n-int(hi)))
			} else {
				lo, hi = 1, 0
			}
		case 4: // start past the end
			lo, hi = uint64(n+1+e.rng.Intn(2)), uint64(e.rng.Intn(n+1))
		default:
			lo = uint64(e.rng.Intn(n + 1))
			hi = lo + uint64(e.rng.Intn(n-int(lo)+1))
		}
		arr := a2
		if j%2 == 1 {
			arr = e.arr
		}
		l, h := lo, hi
		run("rorange", fmt.Sprintf("OP iter h=0 mode=rorange lo=%d hi=%d", lo, hi), arr,
			func(a *atree.Array, fn atree.ArrayIterationFunc) error { return a.IterateReadOnlyRange(l, h, fn) }, lo, hi)
		run("mutrange", fmt.Sprintf("OP iter h=0 mode=mutrange lo=%d hi=%d", lo, hi), arr,
			func(a *atree.Array, fn atree.ArrayIterationFunc) error { return a.IterateRange(l, h, fn) }, lo, hi)
	}
	// all flavours agree pairwise and with Get-by-index
	for i := 1; i < len(all); i++ {
		if !equalTV(all[0].got, all[i].got) {
			e.violation("C13", fmt.Sprintf("iterator flavours %s and %s disagree", all[0].name, all[i].name))
		}
	}
	if uint64(n) != a2.Count() {
		e.violation("C13", fmt.Sprintf("count %d, sequence has %d", a2.Count(), n))
	}
	for i := 0; i < n; i++ {
		v, err := a2.Get(uint64(i))
		if tv, _ := v.(hx.TV); err != nil || (len(all) > 0 && i < len(all[0].got) && tv != all[0].got[i]) || tv != e.shadow[i] {
			e.violation("C13", fmt.Sprintf("Get(%d) = %v (%v) disagrees with iteration", i, v, err))
			break
		}
	}
}

// itMutSet runs the mutable iterator on the live handle and overwrites the current element of
// some positions from inside the callback.
func (e *itArr) itMutSet(sizeProf int) {
	w := e.w
	n := len(e.shadow)
	prob := []int{0, 10, 35, 100}[e.rng.Intn(4)]
	sets := map[int]hx.TV{}
	var order []int
	for i := 0; i < n; i++ {
		if e.rng.Intn(100) < prob {
			sets[i] = e.genValue(sizeProf)
			order = append(order, i)
		}
	}
	parts := make([]string, len(order))
	for k, i := range order {
		parts[k] = fmt.Sprintf("%d:%d:%d", i, sets[i].Size, sets[i].Pay)
	}
	spec := "-"
	if len(parts) > 0 {
		spec = strings.Join(parts, ";")
	}
	w.L("IT arr h=0 kind=mutset sets=%s", spec)
	var got []hx.TV
	var olds []atree.Storable
	i := 0
	var inner error
	err := e.arr.Iterate(func(v atree.Value) (bool, error) {
		tv, _ := v.(hx.TV)
		got = append(got, tv)
		if nv, ok := sets[i]; ok {
			old, err := e.arr.Set(uint64(i), nv)
			if err != nil {
				inner = err
				return false, nil
			}
			olds = append(olds, old)
			e.checkReturned("C13", old, tv)
		}
		i++
		return true, nil
	})
	e.st.Hit("arr:mutset")
	if err != nil || inner != nil {
		if err == nil {
			err = inner
		}
		e.obsErr(err)
		e.violation("C13", "mutable iteration with overwrites failed: "+errLine(err))
		e.emitEffects()
		return
	}
	w.L("OBS ok:%s", tvList(got))
	e.emitEffects()
	for _, o := range olds {
		e.dispose(o)
	}
	if !equalTV(got, e.shadow) {
		e.violation("C13", fmt.Sprintf("mutable iteration with %d overwrites of the current element yielded %d elements, not every element exactly once in order (%d)", len(sets), len(got), n))
	}
	for i, v := range sets {
		e.shadow[i] = v
	}
	// the overwrites took effect and nothing else changed
	var after []hx.TV
	bad := false
	if err := e.arr.IterateReadOnly(collectTV(&after, &bad)); err != nil || bad || !equalTV(after, e.shadow) {
		e.violation("C13", fmt.Sprintf("after overwriting during iteration the array does not hold the expected sequence (%v)", err))
	}
	if len(sets) > 0 {
		e.st.Hit("arr:mutset:overwrote")
	}
}

// ---------------------------------------------------------------------------------------------
// maps

type kvTV struct{ k, v hx.TV }

func kvList(l []kvTV) string {
	parts := make([]string, len(l))
	for i, p := range l {
		parts[i] = fmt.Sprintf("%d:v%d=%d:v%d", p.k.Size, p.k.Pay, p.v.Size, p.v.Pay)
	}
	return "[" + strings.Join(parts, ",") + "]"
}

func (e *itMap) itSet(k, v hx.TV) {
	w := e.w
	_, present := e.shadow[k]
	w.L("OP mset h=0 k=%s v=%d:%d", e.keyStr(k), v.Size, v.Pay)
	old, err := e.m.Set(hx.CompareKey, hx.HashInput, k, v)
	if err != nil {
		w.L("OBS err:%s", hx.ErrKind(err))
		if hx.ErrKind(err) != "CollisionLimit:Fatal" || present {
			e.violation("C02", fmt.Sprintf("set(%v) failed: %v", k, err))
		}
	} else {
		if old == nil {
			w.L("OBS ok:none")
			if present {
				e.violation("C02", fmt.Sprintf("set(%v) returned no previous value", k))
			}
		} else {
			w.L("OBS ok:%s", itRenderStorable(old))
			if tv, ok := e.resolve(old); !present || !ok || tv != e.shadow[k] {
				e.violation("C02", fmt.Sprintf("set(%v) returned previous value %v, dictionary has %v", k, tv, e.shadow[k]))
			}
		}
		e.shadow[k] = v
	}
	e.emitEffects()
	if err == nil && old != nil {
		e.dispose(old)
	}
}

func (e *itMap) itRemove(k hx.TV) {
	w := e.w
	w.L("OP mrem h=0 k=%s", e.keyStr(k))
	ks, vs, err := e.m.Remove(hx.CompareKey, hx.HashInput, k)
	if err != nil {
		w.L("OBS err:%s", hx.ErrKind(err))
		e.violation("C02", fmt.Sprintf("remove(%v) failed: %v", k, err))
	} else {
		w.L("OBS ok:%s,%s", itRenderStorable(ks), itRenderStorable(vs))
		if tv, ok := e.resolve(vs); !ok || tv != e.shadow[k] {
			e.violation("C02", fmt.Sprintf("remove(%v) returned %v, dictionary has %v", k, tv, e.shadow[k]))
		}
		delete(e.shadow, k)
	}
	e.emitEffects()
	if err == nil {
		e.dispose(vs)
	}
}

func (e *itMap) itFull() {
	e.w.L("FULL h=0 %s", hx.DumpTree(e.ps, atree.VerifMapRoot(e.m)))
	if err := atree.VerifyMap(e.m, e.addr, e.ty, func(a, b atree.TypeInfo) bool { return a == b }, hx.HashInput, true); err != nil {
		e.violation("C05", "VerifyMap: "+errLine(err))
	}
}

func digestLess(a, b []uint64) bool {
	for l := range a {
		if l >= len(b) {
			return false
		}
		if a[l] != b[l] {
			return a[l] < b[l]
		}
	}
	return false
}

// checkMapEnumeration: every pair exactly once, values as in the dictionary, keys in ascending
// order of their digest vectors.
func (e *itMap) checkMapEnumeration(name string, got []kvTV, checkValues bool) {
	if len(got) != len(e.shadow) {
		e.violation("C13", fmt.Sprintf("%s yielded %d entries, dictionary has %d", name, len(got), len(e.shadow)))
		return
	}
	seen := map[hx.TV]bool{}
	for _, p := range got {
		if seen[p.k] {
			e.violation("C13", fmt.Sprintf("%s yielded key %v twice", name, p.k))
			return
		}
		seen[p.k] = true
		want, ok := e.shadow[p.k]
		if !ok || (checkValues && want != p.v) {
			e.violation("C13", fmt.Sprintf("%s yielded %v=%v, dictionary has %v (present=%v)", name, p.k, p.v, want, ok))
			return
		}
	}
	e.checkDigestOrder(name, got)
}

func (e *itMap) checkDigestOrder(name string, got []kvTV) {
	digs := make([][]uint64, len(got))
	for i, p := range got {
		digs[i], _ = hx.Digests(e.b, p.k)
	}
	for i := 1; i < len(digs); i++ {
		if digestLess(digs[i], digs[i-1]) {
			e.violation("C13", fmt.Sprintf("%s is not in ascending order of the digest vectors at position %d", name, i))
			return
		}
	}
}

func iterMapProgram(cfg *Config, st *hx.Stats, w *hx.W, rng *rand.Rand, p int) {
	T := []uint32{256, 256, 256, 512, 256, 1024}[(p/2)%6]
	e := &itMap{w: w, st: st, cfg: cfg, rng: rng, T: T, prog: p}
	atree.VerifSetThreshold(T)
	_, _, _, _, maxElem, maxKey := atree.VerifThresholds()
	e.maxElem, e.maxKey = maxElem, maxKey
	e.ledger = hx.NewLedger()
	e.ps = hx.NewStorage(e.ledger)
	e.rec = hx.NewRecStorage(e.ps)
	e.addr = hx.MkAddr(uint64(1 + rng.Intn(3)))
	e.ty = hx.TI(uint64(rng.Intn(100)))
	e.shadow = map[hx.TV]hx.TV{}
	e.climit = 255
	e.L = 4
	salt := uint64(rng.Int63())
	// digest modes: 0 real digests; 1 few first-level digests (inline groups that grow into
	// external groups); 2 collisions at the first three levels; 3 tiny alphabets at every level
	// (full collisions: insertion-ordered lists at the last level); 4 few levels
	// 5 boundary digests (audit a1 F8): first-level digests 0 and 2^64-1, groups at both ends of
	// data slabs (the next-key hand-off across slab boundaries starts / ends inside a group)
	mode := []int{0, 1, 2, 3, 4, 5, 1, 3, 5}[(p/2)%9]
	var mkBuilder func() atree.DigesterBuilder
	switch mode {
	case 0:
		mkBuilder = func() atree.DigesterBuilder { return atree.NewDefaultDigesterBuilder() }
	default:
		alph := []uint64{1 << 62, 1 << 62, 1 << 62, 1 << 62}
		switch mode {
		case 1:
			alph = []uint64{3 + uint64(rng.Intn(30)), 1 << 62, 1 << 62, 1 << 62}
		case 2:
			alph = []uint64{6 + uint64(rng.Intn(20)), 2, 3, 1 << 62}
		case 3:
			alph = []uint64{3 + uint64(rng.Intn(12)), 2, 2, 2}
		case 4:
			e.L = uint(1 + rng.Intn(3))
			alph = []uint64{5 + uint64(rng.Intn(20)), 3, 2, 2}
		case 5:
			alph = []uint64{8 + uint64(rng.Intn(40)), 1 << 62, 1 << 62, 1 << 62}
			if rng.Intn(2) == 0 {
				alph = []uint64{8 + uint64(rng.Intn(40)), 2, 2, 2}
			}
		}
		L := e.L
		boundary := mode == 5
		mkBuilder = func() atree.DigesterBuilder {
			return &hx.TableDigesterBuilder{L: L, Fn: func(k hx.TV, l uint) uint64 {
				x := itMix(k.Pay, uint64(l), salt) % alph[l]
				if boundary && l == 0 {
					// the smallest and the largest first-level digest, each shared by a group of keys
					switch x {
					case 0:
						return 0
					case 1:
						return ^uint64(0)
					}
					return x << 58
				}
				return x * 1000003
			}}
		}
	}
	e.b = mkBuilder()
	atree.VerifSetMaxCollisionLimitPerDigest(e.climit)
	w.L("PROG kind=map")
	w.L("CFG T=%d", T)
	m, err := atree.NewMap(e.rec, e.addr, e.b, e.ty)
	if err != nil {
		st.HarnessErr = "NewMap: " + err.Error()
		return
	}
	e.m = m
	w.L("MNEW h=0 addr=%d ty=%d L=%d climit=%d seed=%d", e.addr[7], uint64(e.ty), e.L, e.climit, m.Seed())
	e.emitEffects()
	st.Hit(fmt.Sprintf("map:T=%d", T))
	st.Hit(fmt.Sprintf("map:digestMode=%d", mode))

	target := 0
	switch rng.Intn(6) {
	case 0:
		target = rng.Intn(5)
	case 1:
		target = 8 + rng.Intn(30)
	default:
		target = 60 + rng.Intn(300)
	}
	if p/2 == 5 {
		target = 0 // every run iterates an empty map (the empty iterator objects)
	}
	valProf := rng.Intn(5)
	nKeys := target + target/4 + 3
	for i := 0; i < nKeys; i++ {
		size := uint32(3 + rng.Intn(14))
		if rng.Intn(12) == 0 {
			size = e.maxKey - uint32(rng.Intn(3))
		}
		pay := uint64(i + 1)
		for !hx.ValidTV(size, pay) {
			size++
		}
		e.keyUniv = append(e.keyUniv, hx.TV{Size: size, Pay: pay})
	}
	for guard := 0; len(e.shadow) < target && guard < 4*nKeys+50; guard++ {
		k := e.keyUniv[rng.Intn(len(e.keyUniv))]
		_, present := e.shadow[k]
		if present && rng.Intn(100) < 25 {
			e.itRemove(k)
		} else {
			e.itSet(k, e.genValue(valProf))
		}
		e.step++
		st.Ops++
	}
	e.itFull()
	e.itShape()

	var lastFull []kvTV
	rounds := 3 + rng.Intn(3)
	iterNote(st, iterSeen, fmt.Sprintf("map/%d/%d/%d/%d", T, mode, e.L, len(e.shadow)),
		fmt.Sprintf("map T=%d digestMode=%d levels=%d entries=%d slabs=%d rounds=%d (8 loaded subsets + 12 flavours + overwrite pass each)",
			T, mode, e.L, len(e.shadow), len(atree.VerifDeltas(e.ps)), rounds))
	for r := 0; r < rounds && len(st.Violations) <= 20; r++ {
		if err := e.ps.FastCommit(1 + rng.Intn(3)); err != nil {
			e.violation("C03", "fault-free commit failed: "+errLine(err))
			return
		}
		for k := 0; k < 8; k++ {
			e.itLoadedRound(k, mkBuilder)
		}
		e.itLoadedHoles(mkBuilder)
		lastFull = e.itFlavours(mkBuilder)
		e.itStop(mkBuilder)
		e.itObj(mkBuilder)
		e.itMutSet(valProf)
		e.itFull()
		e.step++
	}
	// reverse-order bulk pop
	lastFull = e.fullList()
	w.L("OP mpop h=0")
	type skv struct{ k, v atree.Storable }
	var got []skv
	if err := e.m.PopIterate(func(k, v atree.Storable) { got = append(got, skv{k, v}) }); err != nil {
		w.L("OBS err:%s", hx.ErrKind(err))
		e.violation("C13", "PopIterate failed: "+errLine(err))
	} else {
		parts := make([]string, len(got))
		for i, p := range got {
			parts[i] = itRenderStorable(p.k) + "=" + itRenderStorable(p.v)
		}
		w.L("OBS ok:[%s]", strings.Join(parts, ","))
		rev := make([]kvTV, len(got))
		okAll := true
		for i, p := range got {
			kt, _ := p.k.(hx.TV)
			vt, ok := e.resolve(p.v)
			okAll = okAll && ok
			rev[len(got)-1-i] = kvTV{kt, vt}
		}
		if !okAll {
			e.violation("C13", "PopIterate yielded a value that does not resolve")
		}
		e.checkMapEnumeration("reversed PopIterate", rev, true)
		if lastFull != nil && len(rev) == len(lastFull) {
			for i := range rev {
				if rev[i] != lastFull[i] {
					e.violation("C13", fmt.Sprintf("PopIterate is not the reverse of the forward enumeration at position %d", i))
					break
				}
			}
		}
		e.shadow = map[hx.TV]hx.TV{}
		if e.m.Count() != 0 {
			e.violation("C13", "map not empty after PopIterate")
		}
	}
	e.emitEffects()
	for _, p := range got {
		e.dispose(p.v)
	}
	st.Hit("map:pop")
	e.itFull()
}

// itShape records which collision-group shapes sit at slab boundaries (coverage only).
func (e *itMap) itShape() {
	dump := hx.DumpTree(e.ps, atree.VerifMapRoot(e.m))
	if strings.Contains(dump, " I(") || strings.Contains(dump, "[I(") {
		e.st.Hit("map:shape:inline-group")
	}
	if strings.Contains(dump, "X(") {
		e.st.Hit("map:shape:external-group")
	}
	if strings.Contains(dump, "L(") {
		e.st.Hit("map:shape:last-level-list")
	}
	if strings.Contains(dump, "m(") {
		e.st.Hit("map:shape:multi-level")
	}
	multi := strings.Contains(dump, "m(")
	for k := range e.shadow {
		if digs, err := hx.Digests(e.b, k); err == nil && len(digs) > 0 && multi {
			if digs[0] == 0 {
				e.st.Hit("map:boundary:first-level-digest=0")
			}
			if digs[0] == ^uint64(0) {
				e.st.Hit("map:boundary:first-level-digest=max")
			}
		}
	}
	// data slabs of the tree proper end in ",0,0)" (not any-size, not a collision-group slab)
	for _, part := range strings.Split(dump, " d(") {
		i := strings.Index(part, "}[")
		if i < 0 || !strings.Contains(part[:i], ",0,0)") {
			continue
		}
		body := part[i+2:]
		if strings.HasPrefix(body, "I(") || strings.HasPrefix(body, "X(") {
			e.st.Hit("map:shape:slab-starts-with-group")
		}
	}
	// a group is the last element of a data slab iff the slab dump ends with "])]" or with "X(..)]"
	for _, part := range strings.Split(dump, " ") {
		if strings.HasSuffix(part, "])]") {
			e.st.Hit("map:shape:slab-ends-with-inline-group")
		}
	}
}

func (e *itMap) reopen(mk func() atree.DigesterBuilder) (*atree.PersistentSlabStorage, *atree.OrderedMap, error) {
	fresh := hx.NewStorage(e.ledger)
	m2, err := atree.NewMapWithRootID(fresh, e.m.SlabID(), mk())
	return fresh, m2, err
}

func (e *itMap) fullList() []kvTV {
	var got []kvTV
	_ = e.m.IterateReadOnly(func(k, v atree.Value) (bool, error) {
		kt, _ := k.(hx.TV)
		vt, _ := v.(hx.TV)
		got = append(got, kvTV{kt, vt})
		return true, nil
	})
	return got
}

func (e *itMap) itLoadedRound(k int, mk func() atree.DigesterBuilder) {
	fresh := hx.NewStorage(e.ledger)
	ids := e.ledger.SortedIDs()
	mode := k % 5
	if mode == 4 {
		mode = 2
	}
	if k >= 5 {
		mode = 0
	}
	before := e.rng.Intn(2) == 0
	if before {
		loadSubset(e.rng, fresh, ids, mode)
	}
	m2, err := atree.NewMapWithRootID(fresh, e.m.SlabID(), mk())
	if err != nil {
		e.violation("C03", "cannot reopen committed map: "+errLine(err))
		return
	}
	if !before {
		loadSubset(e.rng, fresh, ids, mode)
	}
	if k == 7 {
		// the live handle on the live storage (write set and read cache hold every slab)
		fresh, m2 = e.ps, e.m
	}
	if k == 5 && len(e.keyUniv) > 0 {
		for j := 0; j < 1+e.rng.Intn(6); j++ {
			_, _ = m2.Get(hx.CompareKey, hx.HashInput, e.keyUniv[e.rng.Intn(len(e.keyUniv))])
		}
	}
	if k == 6 {
		// a read-only iteration stopped half way loads a prefix of the leaf chain
		stop := e.rng.Intn(len(e.shadow) + 1)
		c := 0
		_ = m2.IterateReadOnly(func(atree.Value, atree.Value) (bool, error) { c++; return c < stop, nil })
	}
	ld := loadedIDs(fresh)
	var got []kvTV
	bad := false
	var pan string
	err, pan = guardedRead(func() error {
		return m2.IterateReadOnlyLoadedValues(func(k, v atree.Value) (bool, error) {
			kt, ok1 := k.(hx.TV)
			vt, ok2 := v.(hx.TV)
			bad = bad || !ok1 || !ok2
			got = append(got, kvTV{kt, vt})
			return true, nil
		})
	})
	if pan != "" {
		e.violation("*", fmt.Sprintf("IterateReadOnlyLoadedValues PANICKED on a map with the loaded slabs %s: %s", idList(ld), pan))
		return
	}
	e.w.L("IT map h=0 kind=loaded ld=%s", idList(ld))
	e.st.Hit(fmt.Sprintf("map:loaded:mode%d", mode))
	if err != nil {
		e.w.L("OBS err:%s", hx.ErrKind(err))
		e.violation("C13", "loaded-value iteration failed: "+errLine(err))
		return
	}
	e.w.L("OBS ok:%s", kvList(got))
	if bad {
		e.violation("C13", "loaded-value iteration yielded a value of an unexpected type")
	}
	if after := loadedIDs(fresh); !sameIDs(ld, after) {
		e.violation("C13", fmt.Sprintf("loaded-value iteration loaded or dropped slabs: %d before, %d after", len(ld), len(after)))
	}
	full := e.fullList()
	if !isSubsequence(got, full) {
		e.violation("C13", fmt.Sprintf("partially loaded map (%d of %d slabs): %d yielded entries are not an in-order subsequence of the %d entries",
			len(ld), len(ids), len(got), len(full)))
	}
	e.loadedExact(fmt.Sprintf("partially loaded map (%d of %d slabs)", len(ld), len(ids)), fresh, got)
	if len(ld) == len(ids) {
		e.st.Hit("map:loaded:all")
		if len(got) != len(full) {
			e.violation("C13", fmt.Sprintf("fully loaded map: loaded-value iteration yielded %d entries, map has %d", len(got), len(full)))
		}
	} else if len(got) < len(full) {
		e.st.Hit("map:loaded:partial")
	}
}

func (e *itMap) itFlavours(mk func() atree.DigesterBuilder) []kvTV {
	w := e.w
	_, m2, err := e.reopen(mk)
	if err != nil {
		e.violation("C03", "cannot reopen committed map: "+errLine(err))
		return nil
	}
	pairFn := func(dst *[]kvTV) atree.MapEntryIterationFunc {
		return func(k, v atree.Value) (bool, error) {
			kt, _ := k.(hx.TV)
			vt, _ := v.(hx.TV)
			*dst = append(*dst, kvTV{kt, vt})
			return true, nil
		}
	}
	oneFn := func(dst *[]hx.TV) atree.MapElementIterationFunc {
		return func(x atree.Value) (bool, error) {
			t, _ := x.(hx.TV)
			*dst = append(*dst, t)
			return true, nil
		}
	}
	fail := func(name string, err error) {
		w.L("OBS err:%s", hx.ErrKind(err))
		e.violation("C13", name+" iteration failed: "+errLine(err))
	}
	var ref []kvTV
	for idx, mm := range []*atree.OrderedMap{m2, e.m} {
		tag := []string{"", "-live"}[idx]
		var mut, ro []kvTV
		var keys, rokeys, vals, rovals []hx.TV
		w.L("IT map h=0 kind=mut")
		if err := mm.Iterate(hx.CompareKey, hx.HashInput, pairFn(&mut)); err != nil {
			fail("mut", err)
			return nil
		}
		w.L("OBS ok:%s", kvList(mut))
		w.L("IT map h=0 kind=ro")
		if err := mm.IterateReadOnly(pairFn(&ro)); err != nil {
			fail("ro", err)
			return nil
		}
		w.L("OBS ok:%s", kvList(ro))
		w.L("IT map h=0 kind=keys")
		if err := mm.IterateKeys(hx.CompareKey, hx.HashInput, oneFn(&keys)); err != nil {
			fail("keys", err)
			return nil
		}
		w.L("OBS ok:%s", tvList(keys))
		w.L("IT map h=0 kind=rokeys")
		if err := mm.IterateReadOnlyKeys(oneFn(&rokeys)); err != nil {
			fail("rokeys", err)
			return nil
		}
		w.L("OBS ok:%s", tvList(rokeys))
		w.L("IT map h=0 kind=vals")
		if err := mm.IterateValues(hx.CompareKey, hx.HashInput, oneFn(&vals)); err != nil {
			fail("vals", err)
			return nil
		}
		w.L("OBS ok:%s", tvList(vals))
		w.L("IT map h=0 kind=rovals")
		if err := mm.IterateReadOnlyValues(oneFn(&rovals)); err != nil {
			fail("rovals", err)
			return nil
		}
		w.L("OBS ok:%s", tvList(rovals))
		for _, n := range []string{"mut", "ro", "keys", "rokeys", "vals", "rovals"} {
			e.st.Hit("map:" + n + tag)
		}
		e.checkMapEnumeration("Iterate"+tag, mut, true)
		e.checkMapEnumeration("IterateReadOnly"+tag, ro, true)
		// all flavours agree pairwise
		same := len(mut) == len(ro) && len(keys) == len(ro) && len(rokeys) == len(ro) && len(vals) == len(ro) && len(rovals) == len(ro)
		for i := 0; same && i < len(ro); i++ {
			same = mut[i] == ro[i] && keys[i] == ro[i].k && rokeys[i] == ro[i].k && vals[i] == ro[i].v && rovals[i] == ro[i].v
		}
		if !same {
			e.violation("C13", fmt.Sprintf("map iterator flavours disagree%s (lengths mut=%d ro=%d keys=%d rokeys=%d vals=%d rovals=%d)",
				tag, len(mut), len(ro), len(keys), len(rokeys), len(vals), len(rovals)))
		}
		if idx == 0 {
			ref = ro
		} else if len(ref) != len(ro) {
			e.violation("C13", "reopened map and live map enumerate differently")
		} else {
			for i := range ro {
				if ro[i] != ref[i] {
					e.violation("C13", "reopened map and live map enumerate differently")
					break
				}
			}
		}
		// ... and with Get-by-key
		for _, p := range ro {
			v, err := mm.Get(hx.CompareKey, hx.HashInput, p.k)
			if tv, _ := v.(hx.TV); err != nil || tv != p.v {
				e.violation("C13", fmt.Sprintf("Get(%v) = %v (%v), iteration yielded %v", p.k, v, err, p.v))
				break
			}
		}
	}
	return ref
}

func (e *itMap) itMutSet(valProf int) {
	w := e.w
	prob := []int{0, 10, 35, 100}[e.rng.Intn(4)]
	sets := map[hx.TV]hx.TV{}
	var parts []string
	keys := make([]hx.TV, 0, len(e.shadow))
	for k := range e.shadow {
		keys = append(keys, k)
	}
	sort.Slice(keys, func(i, j int) bool { return keys[i].Pay < keys[j].Pay })
	for _, k := range keys {
		if e.rng.Intn(100) < prob {
			v := e.genValue(valProf)
			sets[k] = v
			parts = append(parts, fmt.Sprintf("%d:%d:%d", k.Pay, v.Size, v.Pay))
		}
	}
	spec := "-"
	if len(parts) > 0 {
		spec = strings.Join(parts, ";")
	}
	before := e.fullList()
	w.L("IT map h=0 kind=mutset sets=%s", spec)
	var got []kvTV
	var olds []atree.Storable
	var inner error
	err := e.m.Iterate(hx.CompareKey, hx.HashInput, func(k, v atree.Value) (bool, error) {
		kt, _ := k.(hx.TV)
		vt, _ := v.(hx.TV)
		got = append(got, kvTV{kt, vt})
		if nv, ok := sets[kt]; ok {
			old, err := e.m.Set(hx.CompareKey, hx.HashInput, kt, nv)
			if err != nil {
				inner = err
				return false, nil
			}
			if tv, ok := e.resolve(old); !ok || tv != vt {
				e.violation("C13", fmt.Sprintf("overwriting the current entry %v returned previous value %v, iteration had yielded %v", kt, tv, vt))
			}
			olds = append(olds, old)
		}
		return true, nil
	})
	e.st.Hit("map:mutset")
	if err != nil || inner != nil {
		if err == nil {
			err = inner
		}
		w.L("OBS err:%s", hx.ErrKind(err))
		e.violation("C13", "mutable iteration with overwrites failed: "+errLine(err))
		e.emitEffects()
		return
	}
	w.L("OBS ok:%s", kvList(got))
	e.emitEffects()
	for _, o := range olds {
		e.dispose(o)
	}
	// neither skipped nor repeated: exactly the enumeration of the map as it was before
	same := len(got) == len(before)
	for i := 0; same && i < len(got); i++ {
		same = got[i] == before[i]
	}
	if !same {
		e.violation("C13", fmt.Sprintf("mutable iteration with %d overwrites of the current entry yielded %d entries, the map had %d (or order/values differ)", len(sets), len(got), len(before)))
	}
	for k, v := range sets {
		e.shadow[k] = v
	}
	after := e.fullList()
	e.checkMapEnumeration("enumeration after overwriting during iteration", after, true)
	if len(after) == len(before) {
		for i := range after {
			if after[i].k != before[i].k {
				e.violation("C13", "overwriting values during iteration changed the key order")
				break
			}
		}
	}
	if len(sets) > 0 {
		e.st.Hit("map:mutset:overwrote")
	}
}

// ---------------------------------------------------------------------------------------------
// nested containers mutated during mutable iteration (no model: implementation oracles)

func iterNestedOracle(cfg *Config, st *hx.Stats, w *hx.W, rng *rand.Rand, p int) {
	T := []uint32{256, 512, 1024}[p%3]
	atree.VerifSetThreshold(T)
	ledger := hx.NewLedger()
	ps := hx.NewStorage(ledger)
	addr := hx.MkAddr(uint64(1 + rng.Intn(3)))
	viol := func(what string) {
		st.Violations = append(st.Violations, hx.Violation{Property: "C13", Stream: st.Stream, Seed: cfg.Seed, Program: p, What: what, Trace: w.Path, Line: w.Lines})
	}
	nChildren := 5 + rng.Intn(60)
	grow := 1 + rng.Intn(12) // appends per child during the iteration (children outgrow inlining)
	tyEq := func(a, b atree.TypeInfo) bool { return a == b }
	if p%2 == 0 {
		parent, err := atree.NewArray(ps, addr, hx.TI(1))
		if err != nil {
			st.HarnessErr = err.Error()
			return
		}
		for i := 0; i < nChildren; i++ {
			c, _ := atree.NewArray(ps, addr, hx.TI(2))
			_ = c.Append(hx.TV{Size: 9, Pay: uint64(1000 + i)})
			if err := parent.Append(c); err != nil {
				st.HarnessErr = err.Error()
				return
			}
		}
		var seen []uint64
		i := 0
		err = parent.Iterate(func(v atree.Value) (bool, error) {
			c, ok := v.(*atree.Array)
			if !ok {
				return false, fmt.Errorf("element %d is %T", i, v)
			}
			first, err := c.Get(0)
			if err != nil {
				return false, err
			}
			seen = append(seen, first.(hx.TV).Pay)
			for j := 0; j < grow; j++ {
				if err := c.Append(hx.TV{Size: uint32(9 + rng.Intn(40)), Pay: uint64(i*100 + j)}); err != nil {
					return false, err
				}
			}
			i++
			return true, nil
		})
		st.Hit("nested:array-of-arrays")
		if err != nil {
			viol("mutating child arrays during mutable iteration failed: " + errLine(err))
			return
		}
		if len(seen) != nChildren {
			viol(fmt.Sprintf("mutating child arrays during mutable iteration: visited %d of %d children", len(seen), nChildren))
			return
		}
		for i, s := range seen {
			if s != uint64(1000+i) {
				viol(fmt.Sprintf("mutating child arrays during mutable iteration: position %d visited child %d (skip or repeat)", i, s-1000))
				return
			}
		}
		for i := 0; i < nChildren; i++ {
			v, err := parent.Get(uint64(i))
			c, ok := v.(*atree.Array)
			if err != nil || !ok || c.Count() != uint64(1+grow) {
				viol(fmt.Sprintf("child %d does not hold the elements appended during iteration", i))
				return
			}
		}
		if err := atree.VerifyArray(parent, addr, hx.TI(1), tyEq, nil, true); err != nil {
			viol("VerifyArray after mutating children during iteration: " + errLine(err))
		}
		return
	}
	// map whose values are arrays
	b := &hx.TableDigesterBuilder{L: 4, Fn: func(k hx.TV, l uint) uint64 {
		alph := []uint64{uint64(3 + nChildren/4), 3, 2, 1 << 62}
		return itMix(k.Pay, uint64(l), 77) % alph[l] * 1000003
	}}
	parent, err := atree.NewMap(ps, addr, b, hx.TI(1))
	if err != nil {
		st.HarnessErr = err.Error()
		return
	}
	for i := 0; i < nChildren; i++ {
		c, _ := atree.NewArray(ps, addr, hx.TI(2))
		_ = c.Append(hx.TV{Size: 9, Pay: uint64(1000 + i)})
		if _, err := parent.Set(hx.CompareKey, hx.HashInput, hx.TV{Size: 9, Pay: uint64(i + 1)}, c); err != nil {
			st.HarnessErr = err.Error()
			return
		}
	}
	var order []hx.TV
	_ = parent.IterateReadOnlyKeys(func(k atree.Value) (bool, error) { order = append(order, k.(hx.TV)); return true, nil })
	var seen []hx.TV
	err = parent.Iterate(hx.CompareKey, hx.HashInput, func(k, v atree.Value) (bool, error) {
		c, ok := v.(*atree.Array)
		if !ok {
			return false, fmt.Errorf("value of %v is %T", k, v)
		}
		seen = append(seen, k.(hx.TV))
		for j := 0; j < grow; j++ {
			if err := c.Append(hx.TV{Size: uint32(9 + rng.Intn(40)), Pay: uint64(j)}); err != nil {
				return false, err
			}
		}
		return true, nil
	})
	st.Hit("nested:map-of-arrays")
	if err != nil {
		viol("mutating child arrays during mutable map iteration failed: " + errLine(err))
		return
	}
	if !equalTV(seen, order) {
		viol(fmt.Sprintf("mutating child arrays during mutable map iteration: visited %d keys, map has %d (skip, repeat or reorder)", len(seen), len(order)))
		return
	}
	for _, k := range order {
		v, err := parent.Get(hx.CompareKey, hx.HashInput, k)
		c, ok := v.(*atree.Array)
		if err != nil || !ok || c.Count() != uint64(1+grow) {
			viol(fmt.Sprintf("value of %v does not hold the elements appended during iteration", k))
			return
		}
	}
	if err := atree.VerifyMap(parent, addr, hx.TI(1), tyEq, hx.HashInput, true); err != nil {
		viol("VerifyMap after mutating children during iteration: " + errLine(err))
	}
}
