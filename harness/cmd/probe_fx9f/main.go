// probe_fx9f: minimal reproductions against the real library (audit a1, F4a / F4b).
//
//	F4a  NewMapFromBatchData does not apply maxCollisionLimitPerDigest (observation)
//	F4b  a REJECTED bulk build leaves the slabs it had already stored in the pending write set
//	     (violation candidate, signature batch-build:rejected-build-leaves-slabs)
//
// go run -tags verif ./cmd/probe_fx9f
package main

import (
	"errors"
	"fmt"

	"github.com/fxamacker/cbor/v2"
	"github.com/onflow/atree"

	"verifharness/hx"
)

func newStore() (*atree.PersistentSlabStorage, *hx.RecStorage) {
	em, _ := cbor.EncOptions{}.EncMode()
	dm, _ := cbor.DecOptions{}.DecMode()
	ps := atree.NewPersistentSlabStorage(hx.NewLedger(), em, dm, hx.DecodeStorable, hx.DecodeTypeInfo)
	return ps, hx.NewRecStorage(ps)
}

func report(what string, ps *atree.PersistentSlabStorage, rec *hx.RecStorage, err error) {
	fmt.Printf("%s\n  error: %s   (%v)\n", what, hx.ErrKind(err), err)
	fmt.Println("  storage calls made by the rejected request:", hx.NetEffect(rec.Effs))
	roots, herr := atree.CheckStorageHealth(ps, 0)
	fmt.Printf("  CheckStorageHealth(storage, 0): roots=%d err=%v\n", len(roots), herr)
	fmt.Println("  slabs left in the pending write set:", len(atree.VerifDeltas(ps)))
}

func main() {
	atree.VerifSetThreshold(1024)
	addr := hx.MkAddr(1)

	// ---- F4a -------------------------------------------------------------------------------
	db := &hx.TableDigesterBuilder{L: 2, Fn: func(k hx.TV, l uint) uint64 {
		if l == 0 {
			return 5
		}
		return k.Pay
	}}
	old := atree.VerifSetMaxCollisionLimitPerDigest(2)
	_, rec := newStore()
	m, _ := atree.NewMap(rec, addr, db, hx.TI(1))
	for i := 1; i <= 10; i++ {
		if _, err := m.Set(hx.CompareKey, hx.HashInput, hx.TV{Size: 9, Pay: uint64(i)}, hx.TV{Size: 4, Pay: uint64(i)}); err != nil {
			fmt.Printf("F4a single operations, limit 2: Set #%d refused with %s (count %d)\n", i, hx.ErrKind(err), m.Count())
			break
		}
	}
	_, rec2 := newStore()
	i := 0
	bm, err := atree.NewMapFromBatchData(rec2, addr, db, hx.TI(1), hx.CompareKey, hx.HashInput, 12345,
		func() (atree.Value, atree.Value, error) {
			if i == 10 {
				return nil, nil, nil
			}
			i++
			return hx.TV{Size: 9, Pay: uint64(i)}, hx.TV{Size: 4, Pay: uint64(i)}, nil
		})
	if err != nil {
		fmt.Println("F4a bulk build refused:", hx.ErrKind(err))
	} else {
		verr := atree.VerifyMap(bm, addr, hx.TI(1), func(a, b atree.TypeInfo) bool { return a == b }, hx.HashInput, true)
		fmt.Printf("F4a bulk build, limit 2: accepted %d keys under one first-level digest; VerifyMap: %v\n", bm.Count(), verr)
		_, err = bm.Set(hx.CompareKey, hx.HashInput, hx.TV{Size: 9, Pay: 11}, hx.TV{Size: 4, Pay: 11})
		fmt.Println("    Set of an 11th colliding key on it:", hx.ErrKind(err))
		_, err = bm.Set(hx.CompareKey, hx.HashInput, hx.TV{Size: 9, Pay: 3}, hx.TV{Size: 4, Pay: 33})
		fmt.Println("    update of an existing key on it:", hx.ErrKind(err))
	}
	atree.VerifSetMaxCollisionLimitPerDigest(old)

	// ---- F4b, minimal: ONE pair with a value above the inline limit, then the same key again ----
	ps3, rec3 := newStore()
	pairs := []hx.TV{{Size: 9, Pay: 1}, {Size: 9, Pay: 1}}
	j := 0
	_, err = atree.NewMapFromBatchData(rec3, addr, atree.NewDefaultDigesterBuilder(), hx.TI(1), hx.CompareKey, hx.HashInput, 12345,
		func() (atree.Value, atree.Value, error) {
			if j == len(pairs) {
				return nil, nil, nil
			}
			j++
			return pairs[j-1], hx.TV{Size: 600, Pay: uint64(j)}, nil
		})
	report("F4b minimal: NewMapFromBatchData([(k1, 600-byte value), (k1, 600-byte value)])", ps3, rec3, err)

	// ---- F4b, the audit's: 400 keys with 600-byte values + the last key once more ---------------
	db2 := atree.NewDefaultDigesterBuilder()
	_, recS := newStore()
	src, _ := atree.NewMap(recS, addr, db2, hx.TI(1))
	for k := 1; k <= 400; k++ {
		_, _ = src.Set(hx.CompareKey, hx.HashInput, hx.TV{Size: 9, Pay: uint64(k)}, hx.TV{Size: 600, Pay: uint64(k)})
	}
	var ks, vs []hx.TV
	_ = src.IterateReadOnly(func(k, v atree.Value) (bool, error) { ks = append(ks, k.(hx.TV)); vs = append(vs, v.(hx.TV)); return true, nil })
	ks = append(ks, ks[len(ks)-1])
	vs = append(vs, vs[len(vs)-1])
	ps4, rec4 := newStore()
	j = 0
	_, err = atree.NewMapFromBatchData(rec4, addr, db2, hx.TI(1), hx.CompareKey, hx.HashInput, src.Seed(),
		func() (atree.Value, atree.Value, error) {
			if j == len(ks) {
				return nil, nil, nil
			}
			j++
			return ks[j-1], vs[j-1], nil
		})
	rec4.Effs = rec4.Effs[:0:0]
	report("F4b audit: 400 pairs with 600-byte values + duplicate last key", ps4, rec4, err)

	// ---- F4b, arrays: the element provider fails after one externalised value ------------------
	ps5, rec5 := newStore()
	j = 0
	_, err = atree.NewArrayFromBatchData(rec5, addr, hx.TI(1), func() (atree.Value, error) {
		j++
		if j == 2 {
			return nil, errors.New("provider failed")
		}
		return hx.TV{Size: 600, Pay: 1}, nil
	})
	report("F4b arrays: NewArrayFromBatchData, provider fails after one 600-byte value", ps5, rec5, err)
}
