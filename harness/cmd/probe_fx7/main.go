// Minimal reproduction of finding F2c (fixer fx7; run: go run -tags verif ./cmd/probe_fx7).
//
// A child container is removed from a MAP through handle A of that map: the child's handle keeps the
// parent-updater closure, which captured handle object A.  The program then re-reads the map from
// ITS parent (handle B) and goes on with B only - one handle per container in the program's hands at
// any time.  Through B the map shrinks from two levels to a single slab: B's root pointer is
// replaced, A's still names the old index slab whose children have been removed from storage.
// The next mutation of the detached child (small enough to be inlined, so the callback does not
// return early) looks the child up through A, walks the stale root and fails with a FATAL
// SlabNotFound error - after the mutation has been applied to the child.
package main

import (
	"fmt"

	"github.com/onflow/atree"

	"verifharness/hx"
)

func main() {
	for _, T := range []uint32{256, 512, 1024} {
		atree.VerifSetThreshold(T)
		ps := hx.NewStorage(hx.NewLedger())
		addr := hx.MkAddr(1)
		grand, _ := atree.NewArray(ps, addr, hx.TI(1))
		pm, _ := atree.NewMap(ps, addr, atree.NewDefaultDigesterBuilder(), hx.TI(2))
		_ = grand.Append(pm)
		va, _ := grand.Get(0)
		pA := va.(*atree.OrderedMap)
		n := 0
		for pA.IsWithinSingleSlab() {
			_, _ = pA.Set(hx.CompareKey, hx.HashInput, hx.TV{Size: 9, Pay: uint64(1000 + n)}, hx.TV{Size: 40, Pay: uint64(n)})
			n++
		}
		var kids []*atree.Array
		for k := 0; k < 8; k++ {
			child, _ := atree.NewArray(ps, addr, hx.TI(3))
			key := hx.TV{Size: 9, Pay: uint64(1 + k)}
			_, _ = pA.Set(hx.CompareKey, hx.HashInput, key, child)
			_, _, _ = pA.Remove(hx.CompareKey, hx.HashInput, key)
			kids = append(kids, child)
		}
		vb, _ := grand.Get(0)
		pB := vb.(*atree.OrderedMap)
		for i := 0; i < n && !pB.IsWithinSingleSlab(); i++ {
			_, _, _ = pB.Remove(hx.CompareKey, hx.HashInput, hx.TV{Size: 9, Pay: uint64(1000 + i)})
		}
		fmt.Printf("T=%d: map built with %d entries through A, 8 children detached through A, map shrunk to one slab through B\n", T, n)
		fmt.Printf("  root as A sees it: %s\n  root as B sees it: %.100s...\n", atree.VerifDumpSlab(atree.VerifMapRoot(pA), hx.Describe), atree.VerifDumpSlab(atree.VerifMapRoot(pB), hx.Describe))
		for k, child := range kids {
			err := child.Append(hx.TV{Size: 5, Pay: 1})
			fmt.Printf("  detached child %d: Append -> %v (count now %d, callback still set: %v)\n", k, err, child.Count(), atree.VerifArrayHasParentUpdater(child))
		}
	}
}
