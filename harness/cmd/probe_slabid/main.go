// probe_slabid: reproduces on the real code the observations recorded in INTEGRATION-slabid.md
// (section 5).  Development helper; nothing registered depends on it.
package main

import (
	"bytes"
	"fmt"

	"github.com/onflow/atree"
	testutils "github.com/onflow/atree/test_utils"

	"verifharness/hx"
)

type nullLedger struct{ regs map[string][]byte }

func (l *nullLedger) GetValue(o, k []byte) ([]byte, error) { return l.regs[string(o)+"/"+string(k)], nil }
func (l *nullLedger) SetValue(o, k, v []byte) error        { l.regs[string(o)+"/"+string(k)] = v; return nil }
func (l *nullLedger) ValueExists(o, k []byte) (bool, error) {
	_, ok := l.regs[string(o)+"/"+string(k)]
	return ok, nil
}
func (l *nullLedger) AllocateSlabIndex(o []byte) (atree.SlabIndex, error) {
	return atree.SlabIndex{0, 0, 0, 0, 0, 0, 0, 1}, nil
}

func main() {
	atree.VerifSetThreshold(1024)
	addr := hx.MkAddr(1)

	// O-a: a register whose slab reference is a 17-byte string decodes; re-encoding gives other bytes
	ps := hx.NewStorage(hx.NewLedger())
	arr, _ := atree.NewArray(ps, addr, hx.TI(1))
	_ = arr.Append(hx.TV{Size: 5, Pay: 1})
	_ = arr.Append(hx.TV{Size: 900, Pay: 2}) // too large to inline: stored in its own slab, referenced
	root := atree.VerifArrayRoot(arr)
	reg, err := atree.EncodeSlab(root, hx.EncMode())
	if err != nil {
		panic(err)
	}
	i := bytes.Index(reg, []byte{0xd8, 0xff, 0x50})
	if i < 0 {
		panic("no slab reference in the register")
	}
	mut := append([]byte{}, reg[:i]...)
	mut = append(mut, 0xd8, 0xff, 0x51)
	mut = append(mut, reg[i+3:i+19]...)
	mut = append(mut, 0xEE) // 17th byte
	mut = append(mut, reg[i+19:]...)
	s, err := atree.DecodeSlab(root.SlabID(), mut, hx.DecMode(), hx.DecodeStorable, hx.DecodeTypeInfo)
	fmt.Printf("O-a  DecodeSlab of a register with a 17-byte slab reference: err=%v\n", err)
	if err == nil {
		re, err := atree.EncodeSlab(s, hx.EncMode())
		fmt.Printf("O-a  re-encoded equals the mutated register: %v (err=%v); equals the ORIGINAL register: %v\n",
			bytes.Equal(re, mut), err, bytes.Equal(re, reg))
	}

	// O-b: LedgerBaseStorage vs InMemBaseStorage on zero-length data
	id := hx.MkIDn(1, 7)
	lb := atree.NewLedgerBaseStorage(&nullLedger{regs: map[string][]byte{}})
	im := testutils.NewInMemBaseStorage()
	_ = lb.Store(id, []byte{})
	_ = im.Store(id, []byte{})
	_, f1, _ := lb.Retrieve(id)
	_, f2, _ := im.Retrieve(id)
	fmt.Printf("O-b  Store(id, []byte{}) then Retrieve(id): LedgerBaseStorage found=%v, InMemBaseStorage found=%v\n", f1, f2)

	// O-c: BasicSlabStorage accepts SlabIDUndefined as a key; sentinel-driven consumers stop early
	bs := atree.NewBasicSlabStorage(hx.EncMode(), hx.DecMode(), hx.DecodeStorable, hx.DecodeTypeInfo)
	arr2, _ := atree.NewArray(bs, addr, hx.TI(1))
	_ = arr2.Append(hx.TV{Size: 5, Pay: 1})
	errStore := bs.Store(atree.SlabIDUndefined, atree.VerifArrayRoot(arr2))
	psErr := ps.Store(atree.SlabIDUndefined, atree.VerifArrayRoot(arr2))
	fmt.Printf("O-c  BasicSlabStorage.Store(SlabIDUndefined, slab): err=%v; PersistentSlabStorage.Store: err=%v\n", errStore, psErr)
	seenMin, seenMax := 99, -1
	for k := 0; k < 50; k++ {
		it, _ := bs.SlabIterator()
		n := 0
		for {
			sid, _ := it()
			if sid == atree.SlabIDUndefined {
				break
			}
			n++
		}
		if n < seenMin {
			seenMin = n
		}
		if n > seenMax {
			seenMax = n
		}
	}
	fmt.Printf("O-c  Count()=%d, a sentinel-driven loop over SlabIterator visited between %d and %d slabs (50 tries)\n", bs.Count(), seenMin, seenMax)
	_, herr := atree.CheckStorageHealth(bs, 1)
	fmt.Printf("O-c  CheckStorageHealth(storage, 1) = %v\n", herr)

	// O-d: the guard of PersistentSlabStorage.Store is weaker than SlabID.Valid
	bad := hx.MkIDn(1, 0)
	fmt.Printf("O-d  id %s: Valid()=%v; PersistentSlabStorage.Store err=%v\n", bad, bad.Valid(), ps.Store(bad, atree.VerifArrayRoot(arr2)))

	// O-e: SlabIndex.Next wraps to SlabIndexUndefined
	max := atree.SlabIndex{0xff, 0xff, 0xff, 0xff, 0xff, 0xff, 0xff, 0xff}
	fmt.Printf("O-e  SlabIndex{ff..ff}.Next() == SlabIndexUndefined: %v\n", max.Next() == atree.SlabIndexUndefined)

	// O-f: LedgerKeyIsSlabKey looks at the first byte only
	fmt.Printf("O-f  LedgerKeyIsSlabKey(\"$\")=%v  (\"$\"+20 bytes)=%v  (9-byte key without '$')=%v\n",
		atree.LedgerKeyIsSlabKey("$"), atree.LedgerKeyIsSlabKey("$01234567890123456789"), atree.LedgerKeyIsSlabKey("#12345678"))
}
