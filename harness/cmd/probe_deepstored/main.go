// probe_deepstored: the point at which the Lean theorem C10Persist.deep_op_persisted needs the
// hypothesis `DeepStored`: a mutation of an INLINED child that leaves its inlined size unchanged,
// the parent being a MULTI-SLAB array / map.  The real code must store the data slab that holds the
// child's slot, so that commit + reopen + read through the parent shows the new value.
// Development helper (not part of ./check).
package main

import (
	"fmt"

	"github.com/onflow/atree"
	"verifharness/hx"
)

func main() {
	atree.VerifSetThreshold(256)
	addr := hx.MkAddr(1)
	bad := 0
	// array parent, child at every position
	for pos := 0; pos < 60; pos += 7 {
		led := hx.NewLedger()
		ps := hx.NewStorage(led)
		parent, _ := atree.NewArray(ps, addr, hx.TI(1))
		for i := 0; i < 60; i++ {
			_ = parent.Append(hx.TV{Size: 20, Pay: uint64(i)})
		}
		child, _ := atree.NewArray(ps, addr, hx.TI(2))
		_ = child.Append(hx.TV{Size: 9, Pay: 1})
		_ = child.Append(hx.TV{Size: 9, Pay: 2})
		_ = parent.Insert(uint64(pos), child)
		if err := ps.FastCommit(2); err != nil {
			panic(err)
		}
		led.ResetCalls()
		// same-size overwrite inside the inlined child
		if _, err := child.Set(1, hx.TV{Size: 9, Pay: 777}); err != nil {
			panic(err)
		}
		if err := ps.FastCommit(2); err != nil {
			panic(err)
		}
		stores := len(led.Log)
		ps2 := hx.NewStorage(led)
		p2, err := atree.NewArrayWithRootID(ps2, parent.SlabID())
		if err != nil {
			panic(err)
		}
		v, err := p2.Get(uint64(pos))
		if err != nil {
			panic(err)
		}
		c2 := v.(*atree.Array)
		e, _ := c2.Get(1)
		ok := e.(hx.TV).Pay == 777
		if !ok {
			bad++
		}
		fmt.Printf("array parent: slabs=%d child@%d inlined=%v ledger calls after mutation=%d persisted=%v\n",
			led.SegmentCounts(), pos, child.Inlined(), stores, ok)
	}
	// map parent
	for _, key := range []uint64{0, 13, 29, 41, 59} {
		led := hx.NewLedger()
		ps := hx.NewStorage(led)
		parent, _ := atree.NewMap(ps, addr, atree.NewDefaultDigesterBuilder(), hx.TI(3))
		for i := 0; i < 60; i++ {
			_, _ = parent.Set(hx.CompareKey, hx.HashInput, hx.TV{Size: 9, Pay: uint64(i)}, hx.TV{Size: 20, Pay: uint64(i)})
		}
		child, _ := atree.NewArray(ps, addr, hx.TI(2))
		_ = child.Append(hx.TV{Size: 9, Pay: 1})
		_ = child.Append(hx.TV{Size: 9, Pay: 2})
		_, _ = parent.Set(hx.CompareKey, hx.HashInput, hx.TV{Size: 9, Pay: key}, child)
		if err := ps.FastCommit(2); err != nil {
			panic(err)
		}
		led.ResetCalls()
		if _, err := child.Set(0, hx.TV{Size: 9, Pay: 888}); err != nil {
			panic(err)
		}
		if err := ps.FastCommit(2); err != nil {
			panic(err)
		}
		stores := len(led.Log)
		ps2 := hx.NewStorage(led)
		p2, err := atree.NewMapWithRootID(ps2, parent.SlabID(), atree.NewDefaultDigesterBuilder())
		if err != nil {
			panic(err)
		}
		v, err := p2.Get(hx.CompareKey, hx.HashInput, hx.TV{Size: 9, Pay: key})
		if err != nil {
			panic(err)
		}
		c2 := v.(*atree.Array)
		e, _ := c2.Get(0)
		ok := e.(hx.TV).Pay == 888
		if !ok {
			bad++
		}
		fmt.Printf("map parent: slabs=%d child@key%d inlined=%v ledger calls after mutation=%d persisted=%v\n",
			led.SegmentCounts(), key, child.Inlined(), stores, ok)
	}
	fmt.Println("NOT PERSISTED:", bad)
}
