NOTES = ("Technique: machine-checked proof in Lean 4 of theorems about a hand-written executable model, tied to /repo on "
         "every run by (a) inputs regenerated from the Go source - constants, syntactic facts, the error table "
         "(harness/cmd/extract) and the DECISION layer translated mechanically from the Go AST with fixed-width semantics "
         "(harness/cmd/gotrans -> lean/AtreeModel/Gen/Trans.lean, proved equal to the hand-written model by TransEq.*) - and "
         "(b) a differential correspondence check replaying traces of the real implementation on the compiled model, plus "
         "model-free oracles on the implementation. Theorem names and pinned statements: lean/obligations.json. See DESIGN.md 13.")

NOT_APPLICABLE_REASON = {}

# One entry per property.  text = what is proved (deciding theorems of lean/obligations.json, in plain words, with the
# quantifier), what ties the model to the code, what is NOT covered; note = trusted base, partial aspects, findings and
# observations (DESIGN.md 13.4) that touch the property; technique = the deciding method in one line.
CLAIMS = {
 "C01": {
  "text": ("Lean theorems C01.get/insert/set/remove/pop/count/setType_refines: for EVERY legal slab size T (256..32768), every array "
           "satisfying the invariant ArrInv (preserved: C05), every position and every value of size >= 1 (values above the inline limit "
           "are externalised) the array model - a line-by-line transcription of array.go, array_data_slab.go, array_metadata_slab.go incl. "
           "split, merge, lend / borrow, root split and promotion - answers like List.insertIdx / set / eraseIdx / reverse; in-range "
           "requests succeed, others return exactly index-out-of-bounds, root ID and type are unchanged. History level with no "
           "hypothesis left (C01H.run_refines, run_refines_prefix, inrange_no_error): for EVERY list of requests issued to a new array the "
           "answers (large values read back through their slab) are those of the List specification, the root ID stays (address, 1), ArrInv "
           "holds after every prefix, and the only errors are index-out-of-bounds and the 2^32-1 element limit. Arrays nested in / "
           "holding containers: C10Total.arr*_total / *_errors, C10Hist.history_progress / history_no_internal_failure (after ANY history "
           "of the nested-container model an in-range request through a held handle succeeds; an error is exactly the argument error), "
           "history_index_shifts_never_fail. C01P.*: the slice expressions of index-slab Merge / LendToRight / BorrowFromRight that can panic "
           "in Go carry their bounds; the panic condition is exact and unreachable under the tree invariant. "
           "Tie: childSlabIndexInfo is translated from the Go AST on every run (Gen/Trans.lean, TransEq.*_eq_model, safe_childSlabIndexInfo); "
           "streams array, persist, arrmeta -> array, settings -> settings, nested -> world: every operation replayed, observations, "
           "net storage effects and dumps of every stored slab identical. Oracle: shadow slice, emptied containers reused."),
  "design_ref": "DESIGN.md 7/C01, 13",
  "note": ("Trusted: Lean kernel; statements in Props/C01*.lean, C10Total.lean, C10Hist.lean; extractor + gotrans; correspondence harness. Values are "
           "opaque payloads with a size (the caller's Value / Storable contract is modelled by toStorable); Go slices and uint32 arithmetic as "
           "List / Nat (no wrap-around under the invariant; proved for the translated functions only). insert_refines assumes count < 2^32-1; "
           "at that point the code's dedicated error is reproduced by the model. Fixed finding F4 (PopIterate left mutableElementIndex "
           "populated) is what history_index_shifts_never_fail now excludes."),
  "technique": "Lean 4 refinement proof (B+-tree model -> List, per operation and per history) + translated routing function + per-operation model / implementation correspondence",
 },
 "C02": {
  "text": ("Lean theorems C02.inv_new, get/has/set/remove/pop/count/setType_refines, set_refines_any: for EVERY legal T, EVERY digest function that is "
           "a function of the key (any hash distribution), every number of digest levels and every map satisfying MapInv, the map model (transcription "
           "of map.go, map_data_slab.go, map_metadata_slab.go, map_elements_hashkey.go, map_elements_nokey.go, map_element.go: sorted digest tables, "
           "inline / external collision groups, last-level lists, split / merge / lend / borrow, routing by first digest, root split and promotion) "
           "answers like an association-list dictionary: value, previous value, removed pair, count; key-not-found exactly for absent keys; the only "
           "other refusal of Set is the collision limit for a NEW key; MapInv, root ID, type and seed preserved. C02.run_refines: for EVERY list of "
           "requests to a new map the answers are a dictionary history and MapInv holds after every prefix (no hypothesis on the state). "
           "Dig.real_digester_instantiates_digestFn / digests_respect_equality: the model of basicDigester (hash functions uninterpreted) yields such a "
           "digest function for any hash-input provider respecting key equality. Maps nested in containers: C10Total.map*_total / *_errors, "
           "C10Hist.history_progress. Tie: the three binary searches of the index slab are translated from the Go AST (Gen/Trans.lean, "
           "TransEq.MapMetaDataSlab_*_eq_model); streams map, mapcollide, mpersist, mapmeta, mapspill -> driver map (real digests, pooled digester under "
           "genuine collisions, adversarial tables; every (sibling configuration, function) pair of index-slab merge / rebalance is a required "
           "branch), digester -> digester. Oracle: Go map. Keys ABOVE the inline key limit are outside model and theorems: stream mapbigkey decides "
           "them on the implementation alone."),
  "design_ref": "DESIGN.md 7/C02, 13",
  "note": ("Trusted: Lean kernel; MapInv.lean / Props/C02*.lean statements; extractor + gotrans; correspondence harness. CircleHash64 / BLAKE3 are not modelled "
           "(every key carries its digest vector). Values of any size >= 1 (externalised above the limit); nested containers as values: C10. Observation O10: a "
           "caller-supplied digester with more than 8 levels builds groups that can never be committed (not a listed property)."),
  "technique": "Lean 4 refinement proof (hash-indexed B+-tree with collision groups -> dictionary, all digest functions) + digester model + per-operation correspondence",
 },
 "C03": {
  "text": ("Storage level (C03.*, any codec with the round-trip property): no operation other than a commit changes the ledger "
           "(only_commit_touches_ledger, uncommitted_never_reaches_ledger), a successful commit then ANY commit-free history then a crash shows, on a "
           "reopened storage, exactly the commit-time view of every owned identifier (commit_durable_on_reopen, crash_recovers_last_commit; with failed "
           "commit attempts in between: C14.crash_recovers_last_commit_despite_attempts), temporary-address slabs are never written; regenerated facts: "
           "only the three commit functions call BaseStorage.Store / Remove. Container level (E2E.* arrays, E2EM.* "
           "maps), for EVERY history of operations run against the storage state machine from a new container: the storage view is exactly the "
           "container's slabs plus the large-value slabs created (rep_history, map_rep_history), history -> either commit -> reopen -> load "
           "through Retrieve returns the SAME container (commit_reopen_identity), without the commit the container as of the last commit "
           "(crash_reopen_last_commit). Byte level, for the transcribed real codec: bytes_commit_reopen_identity, ledger_read_by_decodeSlab and the map "
           "versions - DecodeSlab of every owner register = the container's slab (hypotheses: values encodable, field widths). Nested containers: "
           "C10Persist.history_persisted (history with commits anywhere, commit, reopen = heap of the reopened world). SlabIdB.lbs_step_refines / "
           "real_codec_register_nonempty: LedgerBaseStorage refines a map in which an empty register is absent, and the codec never writes one. "
           "Tie: streams persist -> array, mpersist -> map, storage -> storage, nested -> world, slabid -> slabid; every register decoded by a brand-new "
           "storage after every commit. Oracles: reload + Verify; ledger call log empty between commits."),
  "design_ref": "DESIGN.md 7/C03, 13",
  "note": ("Trusted: as C15 (Ledger behaves as a map on non-empty registers; a failing call has no effect) plus the regenerated facts baseStoreCallers / "
           "baseRemoveCallers / baseStorage* (syntactic). The general-codec theorems assume RoundTrip and NoEncodeFailure; both are discharged for the real "
           "byte format on array and map slabs (keyed_codec_roundtrip, *_history_no_encode_failure). C10Persist covers steps that create no large-value slab; "
           "a same-size mutation of an INLINED child of a multi-slab parent needs the explicit hypothesis DeepStored (probed on the real code)."),
  "technique": "Lean 4 proof over the storage state machine composed with the container models and the byte codec + regenerated source facts + register-level correspondence",
 },
 "C04": {
  "text": ("Proved in Lean (logic): the deterministic commit issues its ledger calls in strictly ascending (owner, index) order for every write set and "
           "fault plan (C04.fastcommit_order_sorted, lt_strict_total); its state, error and call log do not depend on worker count or finishing schedule "
           "(fastcommit_schedule_invariant; C16.fastCommitPoolX_eq_fastCommit for the explicit channel model) nor on the iteration order of the write-set "
           "map (sortedOwnedDeltaKeys_order_independent, fastcommit_independent_of_map_order); the order-relaxed commit leaves the same ledger and the "
           "same multiset of calls (nondet_commit_same_final_ledger). Byte level (SlabIdB.*, TransEq.SlabID_Compare_eq_model): SlabID.Compare, translated "
           "from the Go AST, is the numeric order the model sorts by. Shared extra data: entries appear in first-use order and duplicate type infos are "
           "sorted byte-wise whatever the input order (extra_data_dedup_first_use_order, findDuplicateTypeInfo_spec / _perm). Pools: every finite "
           "multi-user history of the digester pool and of the buffer pool, with arbitrary pool choices, gives each holder what a fresh object gives "
           "(Dig.pooled_history_refines_spec, Buf.pooled_history_refines_spec); the map seed is a function of the root slab ID. Regenerated facts: "
           "every range-over-map loop of the package is listed, the ones on encode / commit paths are exactly three reviewed ones "
           "(no_unreviewed_map_range_*), worker closures write-free, pools reset before Put. NOT proved (runtime): real goroutine scheduling, Go map "
           "iteration, sync.Pool, process identity - stream determ runs each history under 60 configurations and in a fresh process and requires "
           "byte-identical registers and call logs; storage, map, slabid, digester are replayed on their drivers."),
  "design_ref": "DESIGN.md 7/C04, 4.1, 13",
  "note": ("Partial by nature: theorems cover ordering, arrival-order and map-order invariance of the MODEL; the review of the listed map loops is prose "
           "(Props/SourceFactsDet.lean), the facts come from a go/ast walk without type checker (unresolved types must be empty). Hash functions "
           "uninterpreted. Observation O6: 0 workers hang (C16.zero_workers_stuck); worker counts are read as >= 1."),
  "technique": "Lean 4 proof (sortedness, schedule and map-order invariance, pool refinement) + regenerated call-graph facts + multi-configuration byte comparison",
 },
 "C05": {
  "text": ("Arrays (C05.inv_new/insert/set/remove/popIterate/setType): the invariant ArrInv - size = prefix + sum of element sizes, every slab <= 1.5T, every "
           "non-root slab >= T/2, every element <= the inline limit, header copies, cumulative counts and sibling links exact, an index root has >= 2 "
           "children, slab IDs distinct - holds for a new array and is preserved by EVERY operation for EVERY legal T; "
           "full_slab_has_two_elems, two_max_elems_fit; access_agree: positional access = sequential traversal. Maps "
           "(map_inv_new/set/remove/popIterate/setType, every digest function and depth): MapInv preserved; the property's "
           "per-slab clauses follow for every data and index slab (map_data_slabs_in_band, map_index_slab_wellformed: child headers = children, sorted "
           "unique first digests, >= 2 children at the root; map_access_agree); map_history_wellformed: MapInv and the identifier clause "
           "MapIdsOk after EVERY prefix of EVERY history from NewMap. Decision layer (TransEq.*, 52 theorems): IsFull / IsUnderflow / CanLendToLeft / "
           "CanLendToRight of the four slab kinds, the split / lend / borrow loops of array data slabs and hkeyElements, index-slab split arithmetic, "
           "setThreshold are TRANSLATED from the Go AST with uint32 wrap-around on every run (Gen/Trans.lean) and proved equal to "
           "the Nat model under range hypotheses that follow from the invariant (safe_*); inputs where they differ are exhibited (*_differs_at) and "
           "unreachable. C05V.*: ArrInv / MapInv imply that the transcribed VerifyArray / VerifyMap accept. "
           "Tie: streams array, arrmeta, verifybad -> array; map, mapcollide, mapmeta, verifybadmap -> map; batch -> batch; "
           "settings -> settings: dumps carry every header copy, count sum, size and link; directed index-slab programs decide the band predicates "
           "on the exact boundary (required branches); all 32513 thresholds compared with the compiled package. Oracle: VerifyArray / VerifyMap."),
  "design_ref": "DESIGN.md 7/C05, 13",
  "note": ("Trusted: Lean kernel; ArrayInv.lean / MapInv.lean (definition of the invariants); extractor (constants cross-checked for all thresholds) + gotrans "
           "(VIEW tables in targets.go). Slab sizes stay below 2^16 under the band theorems, so no uint16 / uint32 truncation. Nested containers: "
           "the same invariants are clauses of WorldOk' (C10). Keys above the inline key limit: implementation-only (mapbigkey)."),
  "technique": "Lean 4 invariant proof parametric in the slab size over regenerated constants + decision functions translated from the Go AST and proved equal to the model + dump correspondence",
 },
 "C06": {
  "text": ("Proved in Lean for a byte-exact model of the encoders covering ALL seven slab kinds (array / map data and index slabs, collision-group slabs, "
           "large-value slabs) with inlined arrays / maps / compact maps at any depth, wrappers, type-info references and the shared inlined-extra-data "
           "section. C06.enc_len: for EVERY slab satisfying the field-width predicate SlabOKG, written bytes + 16 for an omitted empty sibling link + "
           "bytes hoisted by compact maps = reported size + extra-data sections; the compact-map saving is an EXACT term (Slab.hoisted; "
           "enc_len_stor_exact / _elements_exact / _mdata_exact / _adata_exact / _storableG_exact, zero without compact maps), so the written bytes are "
           "never more than reported. elem_size_eq_enc_len: every CBOR head width. decoded_size_eq: the slab decoded from a register reports the size "
           "of the slab that produced it. no_uint16_truncation under the C05 invariant. C07.encodeSlabE_ok_iff / _refuses_257: the model encoder has "
           "exactly the error exits of the Go encoder (digest level above 8, more than 256 shared extra-data entries). Tie: streams codec -> codec, "
           "batch -> batch, nested -> world: the model's bytes must EQUAL EncodeSlab's bytes for every slab stored, the exact law is evaluated with == and "
           "the hypotheses as Booleans on every ENC line (hypothesis-not-met counters are errors). Oracle on the implementation: len(EncodeSlab) + "
           "hoisted = ByteSize + sections - omitted link on every slab incl. every slab of the nested write set. Not covered: elements other than the "
           "harness's value types (byte strings of every head width, references, one-level wrappers)."),
  "design_ref": "DESIGN.md 7/C06, 13",
  "note": ("Trusted: Lean kernel; Codec/Encode.lean transcription (validated byte for byte); harness value codec. SlabOKG (Codec/Hyp.lean, hypOK_iff) = "
           "field widths, distinct keys in compact-eligible maps, < 8192 digests per group, <= 256 shared extra-data entries, nesting depth; for "
           "standalone array slabs it follows from C05. Observation O8 (257+ extra-data entries: the encoder returns an ERROR, nothing is written) is "
           "reproduced on every run and is not a violation."),
  "technique": "Lean 4 proof of the exact length law over a byte-exact encoder model + byte-for-byte correspondence with EncodeSlab and evaluation of the law on every encoded slab",
 },
 "C07": {
  "text": ("Proved in Lean: C07.decode_encode / reencode_fixpoint - for EVERY slab of any of the seven kinds satisfying SlabOKG, decoding its encoding yields "
           "normSlab s and re-encoding that yields the identical bytes; normSlab s = s unless a compact map is written (normSlab_eq_of_noCompact), and "
           "then the child keeps type, count and its key-value content extensionally while adopting the shared key order (compact_child_shape, "
           "compact_child_extensional) - the property's sole exception. Kind-specific versions incl. inlined children, wrappers and the shared "
           "extra-data section. flags_truthful: the three header queries on the raw bytes give root / has-references / size-limited for EVERY slab, no "
           "hypothesis. Trailing bytes are rejected for array and index slabs; the map data decoder accepts them (mdata_accepts_trailing, a fact about "
           "the code). EXACT nesting bound: a register decodes iff its validator depth Slab.vdepth <= 32 (decodes_iff_depth_*, nesting_bound_tight_*: 15 "
           "nested arrays / 7 maps decode, 16 / 8 do not). hypOK_iff, hyp_roundtrip_all: the Boolean check evaluated on every real slab decides the "
           "hypotheses. SlabIdB.raw_roundtrip, storableDecode_spec: identifiers as bytes. TransEq.head_*: all of flag.go is translated from the Go AST and "
           "proved equal to the model's header. Tie: streams codec, malformed -> codec, nested -> world: model-decode(Go bytes) and Go-decode(model bytes) "
           "compared on every register, v0 forms, hypotheses and predicted depth on every ENC line. Oracles: Encode(Decode(r)) = r, flags vs content, "
           "every container read back from a brand-new storage with its own type info. Quantifier: slabs the library produced; registers of other origin "
           "are C19."),
  "design_ref": "DESIGN.md 7/C07, 13",
  "note": ("Trusted: as C06 plus Codec/Decode.lean (validated on ~50k registers per run incl. malformed ones) and the CBOR contract model. Observations: O9 "
           "(values nested deeper than the caller's DecMode allows commit but do not reload: the depth hypothesis is exact and reproduced), O8 (257+ "
           "extra-data entries fail as an error), O1 (re-encoding a slab decoded from a MUTATED register may panic: outside C07's quantifier)."),
  "technique": "Lean 4 round-trip and fixpoint proof over byte-exact encoder / decoder models + translated header flags + register-level correspondence",
 },
 "C08": {
  "text": ("Proved in Lean for the storage state machine: C08.reload_is_identity (commit of either kind, cache drop, commit + reopen never change the view "
           "of an owned identifier), schedule_independent_outcomes / _ledger: for EVERY client history whose stored slabs encode and ANY two maintenance "
           "schedules interleaved with it, observations and views are equal and, after a final commit, so is the ledger. The encodability hypothesis is "
           "necessary and is discharged for the three transcribed real codecs (keyedCodec*_storesEncodable, bytes_schedule_independent, "
           "map_bytes_schedule_independent). Container level (E2E.array_history_under_schedules / array_ledger_under_schedules, E2EM.map_* twins): for "
           "EVERY history of array or map operations with maintenance before every request, the container equals the schedule-free run, answers follow "
           "the sequence / dictionary specification, loading through Retrieve with arbitrary interleaved reads returns it, and the committed registers "
           "do not depend on the schedule. Tie: storage -> storage. Decided on the implementation (model-free): cache (maintenance schedules incl. cache drops "
           "while slabs are dirty; observations, content, Verify and final registers equal), compact (same-typed inlined compact maps under commit + "
           "drop / reopen), aliasdrop (slabs mutated in place after a commit, then write set and cache dropped). Not covered by theorem: Go handles "
           "that keep pointers across a cache drop - the theorems are about clients that re-fetch handles."),
  "design_ref": "DESIGN.md 7/C08, 13",
  "note": ("Trusted: as C15. Value-level model: pointer aliasing between stale handles, write set and cache is not modelled (F2 family for handles; observation "
           "O7: DropDeltas ALONE does not revert slabs mutated in place - the property's claim, write set AND cache dropped, holds and is checked). The "
           "byte-identical-ledger clause excludes compact maps, as the property text does."),
  "technique": "Lean 4 simulation proof between maintenance schedules (storage and container level, real codecs) + schedule-differential oracle on the implementation",
 },
 "C09": {
  "text": ("Single containers: C09.insert/set/remove_effects_complete, pop_releases_all, tree_ownership, allocated_ids_fresh (arrays) and the C09Map.* twins "
           "(maps, incl. external collision-group slabs) - for EVERY "
           "legal T and every tree satisfying the invariant, the SlabStorage calls of an operation are a complete account of how the slab tree changed "
           "(changed or new slabs stored, departed slabs removed, nothing else touched), emptying releases every slab but the rewritten root, no slab "
           "is owned twice, all slabs share the owner address, allocated IDs are fresh. Large-value slabs: C09R.* / C09Map.refs_* (every reference "
           "element owns a distinct live slab; an overwritten or removed one is handed back and no longer referenced). History level against the storage "
           "state machine with the caller's disposal (E2ED.heap_exact_after_disposal, E2EMD.heap_exact_run, C09Map.history_heap_exact_every_prefix): "
           "after EVERY history the storage view is exactly the container's slabs plus the large-value slabs of its current elements; "
           "pop_then_dispose_leaves_only_root. Nested containers (C09W.*, 20): the effect log of EVERY operation of the nested-container model - "
           "inline <-> standalone transitions, the whole parent-callback chain, pops through handles, disposal - is a complete account of the heap "
           "(standalone trees + group slabs of inlined maps); world_heap_exact along any history; heap_ownership, child_referenced_once. Identifier "
           "level: SlabIdB.next_*, TransEq.SlabIndex_Next_eq_model (translated from Go; the wrap at 2^64-1 is exhibited). Graph "
           "characterisation: C20. Tie: array, persist, arrmeta -> array, mapcollide, mapmeta -> map, nested -> world, batch -> "
           "batch, slabid -> slabid: net storage effect compared per operation. Oracle: CheckStorageHealth with the exact root count; storage empty "
           "after deep removal."),
  "design_ref": "DESIGN.md 7/C09, 13",
  "note": ("Known finding F6 (printed as KNOWN-FINDING, exit 0): a REJECTED bulk build (NewMapFromBatchData / NewArrayFromBatchData returning an error) leaves the "
           "slabs it had already stored in the write set; the next commit writes them as orphan registers - 'nothing else remains' fails; not a small "
           "repair. The premise 'the caller disposes of returned values' is implemented by the harness (DSP lines) and by disposal steps in the models. "
           "Trusted: as C01 / C02 / C10. Observation O2: Set(i, the container already stored at i) cannot honour the disposal contract and is outside the "
           "quantifier."),
  "technique": "Lean 4 proof of effect-log completeness (single containers by induction on tree depth, nested containers per World operation, histories against the storage model) + effect-log correspondence + storage health oracle",
 },
 "C10": {
  "text": ("Deciding theorems, no hypothesis on the state (from the empty world, ANY interleaving of requests through handles the client holds, any "
           "depth, array and map ancestors, lookups, pops, disposal, reopen): C10Hist.history_invariant - the global invariant WorldOk' "
           "holds and every held handle is current; history_refines / history_read_through - the contents reached through the outermost containers are the "
           "sequence / dictionary specification's at every depth (a child mutation is visible through the parent), every element referring to a child "
           "carries the size of the child's CURRENT form, and the child is inline EXACTLY when its single slab fits the slot's budget after wrappers; "
           "history_progress / history_no_internal_failure. WorldOk' = every container "
           "well-formed (ArrInv / MapInv in standalone or inlined form), parent size bookkeeping in sync, unique reference, index and closure "
           "bookkeeping consistent, containment acyclic; per operation C10W.worldOk'_*_all (list-level result, all current handles stay current). C10.value_id_stable, storable_inline_decision, handed_back_is_standalone: identity unchanged "
           "across both transitions. 'Persisted by the next commit': C10Persist.history_persisted - history with commits anywhere, commit, reopen shows "
           "exactly the heap of the reopened world. Tie: nested -> world (observations, effects, nested dumps "
           "incl. collision-group slabs of inlined maps; after every step each handle's parent callback and each array's mutableElementIndex "
           "compared with the model's), slabid -> slabid, dualhandle (model-free). Oracles: deep read-back, Verify of the outermost container, "
           "Inlined() == Inlinable(budget), reload. NOT covered: more than one live handle OBJECT per container - there the property fails "
           "on the real code (known findings F2 / F2b / F2c, C10W.stale_handle_breaks)."),
  "design_ref": "DESIGN.md 7/C10, 13.4 (F2, F2b, F2c, F3), 13",
  "note": ("Level: proof for ONE current handle per container (a handle object captured by the callback of a detached child counts as live). KNOWN-FINDINGs F2, F2b, "
           "F2c (per-handle root pointer / positional bookkeeping not shared between handle objects) are reproduced on every run by the dualhandle stream and "
           "exit 0. Fixed: F3 (PopIterate through a child handle did not notify the parent), F4. C10Persist: steps creating no large-value slab; the deep "
           "content of a same-size mutation of an inlined child in a multi-slab parent is under the explicit hypothesis DeepStored (probe_deepstored). Maps "
           "in the World model use 4 digest levels. Trusted: World.lean transcription (validated by correspondence), Lean kernel, harness."),
  "technique": "Lean 4 invariant + refinement proof over a model of the parent-callback protocol for every history + effect-log / storage composition + nested-history correspondence; known-finding signatures for dual handles",
 },
 "C11": {
  "text": ("Proved in Lean over the nested-container model under WorldOk' (which C10Hist.history_invariant gives for every history): C11.detached_by_arrRemove / "
           "_arrSet / _mapRemove / _mapSet - after the detaching operation the removed or overwritten container is a detached root (live, "
           "referenced by nobody) with a current handle, and its former parent does not lie below it; "
           "C11.detached_arrInsert / _arrSet / _arrRemove / _mapSet / _mapRemove / _setType / _arrPopKeep / _mapPopKeep - ANY mutator, with plain or "
           "child values, through a handle to the detached container or to anything nested in it keeps the invariant, has the list-level result, leaves it "
           "a detached root, and leaves EVERY container outside its subtree - the former parent in particular - with the identical table entry (content, "
           "sizes, form). overwritten_child_leaves_parent_unchanged, "
           "map_overwritten_*, removed_*: the child is handed back standalone with unchanged value ID and content, the slot's index / key is forgotten, so a later notification from the old handle changes nothing but that "
           "handle's own callback, also when ANOTHER container now sits in the same slot (set_forgets_index, remove_forgets_index, mapRemove_key_absent, "
           "mapSet_key_reoccupied). detached_root_lifecycle: it can be reopened, disposed of, or re-attached to any container not below it. Popped-and-kept "
           "children: C10W.kept_child_*. replaced_slot_leaves_parent_unchanged is vacuous on valid worlds (replaced_slot_hyps_contradict_invariant; kept, "
           "labelled). Tie: nested -> world with detach / replace by another container / mutate detached / re-attach; hinfo and mutIdx vs the real "
           "parentUpdater and mutableElementIndex after every step. Oracle: slabs of every OTHER family of containers unchanged by every operation; "
           "detached containers read back and pass Verify as roots."),
  "design_ref": "DESIGN.md 7/C11, 13.4 (F2c), 13",
  "note": ("One current handle per container, as C10. Known finding F2c (filed under C10, touches C11): a child detached from a MAP through handle object A, after the "
           "map was re-read through its own parent and collapsed to one slab, fails with SlabNotFound AFTER the mutation was applied; the nested stream "
           "leaves such a family alone (staleClosure) and the dualhandle stream reproduces it. Persisted form of the former parent: by C10Persist + this "
           "frame property, and by the reload oracle. Trusted: World.lean transcription, Lean kernel, harness."),
  "technique": "Lean 4 frame proof over the parent-callback model (every mutator below a detached root leaves everything outside its subtree identical) + detach / replace differential histories",
 },
 "C12": {
  "text": ("C02's theorems hold for EVERY digest function, hence for arbitrary collisions on any level and on all levels at once (dictionary semantics, "
           "MapInv incl. the shapes of inline groups, external groups and last-level lists, preserved by insert / update / remove). Additionally "
           "C12.limit_refuses_new_key: for every map satisfying MapInv, a key that is NEW and whose first-level group already holds more than the "
           "configured limit is refused with the collision-limit error (Set returns an error, so there is no new state); limit_allows_update_and_room: an "
           "update of a present key, or a new key with room, is ALWAYS accepted; order_canonical: enumeration in ascending lexicographic digest order; "
           "full_collisions_keep_insertion_order / new_colliding_key_is_appended: a new key goes behind every key with the same digest vector. Group "
           "shapes as STEP theorems (the code never re-inlines a shrunken external group): export_exactly_when_oversized + SetKindRel.ext_iff (one Set "
           "changes at most one first-level element; a group born or updated by it is external iff prefix + size exceeds the element limit), "
           "no_reinline_on_shrink (after Remove an external group stays external or collapses to its last single element). Dig.*: the real 4-level "
           "digester instantiates the digest-function hypothesis. Tie: mapcollide, mapspill -> map (adversarial tables over 1-4 levels, limits 0..3 and "
           "255, groups grown to the element limit -1 / +0 / +1, every run must see a refusal), digester -> digester. Oracle: Go map + VerifyMap + no "
           "storage effect after a refusal. Not covered: the bulk build does not apply the limit (C17.batch_map_may_exceed_limit; argued outside the text)."),
  "design_ref": "DESIGN.md 7/C12, 13",
  "note": ("Trusted: as C02; the limit is read per run through the verif hook. Observation O4 (C12 / C18 border): when a group is at the limit, hkeyElements.Set "
           "probes it and drops every error but KeyNotFound, so a FAILING caller comparator or storage read admits a new colliding key past the limit; C12 "
           "quantifies over digest assignments with working callbacks, so it is counted on every run, not raised. O10: digesters with more than 8 levels."),
  "technique": "Lean 4 proof over the collision-group model for all digest assignments (limit, order, export / collapse step relations) + adversarial-digest correspondence",
 },
 "C13": {
  "text": ("Proved in Lean. Arrays, for every legal T and every array satisfying ArrInv: read-only and mutable iteration = the element list in index order and "
           "agree with Get at every index (C13.arr_ro_mut_iter_eq_toList); range iteration = the slice, and invalid ranges get the exact error kind "
           "(arr_range_iter_eq_slice, bad_range_rejected); loaded-value iteration = the list when everything is loaded and a Sublist for ANY set of loaded "
           "slabs and ANY tree; bulk pop = the reverse; overwriting the current element during mutable iteration yields the original list once, no skip, "
           "no repeat, invariant kept (arr_mut_iter_overwrite_current_no_skip_no_repeat). Maps, every digest function: map_order_canonical (ascending "
           "lexicographic digest order); map_lookup_and_successor; mutable / read-only / keys / values / loaded iterations = toList, loaded subset a "
           "Sublist, pop = reverse; read-only iteration needs the clause MapIdsOk, discharged after EVERY history from NewMap "
           "(map_ro_iter_history); map_full_collisions_in_insertion_order, map_enumeration_determined: along every history the enumeration is the "
           "insertion order sorted stably by digest vector. Iterator OBJECTS (C13Obj.*, *_iterator_object_*): the Go iterator state machines "
           "with Next / NextKey / NextValue equal the structural traversal; a callback answering stop after k elements yields take (k+1) of the full run; "
           "Next after the end stays nil. Tie: iter -> iter (every flavour on fresh and "
           "live handles, 8 loaded subsets read from the real storage per round, early stops, objects driven call by call), array -> array, mapcollide "
           "-> map. Oracle: pairwise agreement of all flavours and with lookups, exactly-once, in-order subsequence. NOT by theorem: mutation of a NESTED "
           "container during iteration (8 model-free programs per run; C10's stream)."),
  "design_ref": "DESIGN.md 7/C13, 13",
  "note": ("Partial: in-iteration mutation of nested containers is oracle-only. Loaded-value iterators are parameterised by a predicate 'slab is loaded'; the harness "
           "reads the real loaded set through the verif hooks. Trusted: Array/Iter.lean, Map/Iter.lean, IterObj.lean transcriptions (validated by the iter "
           "stream), Lean kernel, harness. Keys up to the inline key limit."),
  "technique": "Lean 4 proofs over transcribed iterator state machines (structural recursion / bounded fuel, all loaded sets, all early-stop positions) + iterator-output correspondence with partial loads",
 },
 "C14": {
  "text": ("Lean theorems for BOTH commit functions, every fault plan (any set of failing ledger-call positions), every key / arrival order, any codec: "
           "C14.failed_commit_reports_error (a failing call that is reached makes the commit return the external error; commit_fails_if_fault_reached / "
           "commit_succeeds_if_no_fault_reached give the exact condition and the number of calls issued), failed_commit_keeps_view (the view of EVERY "
           "identifier is unchanged and the storage invariant kept), failed_commit_pending_is_unwritten (an identifier leaves the write set only when the "
           "ledger holds its latest value), failed_commit(s)_registers_old_or_new (every register is the old or the target value, never a third), "
           "retry_converges: ANY sequence of failed attempts of either kind followed by a fault-free one returns no error and leaves the ledger equal, "
           "register by register, to a single fault-free deterministic commit. Crash variants (C14Crash): crash_after_failed_commit_exact, "
           "retry_until_success_then_reopen (the reopened storage shows the pre-commit view of every owned identifier). Container level: "
           "E2E.failed_commit_then_retry and the map version - after any failing commits the in-memory view still represents the container and a "
           "successful retry + reopen returns it. Tie: storage -> storage; every commit of the stream draws, with probability growing with the write "
           "set, up to 2 failing positions, a commit kind and a worker count in {1,2,3,8,64}; observations, ledger call logs and where each identifier "
           "is served from compared on every line. Oracle: ledger call log vs pending set, Deltas() after failure, category External. Not covered: a "
           "Ledger whose failing call has a partial effect (caller contract)."),
  "design_ref": "DESIGN.md 7/C14, Appendix C, 13",
  "note": ("Trusted: as C15. Worker pools are abstracted to arrival order here (workers only read and encode: regenerated fact workerClosuresWriteFree; the explicit "
           "channel model is C16's). The theorems take NoEncodeFailure where a commit must succeed; discharged for the real codecs in C03 / C15."),
  "technique": "Lean 4 invariant / induction proof over commit fault plans and attempt sequences + trace correspondence with injected ledger faults",
 },
 "C15": {
  "text": ("Lean theorems: the model of PersistentSlabStorage (write set, read cache, ledger, allocation counters) refines the write-back-overlay "
           "specification for EVERY finite operation sequence over any identifier universe and any codec with the round-trip property: C15.inv_reachable, "
           "step_refines (per operation: store / remove / retrieve / retrieve-if-loaded / cache-bypassing retrieve / both commits with fault plans / drop "
           "deltas / drop cache / preload / re-creation, incl. the undefined-identifier refusals), history_refines(_init) (whole histories against "
           "Overlay.Run), clean_history_refines (fault-free: equality with the functional spec), retrieve_eq_view, commit_makes_base_eq_view (ledger = view "
           "on owned identifiers, owned write set empty, temporary entries kept and never written), dropAll_reverts (write set AND cache dropped = last "
           "commit), observers_consistent, deltas_size_is_sum, size_after_store, sizes_after_commit (counts, sizes, has-unsaved-changes per owner, "
           "is-loaded), temp_never_in_ledger, genID_fresh. The round-trip hypothesis is discharged for the transcribed real byte format on array and map "
           "slabs (E2E.keyed_codec_roundtrip, map_keyed_codec_roundtrip, *_history_no_encode_failure). Byte-level storages (SlabIdB.*): register key "
           "'$' + index injective; LedgerBaseStorage, InMemBaseStorage, BasicSlabStorage and its iterator refine finite maps; an empty register reads as "
           "absent and the codec never writes one. Tie: storage, storageexh -> storage (every sequence of length 4, thorough 5, over a 22-operation "
           "alphabet, plus random histories with failing ledger calls), slabid -> slabid: every observation, ledger call log, counter and where each "
           "identifier is served from compared after every step. Oracle: Go-map overlay; aliasdrop (model-free, real containers mutated in place)."),
  "design_ref": "DESIGN.md 7/C15, Appendix C, 13",
  "note": ("Trusted: Lean kernel; statements; correspondence harness (bounded by its generators); the Ledger behaves as a map on non-empty registers and a failing call has "
           "no effect. VALUE-LEVEL model, observation O7: containers mutate slab objects in place and the cache holds the same objects, so on the real code "
           "RetrieveIgnoringDeltas of a committed slab mutated since returns uncommitted content and DropDeltas ALONE does not revert the view; the model "
           "answers 'committed' there and its streams store immutable slab versions. The property's claim (write set AND cache dropped) holds on the code "
           "and is checked by aliasdrop on every run."),
  "technique": "Lean 4 refinement proof (storage state machine -> write-back overlay, per step and per history) + bounded-exhaustive and random trace correspondence",
 },
 "C16": {
  "text": ("Proved in Lean for message-passing models of the three worker pools (FastCommit, NondeterministicFastCommit, BatchPreload). Abstract pool "
           "(C16.pool_results_perm / _bounded / pool_terminates): under EVERY scheduler choice sequence the results are a permutation of the jobs, nothing is "
           "lost or duplicated, a fair schedule finishes. Explicit channel model CommitPool.lean (jobs / results / done channels, early return on an encode "
           "error, cleanup) for every schedule and every worker count >= 1: no_send_on_closed_channel, send_never_blocks (results never exceed the channel "
           "capacity), no_deadlock with a decreasing measure, fastCommit / nondetCommit_pool_terminates, results_sound / _complete, encode_error_reported. "
           "Sequential equality: parallel_commit_sequential_equal and fastCommitPoolX_eq_fastCommit (state, error and call log of the parallel commit = "
           "the one-goroutine commit, any schedule), fastCommitPoolX_encode_error_first, parallel_preload_sequential_equal (cache, write set, ledger and "
           "view for any arrival order, when every register decodes). Process-wide state: Dig.* and Buf.* - every multi-user history of the digester and "
           "buffer pools with arbitrary pool choices gives each holder a fresh object's results; negative theorems for use after put, double put, a kept "
           "Bytes() slice; regenerated facts: settings are written only by init, package state is settings + pools, channel capacities = job count, "
           "wg.Wait before close, worker closures write-free. NOT proved (runtime): data races in the Go memory model, preemption, sync.Pool internals - "
           "streams parallel, parfault, storage, digester also run in a -race build; concurrent clients vs alone; failing commits / preloads in child "
           "processes under a watchdog. storage -> storage, digester -> digester."),
  "design_ref": "DESIGN.md 7/C16, 13.4 (F5, O6), 13",
  "note": ("Level: proof for the pool MODELS, runtime validated. Known finding F5 (KNOWN-FINDING, exit 0): a FAILING parallel BatchPreload (>= 11 ids, one register "
           "undecodable) leaves a schedule-dependent set of slabs in the read cache - contradicts 'same cache as one goroutine' for the failing case; the "
           "preload theorem is for the succeeding case. Observation O6: 0 workers never return, -1 panics (zero_workers_stuck); 'any number' is read as "
           ">= 1. Facts are syntactic (go/ast)."),
  "technique": "Lean 4 proof over message-passing pool models (safety, deadlock freedom, sequential equality for every schedule) + pool refinement + race-detector and concurrent-vs-alone differential runs",
 },
 "C17": {
  "text": ("Lean theorems over executable models of NewArrayFromBatchData / NewMapFromBatchData (element loop, close-out, tail lend-or-merge, "
           "index levels, root re-basing), CopyNonRefSimple (standalone and inlined sources) and the byte-slice conversions. Arrays: for "
           "EVERY legal T and EVERY element stream the build succeeds with the input as content (batch_array_content), and for up to 2^32-1 values of "
           "size >= 1 the result satisfies the full invariant ArrInv with fresh slab IDs under the given address (batch_array_inv, _ids_fresh). Maps, for "
           "every digest function: the build keeps seed, type, count and order (batch_map_seed_count_order), rejects unsorted, duplicate and seed-0 "
           "streams and accepts EVERY sorted duplicate-free one (batch_rejects_*, batch_map_loop_accepts), content = the input (exact order without "
           "first-level collisions, a permutation fixed by the invariant's order clauses otherwise), MapInv / MapInvI and fresh IDs (batch_map_inv, "
           "_invI, _ids_fresh, batch_map_then_set). Copy: offered iff single slab of "
           "plain non-reference values (can_copy_iff_*), succeeds iff offered (copy_succeeds_when_offered_*), equal content / type / count, re-based "
           "size, invariant, slab IDs fresh and disjoint from the source's (copy_*, result_ids_fresh_*, copy_of_inlined_*). Bytes: bytes_roundtrip, "
           "bytes_accepts_iff, bytes_ids_fresh. Seeds (Dig.*): the copy uses the source's seed, the build the given one, other handles are unaffected. "
           "Tie: batch -> batch (array builds up to 6000 elements, 40000 in the thorough tier, at the critical lengths that leave "
           "underfull / full last slabs at every level; map builds + rejected streams; copy scenarios; conversions): observations, storage "
           "effects and dumps of all slabs identical. Oracles: content, Verify*, health with exact root count, disjoint slab sets, "
           "mutate-one-check-other. Nested containers in copy sources: oracle only."),
  "design_ref": "DESIGN.md 7/C17, 13",
  "note": ("batch_map_content gives a permutation in general (exact order compared by the correspondence). NewArrayFromBatchData does not check the element-count limit "
           "(hypothesis of batch_array_inv). Related: a REJECTED build leaves slabs behind - known finding F6, filed under C09; the bulk build does not apply "
           "the collision limit (C17.batch_map_within_limit_of_source / batch_map_may_exceed_limit, counted as an observation, argued outside C12 / C17). "
           "'Shares no storage': fresh and disjoint IDs are theorems, independence under later mutation is the mutate-one-check-other oracle. Trusted: "
           "Array/Batch.lean, Map/Batch.lean, Bytes.lean transcriptions, Lean kernel, harness."),
  "technique": "Lean 4 proofs (content, invariant, freshness, copy offered iff) over executable models of the batch builders, copy and byte conversion + differential replay of the implementation's builds",
 },
 "C18": {
  "text": ("Proved in Lean. Categories: C18.arg_error_category / model_error_categories (by decide over the table REGENERATED from errors.go: index / slice out of "
           "bounds, invalid slice index, key not found = User; collision limit, undefined identifier, slab not found = Fatal), callback_failure_is_external "
           "(an uncategorised error of a caller-supplied component becomes External, categorised ones pass through, wrapping idempotent). No trace: "
           "arg_checks_precede_effects - over the regenerated statement order of about 50 request-level Go functions (Gen.argCheckPrefix), nothing but "
           "reads, earlier checks and error exits precedes any refusal site; reject_leaves_no_trace, map_set / map_remove_reject_leaves_no_trace - "
           "in-place programs (Reject.lean) transcribing the request paths in Go statement order, whose state SURVIVES an error: for every state, with NO "
           "invariant assumed, an argument error leaves array / map, allocation counter and effect log equal (counter-model: "
           "s06_program_leaves_a_trace); inplace_request_agrees, map_*_inplace_agrees (same result as the functional model). "
           "rejected_request_writes_nothing, history_with_rejections_commits_same_registers (+ map): run against the storage state machine, the history "
           "with its refused requests leaves the same write set and ledger as the served requests alone. reject_is_noop / "
           "history_with_rejections_same_state hold by construction (kept, labelled). Tie: array -> array, mapcollide -> map, nested -> world (EFF - and "
           "an unchanged dump after every refused request, also through nested handles at any depth); callbackfail and rejectpair decide the callback "
           "and undefined-identifier cases on the implementation: errors.As category, no SlabStorage call, tree and write-set keys unchanged, ledgers "
           "byte-identical with and without the rejected requests."),
  "design_ref": "DESIGN.md 7/C18, 13.4 (O4, O5), 13",
  "note": ("Trusted: the extractor's reading of errors.go and of the statement order (go/ast; classification of statement kinds in Props/C18Order.lean), cross-checked by "
           "errors.As on every error the harness sees. Ancestors of a nested handle: World operations return an error without a world (by construction) + "
           "the streams. Observations, counted not raised: O4 (a failing comparator / storage read inside the collision-limit probe is swallowed and the key "
           "admitted), O5 (a storage read failing AFTER the lookup part of a Remove is reported External but leaves the removal half applied; the property "
           "speaks of failures during a lookup). Range iterators and callback categories: order fact + streams, no in-place program."),
  "technique": "Lean 4 proof (decide over regenerated error table and statement order; no-trace theorems over in-place request programs) + fault-injection and with / without-rejections differential runs",
 },
 "C19": {
  "text": ("Proved in Lean for ALL byte strings and any slab ID: C19.decode_never_panics - the transcribed DecodeSlab (dispatch, all seven slab kinds in both "
           "format versions, inlined arrays / maps / compact maps, type-info references, wrappers, extra data, slab IDs, the harness's storable "
           "decoder) is a three-outcome function ok | error | panic in which every Go slice expression, fixed-offset read, index and make() carries "
           "its bounds condition, and the panic outcome is unreachable; header_queries_total (+ ok_iff: they answer iff the input has >= 2 bytes); "
           "termination by structural recursion, and the fuel of the nested decoders never decides (decodeSlab_fuel_irrelevant); alloc_linear: the slice "
           "elements allocated by the decoder's own make() calls are <= 2 x input length (constant 1 is false once compact maps are decoded), "
           "decodeBytes_copy_le_consumed for the library's byte copies; accessors_never_panic: ByteSize and ChildStorables, transcribed over a raw slab "
           "representation with nil slots, do not panic on ANY slab the decoder returns (accessors_panic_exactly, nil_slot_panics show the monad has "
           "teeth). TransEq.safeAdd2 / 3Uint32_eq_model: the overflow-checked additions are translated from the Go AST. Tie: malformed -> codec: outcome "
           "class (ok + dump / error / panic) equal to the real DecodeSlab on about 22000 mutated and 24000 grammar-built registers per run (>= 30 % "
           "accepted, enforced), 6000 header queries, the transcribed CBOR validator vs the library on 4000 inputs; malformedall (model-free): every "
           "truncation and 60 mutations of registers of ALL kinds under recover + watchdog + allocation bound. NOT modelled: panics and allocations "
           "inside the CBOR library and the Go runtime (recover + watchdog only)."),
  "design_ref": "DESIGN.md 7/C19, 13.4 (O1), 13",
  "note": ("Trusted: Codec/Decode.lean transcription; the CBOR library is modelled by its contract (prepareNext validates the complete next item), validated against the "
           "library. That the Go decoders return only fully populated slabs is carried by the shape of the model's types, not by a theorem. Observation O1: "
           "RE-ENCODING a slab decoded from a mutated register can panic (compact map with Count different from its elements); C19 names decoding, header "
           "queries, ByteSize and ChildStorables, so it is counted on every run, not raised."),
  "technique": "Lean 4 totality / no-panic / linear-allocation proof over a three-outcome decoder model + malformed-input differential runs under recover and watchdog",
 },
 "C20": {
  "text": ("Lean theorems, heap level, for EVERY heap of slabs with distinct keys: C20.health_sound / health_complete - the (repaired) health check accepts "
           "exactly the heaps that are Healthy in the graph sense (every reference resolves, every non-root referenced once, one owner per tree) and returns "
           "the true root set and count; delete_referenced_fails, extra_unreferenced_fails (beyond the expected root count, the new slab referencing no "
           "old root), double_reference_fails, foreign_owner_fails - each corruption applied to ANY healthy heap at ANY slab is rejected; allrefs_exact "
           "(healthy heaps), allrefs_general (any acyclic heap: exactly the resolvable and the broken references reachable from the slab), "
           "allrefs_diverges_iff (the model answers 'diverges' exactly on a cycle), check_order_independent (the verdict and, unless the run diverges, "
           "the error kind do not depend on map iteration order). Storage level (Props/C20Storage.lean, on the C15 state machine): iterator_sound / "
           "_skips_deleted / _exact (model of PersistentSlabStorage.SlabIterator), storage_check_is_heap_check, storage_complete; "
           "array_histories_healthy / _accepted and the map twins: EVERY storage produced by a valid single-container history is Healthy and accepted by "
           "iterator + check with the true roots; independent_containers_accepted for disjoint unions. Tie: health -> health: every heap and storage state "
           "(write set, cache, ledger) dumped from real storages of five kinds, healthy and with each corruption, is run through the model; outcome "
           "incl. the error kind, iterator yields and all-child-references compared. Oracles: construction-time roots, an independent graph walker "
           "on a heap read by the harness's own register walker, the check that has to fire per corruption. With all slabs loaded, as the property "
           "states."),
  "design_ref": "DESIGN.md 7/C20, 13.4 (F1, O3), 13",
  "note": ("Finding F1 FIXED: on the pinned tree the check accepted a storage whose referenced slab had been removed through the storage; repaired by a 7-line fix: "
           "commit (known_findings.txt fixed: line); the model transcribes the repaired function. Observation O3: on a reference CYCLE CheckStorageHealth, "
           "GetAllChildReferences and SlabIterator do not return; cyclic storages are outside the property's domain, the three calls are exercised under a "
           "watchdog and the model answers 'diverges'. Trusted: Lean kernel; HealthSpec.lean (definition of Healthy); harness heap dump (own register walk, "
           "cross-checked against ChildStorables); nested / mixed storages are covered by theorem at heap level only."),
  "technique": "Lean 4 soundness + completeness proof of the health-check algorithm against a graph specification, lifted to the storage state machine and to container histories + heap- and storage-level correspondence",
 },
}
