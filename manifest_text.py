NOTES = ("Technique: machine-checked proof in Lean 4 of theorems about a hand-written executable model, tied to /repo on "
         "every run by (a) constants/facts/tables regenerated from the Go source and (b) a differential correspondence "
         "check replaying traces of the real implementation on the compiled model. See DESIGN.md.")

NOT_APPLICABLE_REASON = {}

CLAIMS = {
 "C20": {
  "text": "Lean theorems prove, for EVERY heap of loaded slabs, that the (repaired) health check accepts exactly the healthy heaps and returns the true root set (health_sound, health_complete), that each of the four corruption kinds applied to any healthy heap at any slab is rejected, and that the all-child-references query is exact on healthy heaps. The model is tied to CheckStorageHealth/GetAllChildReferences by replaying heaps dumped from real storages (healthy and corrupted) and comparing outcomes. The defect this check found on the pinned tree (dangling reference to a slab removed through the storage passes the check) was repaired by a fix: commit; see known_findings.txt.",
  "design_ref": "DESIGN.md 7/C20, 8 (F1)",
  "note": "Trusted: Lean kernel; HealthSpec.lean (definition of Healthy); harness heap dump (hooks VerifDeltas/VerifCache + ChildStorables traversal); storages are explored with all slabs loaded, as the property states.",
  "technique": "Lean 4 soundness+completeness proof of the health-check algorithm against a graph specification + heap-level correspondence with the implementation",
 },
 "C15": {
  "text": "Lean theorems (inv_reachable, step_refines, retrieve_eq_view, commit_makes_base_eq_view, dropAll_reverts, observers_consistent, temp_never_in_ledger) prove that the storage state machine refines the write-back-overlay specification for EVERY finite operation sequence over any identifier universe, incl. faulty commits and re-creation. The model is tied to PersistentSlabStorage by replaying every generated history on both and comparing each observation, each ledger call log and, after every step, where every identifier is served from.",
  "design_ref": "DESIGN.md 7/C15, Appendix C",
  "note": "Trusted: Lean kernel; statement of the theorems; the correspondence harness (differential testing, bounded by its generators); value-level model (no pointer aliasing); BaseStorage is a map whose failing calls have no effect; codec round-trip is a hypothesis (RoundTrip).",
  "technique": "Lean 4 refinement proof (state machine -> overlay spec) + model/implementation trace correspondence",
 },
 "C14": {
  "text": "Lean theorems prove for both commit functions, every fault plan, every key/arrival order: a failing ledger call is reported, the view never changes, an identifier leaves the write set only when the ledger holds its latest value, and any sequence of failed attempts followed by a successful one leaves the ledger equal to a single fault-free commit (retry_converges). Tie and oracle as C15 with injected ledger faults.",
  "design_ref": "DESIGN.md 7/C14, Appendix C",
  "note": "Trusted: as C15. Worker pools are abstracted to arrival order (workers only read and encode: generated fact workerClosuresWriteFree).",
  "technique": "Lean 4 invariant/induction proof over commit fault plans + trace correspondence with fault injection",
 },
}
