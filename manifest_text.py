NOTES = ("Technique: machine-checked proof in Lean 4 of theorems about a hand-written executable model, tied to /repo on "
         "every run by (a) constants/facts/tables regenerated from the Go source and (b) a differential correspondence "
         "check replaying traces of the real implementation on the compiled model. See DESIGN.md.")

NOT_APPLICABLE_REASON = {}

CLAIMS = {
 "C13": {
  "text": "Proved in Lean for every tree satisfying the array / map invariants (several statements for ANY tree): each enumeration flavour yields exactly toList - arrays in index order, maps in the canonical digest order with full collisions in insertion order; range iteration is the slice and invalid ranges get the exact error; the loaded-value iterators equal toList when everything is loaded and yield a Sublist for any set of loaded slabs; bulk pop is the reverse; overwriting the current element during mutable iteration neither skips nor repeats. Tie: ~2800 iterator runs per seed replayed on the model incl. partial loads read from the real storage.",
  "design_ref": "DESIGN.md 7/C13, 13",
  "note": "Partial: mutation of nested containers during iteration is oracle-only; map read-only iteration needs the slab-identifier clause MapIdsOk, which is proved preserved by every map operation and discharged for every history from NewMap (C13.map_ro_iter_history).",
  "technique": "Lean 4 proofs over transcribed iterator state machines (structural recursion / bounded fuel) + iterator-output correspondence with partial loads",
 },
 "C02": {
  "text": "Lean theorems prove that the map model (a transcription of map.go, map_data_slab.go, map_metadata_slab.go, map_elements_hashkey.go, map_elements_nokey.go, map_element.go: sorted digest tables, inline / external collision groups, last-level lists, split / merge / lend / borrow, routing by first digest, root split and promotion) refines dictionary operations for EVERY digest function, every legal slab size, every number of digest levels: returned values, previous values, removed pairs, count, key-not-found exactly for absent keys, and preserves the map invariant. Tied to the code by replaying every operation of histories with real digests, the pooled digester under genuine collisions and adversarial digest tables, comparing observations, storage effects and structural dumps incl. collision-group slabs.",
  "design_ref": "DESIGN.md 7/C02, 13",
  "note": "Trusted: Lean kernel; MapInv.lean / C02.lean statements; correspondence harness. Keys up to the inline key limit; nested containers as values: C10.",
  "technique": "Lean 4 refinement proof (hash-indexed B+tree with collision groups -> dictionary), induction on digest levels and tree depth + per-operation correspondence",
 },
 "C12": {
  "text": "C02's theorems already hold for arbitrary collisions on any level. Additionally proved: a NEW key whose first-level group already holds more than the limit is refused with the collision-limit error (no new state), updates and inserts with room are accepted, iteration order is the ascending lexicographic digest order with full collisions in insertion order; the shapes of collision groups are part of the invariant. Tie: adversarial digest tables with limits 0..3 and 255 replayed on the model.",
  "design_ref": "DESIGN.md 7/C12, 13",
  "note": "Trusted: as C02. The limit is read per run through the verif hook.",
  "technique": "Lean 4 proof over the collision-group model for all digest assignments + adversarial-digest correspondence",
 },
 "C06": {
  "text": "Proved in Lean for a byte-exact model of the encoders (elements of every CBOR head width, references, type info, extra data, array data slabs root/non-root, array index slabs, large-value slabs): encoded length = reported size + extra data, minus exactly 16 bytes for an omitted empty sibling link; a decoded slab reports the size of the slab that produced the register; no uint16 truncation under the C05 invariant. The model's bytes are compared with EncodeSlab's bytes for every slab of every generated history. The byte model also covers map data / index / collision-group slabs, general storables (wrappers, inlined arrays and maps at any depth), type-info references and compact maps: the length law is proved for all of them (enc_len_stor/_elements/_mdata/_mindex/_adata/_storableG; '<=' for the compact-map exception) and every ENC line of the stream is compared byte for byte. Bulk-built containers (batch stream) are included. Partial: the shared inlined-extra-data section's own length is compared by correspondence, not by a theorem.",
  "design_ref": "DESIGN.md 7/C06, 13",
  "note": "Trusted: Lean kernel; Encode.lean transcription (validated byte-for-byte); harness value codec. Hypotheses DataOK/MetaOK follow from C05.",
  "technique": "Lean 4 proof over a byte-exact encoder model + byte-for-byte correspondence with EncodeSlab",
 },
 "C07": {
  "text": "Proved in Lean: decode(encode s) = s and re-encoding is a fixpoint for array data / index / large-value slabs; the three header queries on the raw bytes are truthful (root flag, has-pointers, size-limit) with no hypothesis on the slab; trailing bytes after a v1 data or index slab are rejected. Tie: every register of every history is decoded by both sides and compared; hand-crafted v0 forms decode to the same slab. Also proved: exact round trip and re-encode fixpoint for map index slabs and map data / collision-group slabs (inline and external groups, last-level lists, wrappers; root / non-root). The nested stream additionally reads every container back from a brand-new storage and compares content and each container's own type info (type-info references among inlined siblings). Partial: the round trip of slabs WITH inlined children / the shared extra-data section / compact maps is checked by correspondence (model decode = Go decode, Go re-encode = register) on every register, not yet by a theorem.",
  "design_ref": "DESIGN.md 7/C07, 13",
  "note": "Trusted: as C06 plus Decode.lean transcription (validated on ~50k registers per run incl. malformed ones).",
  "technique": "Lean 4 round-trip proof over byte-exact encoder/decoder models + register-level correspondence",
 },
 "C19": {
  "text": "Proved in Lean: the transcribed decoders (DecodeSlab dispatch, array data and index slabs in both versions, large-value slabs, extra data, slab IDs, the three header queries, and the harness's storable decoder) never reach a 'panic' outcome for ANY byte string and any slab ID - every Go slice expression, fixed-offset read and make() carries its bounds condition - terminate by structural recursion, and allocate at most the input length. Tie: outcome class equal to the real DecodeSlab on ~30000 mutated registers per run; the transcribed CBOR validator is compared with the library. decode_never_panics now covers ALL slab kinds (map data / index / collision groups, inlined arrays / maps / compact maps, type-info references, wrappers). The allocation bound is proved for the array / large-value decoders (alloc_linear_flat); for the map decoders it is enforced on the implementation by the allocation oracle of the malformed streams. Panics inside the CBOR library / Go runtime are not modelled. Re-encoding a slab decoded from a mutated register is outside the property (observation O1 in DESIGN.md 13.4).",
  "design_ref": "DESIGN.md 7/C19, 13",
  "note": "Trusted: Decode.lean transcription, CBOR contract model (validated against the library).",
  "technique": "Lean 4 totality / no-panic proof over a three-outcome decoder model + malformed-input differential runs",
 },
 "C09": {
  "text": "Proved in Lean (arrays): the SlabStorage calls of insert/set/remove are a complete account of how the slab tree changed (changed or new slabs stored, departed slabs removed, nothing else touched), emptying an array removes every slab except the rewritten root, no slab is owned twice, allocated IDs are fresh; the graph-level characterisation of a healthy storage is C20's health_sound/complete. Maps: the same account for set / remove / popIterate including external collision-group slabs (C09Map.set/remove_effects_complete, pop_releases_all, allocated_ids_fresh, under distinct slab IDs MIdsOk, itself proved preserved). Inline<->standalone transitions and bulk pops through nested handles: tied by per-operation comparison of the net storage effect with the World model; on the implementation the health check runs with the exact expected root count and, at the end of every nested program, every container is disposed of with the deep-removal idiom and the storage must be empty.",
  "design_ref": "DESIGN.md 7/C09, 13",
  "note": "The premise 'the caller disposes of returned values' is implemented by the harness (DSP).",
  "technique": "Lean 4 proof of effect-log completeness by induction on tree depth + effect-log correspondence + storage health oracle",
 },
 "C10": {
  "text": "Proved in Lean for the value-level World model (one current handle per container): a child is inline exactly when it is a single slab that fits the slot's budget after wrappers, the parent element carries the size of the child's current form, the parent slot is refreshed by the notification, value IDs are stable under all five operations and both transitions, a handed-back child is standalone, index shifts are order independent; a handle obtained by lookup or mutable iteration gets exactly the closure the notification theorems assume (C10Get.*), reopening drops all closures. A single global invariant (WorldOk; WorldOk' = the same with 'closure parents are live' weakened, which is what survives bulk pops) (every container well-formed in its standalone or inlined form, parent element size = child's current form, inline exactly when it fits the slot, unique reference, index and closure bookkeeping consistent, acyclic) is proved preserved by EVERY operation of the nested-container model at any depth with array and map ancestors (C10W.worldOk_* / worldOk'_* for Insert, Set, Remove on arrays and maps, Get, reopen, SetType, New, PopIterate with or without kept children, and the caller's disposal; main induction notify_restores), together with the list-level result of the mutated container; the array core is re-proved for reference elements and inlined roots (C10W.*_refines_ref / _inlined). The model also covers PopIterate / SetType through nested handles (the two PopIterate defects this found are repaired: fixed: lines in known_findings.txt). Tie: ~20000 nested operations per run replayed on the model with nested structural dumps. The histories excluded by the hypothesis (two live handles to one container) violate the property on the real code: known findings F2/F2b, printed as KNOWN-FINDING.",
  "design_ref": "DESIGN.md 7/C10, 8, 13",
  "note": "Partial: persistence of child mutations composes with C03 by correspondence (commit+reload oracle), not by a Lean theorem; facts about Arr.set on reference elements are hypotheses (validated by correspondence).",
  "technique": "Lean 4 proof over a model of the parent-callback protocol + nested-history correspondence; known-finding signatures for dual handles",
 },
 "C11": {
  "text": "Proved in Lean: when the slot recorded by a child's callback no longer holds that child (index forgotten, key absent, or another value / another container in the slot) the notification changes NOTHING but the child's own callback - no container, no index table, no storage effect; removal forgets the index; a detached child is handed back as a reference to a standalone slab with unchanged value ID. Tie and oracle: nested stream with detach / replace-by-container / mutate-detached / re-attach; former parent's dump must be unchanged.",
  "design_ref": "DESIGN.md 7/C11, 13",
  "note": "Trusted: World.lean transcription (validated by correspondence). One current handle per container.",
  "technique": "Lean 4 proof by control-flow unfolding of the callback model + detach/replace differential histories",
 },
 "C01": {
  "text": "Lean theorems prove that the array model (a line-by-line transcription of array.go, array_data_slab.go, array_metadata_slab.go incl. split, merge, lend/borrow, root split and promotion, both routing branches) refines plain List operations: for EVERY legal slab size 256..32768, every history, every position and every element size (values larger than the inline limit are externalised), Get/Set/Insert/Remove/PopIterate return what the list returns, in-range requests never fail (the unreachable no-sibling and too-few-elements branches are proved unreachable), root ID and type are stable. The model is tied to the code by replaying every operation of generated histories and comparing observations, storage effects and full structural dumps.",
  "design_ref": "DESIGN.md 7/C01, Appendix B",
  "note": "Trusted: Lean kernel; ArrayInv.lean / C01.lean statements; correspondence harness. Values are opaque payloads with a size (the caller's Value/Storable contract is modelled); nested containers as elements: C10.",
  "technique": "Lean 4 refinement proof (B+tree model -> List) by induction on tree depth + per-operation model/implementation correspondence",
 },
 "C05": {
  "text": "Lean theorems prove that the array invariant ArrInv (every slab <= 1.5T, every non-root slab >= T/2, every element <= the inline limit, header copies / cumulative counts / sibling links exact, index root has >= 2 children, IDs fresh) holds initially and is preserved by every operation, for EVERY legal T; that a full slab holds >= 2 elements and two maximal elements fit; and that positional access and sequential traversal agree. Constants and derived limits are regenerated from source and compared exhaustively with the compiled package. Maps: the map invariant MapInv (sizes, bands, per-element inline limit, sorted unique first-level digests, index data = summary of the children, sibling chain, collision-group shape) holds initially and is preserved by set / remove / popIterate for EVERY legal T, every digest function and digest depth (map_inv_*), and the per-slab clauses of the property follow from it for every data and index slab (map_data_slabs_in_band, map_index_slab_wellformed, map_wellformed).",
  "design_ref": "DESIGN.md 7/C05, Appendix B",
  "note": "Trusted: Lean kernel; ArrayInv.lean; extractor (constants cross-checked against the compiled values for all 32513 thresholds).",
  "technique": "Lean 4 invariant proof parametric in the slab size (omega over regenerated constants) + exhaustive threshold comparison + dump correspondence",
 },
 "C18": {
  "text": "Proved in Lean: the category of every argument error (index/slice out of bounds, key not found: User; collision limit, undefined identifier, slab not found: Fatal) from the table regenerated from errors.go; an uncategorised error from a caller-supplied component becomes External and categorised ones pass through; a rejected array request leaves array, allocation counter and effect log unchanged, so a history with rejected requests ends in the same state as the history without them. Tie: every rejected request in the array and map streams must show an empty net storage effect and unchanged dumps on the real code; failures injected into comparator / hash-input provider / ledger reads must surface as External and leave no trace.",
  "design_ref": "DESIGN.md 7/C18",
  "note": "Trusted: extractor's reading of errors.go (constructor -> category wrapper), cross-checked by errors.As on every error the harness sees. Map-side no-trace is by C02's refinement theorems; nested ancestors by C10's stream.",
  "technique": "Lean 4 proof (decide over regenerated error table; no-op lemma on the request step) + fault-injection differential runs",
 },
 "C03": {
  "text": "Lean theorems (storage level) prove that no operation other than a commit changes the ledger, that a successful commit followed by ANY commit-free history and a crash leaves a reopened storage showing exactly the commit-time view of every owned identifier, and that temporary-address slabs are never written, for every history. The container level is tied by correspondence: array model + storage state machine reproduce every decoded register after every commit and the reopened tree after every crash. Container level (E2E theorems): for EVERY history of array (and map) operations run against the storage state machine, the storage view is exactly the container's slabs plus its live large-value slabs (rep_history, from C09's effects_complete), the tree is determined by its slabs (load_slabs), and history -> successful commit of either kind -> reopen on a fresh storage -> loading through Retrieve returns the SAME container (commit_reopen_identity); without the commit the reopen returns the container as of the last commit (crash_reopen_last_commit); failed commits followed by a successful retry behave the same (failed_commit_then_retry). For arrays the codec hypothesis is discharged for the real byte format (keyed_codec_roundtrip, bytes_commit_reopen_identity, ledger_read_by_decodeSlab: DecodeSlab of every owner register = the slab of the array). Partial: for maps the byte-codec instance and the liveness of large-value slabs are not proved (map_rep_history_partial); nested containers rely on the World correspondence.",
  "design_ref": "DESIGN.md 7/C03",
  "note": "Trusted: as C15; plus the generated fact baseStoreCallers/baseRemoveCallers (only commit functions write the ledger).",
  "technique": "Lean 4 proof over the storage state machine + regenerated source fact + model/implementation correspondence of committed registers",
 },
 "C04": {
  "text": "Proved in Lean: the deterministic commit issues calls in strictly ascending (owner,index) order for every write set; its result is independent of worker count and goroutine schedule (message-passing pool model, any finishing schedule); the order-relaxed commit leaves the same ledger and issues the same multiset of calls; source premises regenerated (worker closures write-free, pools reset). NOT proved (runtime): Go map iteration order, sync.Pool reuse, process identity - exercised by running each history under 60 configurations and in a fresh process and requiring byte-identical registers.",
  "design_ref": "DESIGN.md 7/C04",
  "note": "Partial by nature: the theorem covers the logic (ordering, arrival-order invariance); runtime nondeterminism is validated by the multi-run oracle only.",
  "technique": "Lean 4 proof (sortedness, schedule invariance of a message-passing pool model) + regenerated syntactic facts + multi-configuration byte comparison",
 },
 "C08": {
  "text": "Proved in Lean for the value-level storage model: any two schedules of {commit (either kind), drop cache, commit+reopen} interleaved with the same client history yield the same observations, the same view and, after a final commit, the same ledger. Tie: storage correspondence; oracle: the same container histories under six schedules on the real code give equal observations, content, validity and registers. Container level: loading a container through Retrieve with arbitrary cache drops, preloads and other reads interleaved yields the same container (E2E.load_from_storage, scheduled_retrieve_is_fetch, and the map versions). The oracle also drops the cache while slabs are dirty. Partial: Go handles keep pointers; the theorems are about clients that re-fetch handles after a cache drop.",
  "design_ref": "DESIGN.md 7/C08",
  "note": "Trusted: as C15. Pointer aliasing between stale handles and the cache is not modelled (finding F2 territory).",
  "technique": "Lean 4 simulation proof between maintenance schedules + schedule-differential oracle on the implementation",
 },
 "C16": {
  "text": "Proved in Lean for a message-passing model of the three worker pools: under every scheduler choice sequence the results are a permutation of the jobs, the result channel never exceeds its capacity, the pool terminates under a fair schedule, and commit/preload with any worker count equal the sequential run. NOT proved: Go memory-model races, preemption, sync.Pool internals - exercised with the race detector and concurrent independent clients compared with running alone.",
  "design_ref": "DESIGN.md 7/C16",
  "note": "Partial by nature (runtime behaviour). Premise workerClosuresWriteFree regenerated from source.",
  "technique": "Lean 4 proof over a message-passing pool model + race-detector and concurrent-vs-alone differential runs",
 },
 "C17": {
  "text": "Lean theorems over the executable models of NewArrayFromBatchData / NewMapFromBatchData (element loop, close-out, tail lend-or-merge at every level, index levels, root re-basing), CopyNonRefSimple (arrays and maps, standalone and inlined sources) and the byte-slice conversions: the build always succeeds with the input as content, the full structural invariant (ArrInv / MapInv) and fresh slab IDs, for EVERY element stream, legal threshold and depth; the map build keeps seed, count and order, rejects unsorted, duplicate and seed-0 streams and accepts every valid one; copy is offered iff single slab of plain values, then succeeds with equal content, re-based size, the invariant and fresh IDs; bytes round-trip. Tie: every build / copy / conversion of the batch stream replayed on the model (observations, storage effects, dumps of all slabs) + model-free oracles (content, Verify*, serialization, health with exact root count, disjoint slab sets, mutate-one-check-other).",
  "design_ref": "DESIGN.md 7/C17, 13.3",
  "note": "batch_map_content gives content as a permutation in general (exact order proved without first-level collisions; compared exactly by the correspondence); nested containers as elements of copy sources are covered by the model-free oracle only; batch_array_inv assumes at most 2^32-1 values.",
  "technique": "Lean 4 proofs (content, invariant, freshness, copyability iff) over executable models of the batch builders, copy and byte conversion + differential replay of the implementation's builds",
 },
 "C20": {
  "text": "Lean theorems prove, for EVERY heap of loaded slabs, that the (repaired) health check accepts exactly the healthy heaps and returns the true root set (health_sound, health_complete), that each of the four corruption kinds applied to any healthy heap at any slab is rejected, and that the all-child-references query is exact on healthy heaps. The model is tied to CheckStorageHealth/GetAllChildReferences by replaying heaps dumped from real storages (healthy and corrupted) and comparing outcomes. The defect this check found on the pinned tree (dangling reference to a slab removed through the storage passes the check) was repaired by a fix: commit; see known_findings.txt.",
  "design_ref": "DESIGN.md 7/C20, 8 (F1)",
  "note": "Trusted: Lean kernel; HealthSpec.lean (definition of Healthy); harness heap dump (hooks VerifDeltas/VerifCache + ChildStorables traversal); storages are explored with all slabs loaded, as the property states.",
  "technique": "Lean 4 soundness+completeness proof of the health-check algorithm against a graph specification + heap-level correspondence with the implementation",
 },
 "C15": {
  "text": "Lean theorems (inv_reachable, step_refines, retrieve_eq_view, commit_makes_base_eq_view, dropAll_reverts, observers_consistent, temp_never_in_ledger) prove that the storage state machine refines the write-back-overlay specification for EVERY finite operation sequence over any identifier universe, incl. faulty commits and re-creation. The model is tied to PersistentSlabStorage by replaying every generated history on both and comparing each observation, each ledger call log and, after every step, where every identifier is served from.",
  "design_ref": "DESIGN.md 7/C15, Appendix C",
  "note": "Trusted: Lean kernel; statement of the theorems; the correspondence harness (differential testing, bounded by its generators); value-level model (no pointer aliasing); BaseStorage is a map whose failing calls have no effect; the codec round-trip hypothesis (RoundTrip) is discharged for the real byte format on array slabs (E2E.keyed_codec_roundtrip, bytes_history_no_encode_failure); for other slab kinds it is C07's round-trip theorems.",
  "technique": "Lean 4 refinement proof (state machine -> overlay spec) + model/implementation trace correspondence",
 },
 "C14": {
  "text": "Lean theorems prove for both commit functions, every fault plan, every key/arrival order: a failing ledger call is reported, the view never changes, an identifier leaves the write set only when the ledger holds its latest value, and any sequence of failed attempts followed by a successful one leaves the ledger equal to a single fault-free commit (retry_converges); at container level, after any sequence of failing commits the in-memory view still represents the container and a successful retry followed by a reopen returns it (E2E.failed_commit_then_retry, map version). Tie and oracle as C15 with injected ledger faults.",
  "design_ref": "DESIGN.md 7/C14, Appendix C",
  "note": "Trusted: as C15. Worker pools are abstracted to arrival order (workers only read and encode: generated fact workerClosuresWriteFree).",
  "technique": "Lean 4 invariant/induction proof over commit fault plans + trace correspondence with fault injection",
 },
}
