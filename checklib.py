"""Per-property configuration of ./check: which streams exercise the property, which driver mode
replays each stream on the Lean model, the level claimed and the trusted base / assumptions that go
into the evidence file.  The theorem lists live in lean/obligations.json."""

LEAN_TB = [
    "Lean 4.33.0 kernel (axioms per theorem audited on every run: subset of propext, Classical.choice, Quot.sound)",
    "theorem statements in lean/AtreeProofs/Props/*.lean (pinned in lean/obligations.json)",
    "harness/cmd/extract (go/ast constant and fact extractor, ~500 lines), cross-checked against the compiled package",
    "correspondence harness (harness/cmd/trace, lean/Driver.lean, dump renderers on both sides)",
]

STORAGE_ASSUME = [
    "the Ledger / BaseStorage behaves as a map on NON-EMPTY registers and a failing call has no effect (caller-supplied component); LedgerBaseStorage reads a zero-length register as absent (modelled, SlabIdB.lbs_step_refines) and the real codec never writes one (SlabIdB.real_codec_register_nonempty)",
    "EncodeSlab/DecodeSlab round-trip (RoundTrip hypothesis; discharged for the real codec by C07's tie)",
    "value-level model: pointer aliasing between deltas, cache and container handles is not modelled. Consequence (measured by the aliasdrop stream on every run): a container operation mutates IN PLACE the slab object that the read cache also holds, so RetrieveIgnoringDeltas of a committed slab that was mutated since returns the UNCOMMITTED content, and after DropDeltas ALONE the view is not the last commit (mutated cached slabs stay, slabs created since are gone: fresh handles see uncommitted content, dangling references or cannot open the root; Deltas()=0, a commit writes nothing). The model answers 'committed content' in both cases; its streams never mutate a stored slab object. The property's claim (write set AND cache dropped) holds on the code and is checked",
    "goroutine scheduling of the encoder/decoder pools is abstracted to arrival order (see C16)",
]

ARRAY_ASSUME = [
    "Go slices/slices.Insert/Delete and uint32 arithmetic behave as List/Nat operations (no wrap-around: sizes stay below 2^16 under the invariant)",
    "children of index slabs are embedded in the model; storage lookups that cannot fail on a healthy storage are not modelled",
    "caller's Value.Storable returns a storable of size <= the limit it is given (harness value type TV does; modelled by toStorable)",
]

HEALTH_ASSUME = [
    "the heap given to the model is the set of slabs the slab iterator yields with all slabs loaded (non-nil entries of the storage view); the harness dumps it from the real storage through the verif hooks",
    "ChildStorables() of caller-supplied storables lists exactly their child storables (harness value types do)",
    "the model iterates the heap in list order where Go iterates maps in random order; theorems quantify over all heaps (all orders)",
]

CODEC_ASSUME = [
    "byte-level model covers standalone array data slabs (root / non-root), array index slabs and large-value slabs, decoders of both format versions; NOT modelled at byte level: map slabs, inlined array/map children, the shared inlined-extra-data section (hence the compact-map exceptions) - on those the harness still runs the model-free oracles",
    "elements are the harness's values (hx.TV byte strings of exactly controllable size incl. all CBOR head widths, SlabIDStorable); caller-supplied StorableDecoder/TypeInfoDecoder are the harness's, transcribed in Decode.lean",
    "the CBOR library is modelled by its contract (prepareNext validates the complete next item; its validator is transcribed and compared with the library on 4000 exotic inputs per run); panics inside the library or the Go runtime are not modelled (recover + 2 s watchdog)",
    "DataOK/MetaOK (field widths, count = len, size = prefix + sum) are hypotheses of the round-trip theorems; they follow from the C05 invariant (C06.no_uint16_truncation)",
]

MAP_ASSUME = [
    "hashing (CircleHash64 / BLAKE3) is not modelled: every key carries its digest vector; theorems quantify over ALL digest functions that are functions of the key under the caller's equality",
    "keys are plain values up to the inline key limit (KeyOk); values of any size >= 1 (larger than the limit for their key: externalised by the caller's Storable, modelled by toStorableLim)",
    "external collision-group slabs are embedded in the element that refers to them; the storage calls made on them are in the compared effect log",
    "Go slices / binary searches / uint32 arithmetic behave as List/Nat operations (no wrap-around under the invariant)",
]

NEST_ASSUME = [
    "value-level World model with ONE current handle per container (HandlesCurrent); two live handles to one container are findings F2/F2b (known_findings.txt), reproduced on every run by the dualhandle stream",
    "maps inside the World model use the default digester (4 levels); wrappers are the harness's SomeValue (2 bytes per level)",
    "facts about Arr.set/Arr.get on reference elements that C01 states only for plain values are explicit hypotheses of notify_updates_array_parent / mutIdx_ok_arrInsert (they are validated by the correspondence on every nested operation)",
]

PROPS = {
    "C06": {
        "streams": ["codec", "batch", "nested"], "driver": {"codec": "codec", "batch": "batch", "nested": "world"}, "scale": {"batch": 0.34}, "level": "proof",
        "trusted_base": LEAN_TB, "assumptions": CODEC_ASSUME,
        "rule": "arrays built at T in {256,512,1024} with every element size class incl. externalised values; every slab stored is encoded by EncodeSlab and by the model (bytes compared), every committed register decoded by both; distinct = distinct slabs encoded",
        "explanation": "Theorems: elem_size_eq_enc_len (every CBOR head width and the gap sizes), enc_len_data/meta/storable/enc_len (written bytes = reported size + extra data - 16 for an omitted sibling link), decoded_size_eq, no_uint16_truncation. Tie: the model's bytes must EQUAL EncodeSlab's bytes for every slab. Oracle: len(EncodeSlab) vs ByteSize on all slab kinds incl. maps and inlined children.",
    },
    "C07": {
        "streams": ["codec", "malformed", "nested"], "driver": {"codec": "codec", "malformed": "codec", "nested": "world"}, "level": "proof",
        "trusted_base": LEAN_TB, "assumptions": CODEC_ASSUME,
        "rule": "as C06 plus hand-crafted version-0 forms of every register and ~30000 mutated registers; distinct = distinct registers; nested: containers with repeated type infos read back from a fresh storage after commit",
        "explanation": "Theorems: decode_encode_data/meta/storable/decode_encode, reencode_fixpoint, flags_truthful, decode_rejects_trailing(_meta), storable_accepts_trailing. Tie: model-decode(Go bytes) = dump and Go-decode = model dump; header queries on raw bytes. Oracle: Encode(Decode(reg)) == reg, flags vs content; nested stream: every container (inlined or not) read back from a brand-new storage has its values and its own type info (type-info references among inlined siblings).",
    },
    "C19": {
        "streams": ["malformed", "malformedall"], "driver": {"malformed": "codec"}, "level": "proof",
        "trusted_base": LEAN_TB, "assumptions": CODEC_ASSUME,
        "rule": "bit flips, truncations at every length, splices, length-field and tag edits of valid registers of every kind and both versions (~22000 DecodeSlab calls, 6000 header queries, 4000 CBOR validator inputs per run); PLUS, model-free: every truncation and 60 mutations of each of ~100 registers of ALL slab kinds (map data / index / collision-group slabs, inlined arrays and maps, wrappers, compact maps, large values) under recover + 2 s watchdog; distinct = distinct byte strings",
        "explanation": "Theorems: decode_never_panics (every Go slice expression / fixed-offset read / make is transcribed with its bounds condition; a violated condition is a distinct 'panic' outcome, proved unreachable for ALL byte strings), header_queries_total, alloc_linear (allocations <= input length), accessors_total; termination by structural recursion. Tie: outcome class (ok+dump / error / panic) equal on every mutated register. Oracle: recover + 2 s watchdog + ByteSize/ChildStorables on accepted slabs.",
    },
    "C09": {
        "streams": ["array", "persist", "nested", "mapcollide", "slabid"], "driver": {"array": "array", "persist": "array", "nested": "world", "mapcollide": "map", "slabid": "slabid"}, "level": "proof",
        "trusted_base": LEAN_TB, "assumptions": ARRAY_ASSUME + NEST_ASSUME + [
            "Lean obligations are the ARRAY container level (effects_complete, pop_releases_all, tree_ownership, allocated_ids_fresh); maps, collision-group slabs and inline<->standalone transitions are tied by the per-operation comparison of the net SlabStorage effect (EFF lines) and checked on the implementation by CheckStorageHealth with the exact expected root count",
            "the caller disposes of what the library hands back (the harness removes returned large-value slabs: DSP lines)"],
        "rule": "array / map-collision / nested histories; after every operation the net store/remove/alloc effect of the real SlabStorage calls is compared with the model's effect log; every 20 nested operations CheckStorageHealth(storage, 1 + detached) on the implementation; distinct = distinct programs",
        "explanation": "Theorems: insert/set/remove_effects_complete (every slab whose content changed was stored, every slab that left the tree was removed, nothing else touched), pop_releases_all (emptying releases every slab but the root), tree_ownership (no slab owned twice, all under one address), allocated_ids_fresh. Graph level: C20. Oracle: storage health with exact root count.",
    },
    "C10": {
        "streams": ["nested", "dualhandle", "slabid"], "driver": {"nested": "world", "slabid": "slabid"}, "level": "proof",
        "trusted_base": LEAN_TB, "assumptions": NEST_ASSUME,
        "rule": "nested histories (arrays and maps in arrays and maps, wrapped 0-2 levels, depth up to 7, children growing and shrinking across the inline limit, parents restructured between child operations, commits + reload, commit + reopen + continue with re-fetched handles, handles obtained by lookup and by mutable iteration, byte-granular walks across the inline limit in both directions, PopIterate through child / detached handles with deep disposal, SetType on nested containers, deep removal of everything at the end); plus the dual-handle scenarios; distinct = distinct programs",
        "explanation": "Theorems: storable_inline_decision (inline exactly when a single slab fits the budget left after wrappers; size handed to the parent; value ID kept; storage effect), notify_updates_array_parent, handed_back_is_standalone, value_id_stable (all five operations), elem_sync_childStorable, mutIdx_ok_arrInsert, index_shift_order_independent. Tie: every nested operation replayed on the World model (observations, effects, nested dumps). Oracle: deep read-back through the outermost container, VerifyArray/VerifyMap, reload after commit.",
    },
    "C11": {
        "streams": ["nested"], "driver": {"nested": "world"}, "level": "proof",
        "trusted_base": LEAN_TB, "assumptions": NEST_ASSUME,
        "rule": "nested histories with detach (remove / overwrite by a plain value / overwrite by ANOTHER container in the same slot), mutation through the detached handle, re-attachment elsewhere; distinct = distinct programs",
        "explanation": "Theorems: detached_array_child / replaced_slot / detached_map_child _leaves_parent_unchanged (the callback answers not-found before any write: containers, index tables and effect log untouched), remove_forgets_index; handed_back_is_standalone (C10). Oracle: dump of the former parent unchanged, returned storable is a reference with the unchanged value ID.",
    },
    "C01": {
        "streams": ["array", "persist", "settings", "nested"], "driver": {"array": "array", "persist": "array", "settings": "settings", "nested": "world"}, "level": "proof",
        "trusted_base": LEAN_TB, "assumptions": ARRAY_ASSUME + [
            "nested containers as elements are covered by C10's World model, not by these theorems (elements here are plain values of any size and references)",
            "the guard count < 2^32-1 (maxArrayElementCount) is a hypothesis of insert_refines; at the excluded point the code returns its dedicated error, reproduced by the model"],
        "rule": "array histories (insert/append/set/remove/get/pop/type/count/iterators, out-of-range requests) at T in {256,257,511,512,1023,1024,32768,random}, 8 element-size profiles (tiny, mid, at the inline limit, externalised, just under half a slab, fixed, quarter, mixture), 5 position profiles, 4 operation mixes; reopen by root ID after commits and crashes; distinct = distinct (T, length) programs",
        "explanation": "Theorems: get/insert/set/remove/pop/count/setType_refines (the array model refines List operations for EVERY legal threshold, every value size >= 1, every position; in-range requests never fail; root ID and type stable), route_linear_eq_binary. Tie: every operation of every history replayed on the model; observations, net SlabStorage effects, dumps of every stored slab and periodic full-tree dumps must be identical; thresholds and constants compared exhaustively. Oracle: shadow slice.",
    },
    "C05": {
        "streams": ["array", "settings", "map", "mapcollide", "batch"], "driver": {"array": "array", "settings": "settings", "map": "map", "mapcollide": "map", "batch": "batch"}, "scale": {"batch": 0.34}, "level": "proof",
        "trusted_base": LEAN_TB, "assumptions": ARRAY_ASSUME + [
            "MAP PART: the map invariant (AtreeProofs/MapInv.lean) is defined and the map model is tied by correspondence, but its preservation theorems are C02's obligations; this check's Lean obligations are the array theorems",
            "size bands are proved for the Nat model; uint32/uint16 truncation cannot occur because every slab size stays <= 1.5*32768 + one element < 65536 (band theorems)"],
        "rule": "array and map histories with sizes at maxInline, maxInline+-1, just under T/2, at thresholds {256,257,511,512,1023,1024,32767,32768,random}; all 32513 legal thresholds for the derived limits; VerifyArray/VerifyMap every 25 operations; distinct = distinct programs + thresholds",
        "explanation": "Theorems: inv_new/insert/set/remove/popIterate/setType (ArrInv: size equations, bands [T/2, 1.5T], per-element inline limit, header copies, cumulative counts, sibling links, >= 2 children at an index root, fresh IDs) for every legal T; full_slab_has_two_elems; two_max_elems_fit; access_agree (positional access = sequential traversal). The arithmetic goes through the regenerated constants: a changed constant that breaks a band stops the proofs. Tie: per-operation dump comparison (every header copy, count sum, size, next link is in the dump). Oracle: VerifyArray / VerifyMap.",
    },
    "C02": {
        "streams": ["map", "mapcollide", "mpersist"], "driver": {"map": "map", "mapcollide": "map", "mpersist": "map"}, "level": "proof",
        "trusted_base": LEAN_TB, "assumptions": MAP_ASSUME,
        "rule": "map histories (set new / overwrite / remove present and absent / get / has / count / pop / type / three iterator flavours) at T in {256,257,511,512,1024,32768,random}; digests: the real digester, the real POOLED digester with a non-injective hash input (genuine collisions on all levels), and adversarial tables (first-level only, deeper levels, all levels, 1-3 digest levels, about one key per digest with large elements); values tiny / mid / around the value limit / just over half the element limit (externalised when larger); distinct = distinct (T, digest mode, length) programs",
        "explanation": "Theorems: inv_new, get/has/set/remove/pop/count_refines: for EVERY digest function consistent with key equality (any hash distribution), every legal T, every number of digest levels, the map model refines dictionary operations, key-not-found exactly for absent keys, the only other refusal is the collision limit for a NEW key, MapInv (size bands, sorted unique digests, group shapes, routing by first digest, sibling links) preserved. Tie: every operation replayed on the model (observations, net storage effect, dump of every stored slab incl. collision-group slabs, periodic full dumps, decoded registers after commits). Oracle: Go map.",
    },
    "C12": {
        "streams": ["mapcollide"], "driver": {"mapcollide": "map"}, "level": "proof",
        "trusted_base": LEAN_TB, "assumptions": MAP_ASSUME,
        "rule": "adversarial digest tables over 1-4 levels (alphabets of 2-8 values per level), collision limits 0,1,2,3,255, insert/update/remove mixes incl. grow-then-shrink; distinct = distinct programs",
        "explanation": "Theorems: limit_refuses_new_key, limit_allows_update_and_room (refusal exactly when the first-level group already holds more than the limit and the key is new; an error returns no new state), order_canonical (ascending lexicographic digest order, full collisions in insertion order); group shapes (inline group born with two keys, exported to an external slab exactly when a first-level group exceeds the element limit, collapsed to a single element, insertion-ordered list when digests are exhausted) are part of ElemsInv, preserved by C02's theorems. Oracle: Go map + VerifyMap + no storage effect after a refusal.",
    },
    "C03": {
        "streams": ["persist", "mpersist", "storage", "nested", "slabid"], "driver": {"persist": "array", "mpersist": "map", "storage": "storage", "nested": "world", "slabid": "slabid"}, "level": "proof",
        "trusted_base": LEAN_TB, "assumptions": STORAGE_ASSUME + ARRAY_ASSUME + [
            "container level: the array model's effect log is validated against the real SlabStorage call sequence on every operation; the map model likewise in C02's streams",
            "the codec round trip used by commit_durable_on_reopen is a hypothesis here (C07)"],
        "rule": "array AND map (real digests and collision tables) histories at T in {256,257,511,512,1024,32768,random} with commits every ~{4,8,15,40}% of steps, crashes (storage and handles abandoned, array reopened from the ledger) at random points; after every commit every register is decoded by a brand-new storage and its dump compared with the model's ledger; distinct = distinct (T, length) programs",
        "explanation": "Theorems (storage level): only_commit_touches_ledger, uncommitted_never_reaches_ledger, commit_durable_on_reopen, crash_recovers_last_commit, temp_never_written + the regenerated fact that only the commit functions call BaseStorage.Store/Remove. Tie: the composition array model + storage state machine reproduces every register (decoded dump) after every commit and the reopened tree after every crash. Oracle: reload on a fresh storage vs a shadow slice; ledger call log empty between commits.",
    },
    "C04": {
        "streams": ["determ", "storage", "map", "slabid"], "driver": {"storage": "storage", "map": "map", "slabid": "slabid"}, "level": "proof",
        "trusted_base": LEAN_TB, "assumptions": STORAGE_ASSUME + [
            "NOT exhibited by the model (exercised by the harness, not proved): real goroutine scheduling, Go's randomised map iteration, sync.Pool reuse, process identity",
            "the map seed is an uninterpreted function of the root slab ID in the model; the harness recomputes circlehash(address, index) independently"],
        "rule": "scripts of 300 array+map operations with commits, each executed under GOMAXPROCS {1,4,16} x workers {1,2,3,8,64} x {FastCommit, NondeterministicFastCommit} x ledger scheduling jitter and once in a fresh child process; distinct = distinct final ledgers; slabid: the real sort of FastCommit's key list on write sets of boundary identifiers (carries across every byte, 2^63, 2^64-1) and SlabID.Compare on thousands of pairs, replayed on the byte-level identifier model",
        "explanation": "Theorems: fastcommit_order_sorted (ascending (owner,index) call order for every write set and fault plan), lt_strict_total, fastcommit_schedule_invariant (any worker count, any finishing schedule = sequential), nondet_commit_same_final_ledger (same ledger, call multiset equal), source_premises (worker closures write-free, pools reset before Put; regenerated); byte level (SlabIdB.*): SlabID.Compare = the numeric (owner,index) order the model sorts by, the comparator of sortedOwnedDeltaKeys is that same order, the byte-level sorted key list maps exactly onto the model's. Oracle: byte-identical registers, identical observations and ordered call logs across all configurations and a fresh process.",
    },
    "C08": {
        "streams": ["cache", "compact", "storage", "aliasdrop"], "driver": {"storage": "storage"}, "level": "proof",
        "trusted_base": LEAN_TB, "assumptions": STORAGE_ASSUME + [
            "value-level model: clients re-fetch their handles after a cache drop / reopen (HandlesCurrent); stale-handle histories are outside the theorem (see DESIGN.md, finding F2)"],
        "rule": "scripts of 250 array+map operations under maintenance schedules {never, commit after every op, commit+drop cache after every op, commit+reopen after every op, random, periodic}; plus same-typed inlined composite maps (compact encoding) under commit+drop-cache / commit+reopen every 1,2,5,8 operations with re-fetched handles; half of the cache programs hash keys non-injectively (collisions on every digest level, pooled digesters beyond level 0), half of them write the hash input into the scratch buffer supplied by the library; aliasdrop: real arrays and maps mutated IN PLACE through their handles after a commit (the cache holds the same slab objects), then write set and cache dropped in either order: every container read through a fresh handle and through a brand-new storage equals the last commit; distinct = distinct final ledgers",
        "explanation": "Theorems: reload_is_identity, schedule_independent_outcomes, schedule_independent_ledger (any two schedules of {commit (both kinds), drop cache, commit+reopen} give the same observations, view and final ledger). Oracle: observations, final content, VerifyArray/VerifyMap and final registers equal across schedules on the real code.",
    },
    "C16": {
        "streams": ["parallel", "parfault", "storage"], "driver": {"storage": "storage"}, "level": "proof", "race": ["parallel", "storage", "parfault"],
        "trusted_base": LEAN_TB, "assumptions": STORAGE_ASSUME + [
            "NOT exhibited by the model (exercised under the Go race detector, not proved): data races in the Go memory model, real preemption, sync.Pool internals, concurrent writes to process-wide settings"],
        "rule": "8 client goroutines with own storages running 200-op scripts concurrently (workers 1..64, both commits, ledger jitter, GOMAXPROCS 2/8/16; every second client hashes keys non-injectively through the caller's scratch buffer: pooled digesters beyond level 0) vs alone; parallel preload 1..64 workers vs sequential; child processes (10 s watchdog per call; a crash or a hang of the child is a violation carrying the panic text / the stuck goroutines) running commits/preloads that FAIL midway: ledger fault at call 0..3 with slow encoders, ONE unencodable slab at a random position among 60-300 slow/fast-encoding slabs for BOTH commit functions with 4-64 workers under GOMAXPROCS 1-16, a corrupted register (error, cached subset of requested, cached = decoding, cache vs the single-worker run), a failing ledger read; the parallel, storage and parfault streams again in a -race build",
        "explanation": "Theorems about the message-passing model of the worker pools: pool_results_perm, pool_results_bounded (result channel never over capacity), pool_terminates, parallel_commit_sequential_equal, parallel_preload_sequential_equal. Oracle: results equal to sequential/alone runs; zero race-detector reports.",
    },
    "C17": {
    "streams": ["batch"], "driver": {"batch": "batch"}, "level": "proof",
    "trusted_base": LEAN_TB,
    "assumptions": [
        "values are the harness's plain values (hx.TV) of any size >= 1 (larger than the inline limit: externalised by the caller's Storable, modelled by toStorable / toStorableLim); the byte element type is the harness's BV (3 or 4 encoded bytes), whose Storable() returns the value itself",
        "map keys carry their digest vector (hashing not modelled); keys fit the inline key limit",
        "inlined copy sources: the model applies ArrayDataSlab.Inline / MapDataSlab.Inline's size re-basing to the standalone source (OP ainline/minline) and the harness dumps the real inlined slab for comparison; nested containers as elements are checked by the model-free oracle only",
        "batch_map_content gives the pairs of the result as a permutation of the input (plus key distinctness and the map invariant, whose digest-order clauses fix the order up to full collisions); exact order is proved for streams without first-level collisions (batch_map_content_nocollision) and checked by the correspondence for all streams",
        "NewArrayFromBatchData does not check maxArrayElementCount; batch_array_inv assumes at most 2^32-1 input values",
    ],
    "rule": "per program (threshold in {256,512,1024,32768,257,511,random}): ~70 array builds (lengths 0..6000 (9000 at one mid threshold, 40000 in the thorough tier), 8 size profiles, uniform streams at the critical lengths k*j+r that leave an underfull/full last data slab and last index slab at every level, merge-prone streams), 30 map builds from source maps (real digester and 5 collision tables) + 12 rejected streams (unsorted, duplicates adjacent / in group / far away, reversed, seed 0), 22 array and 18 map copy scenarios (plain, with references, multi-slab, empty, full, inlined, nested), 13 byte conversions; every OBS/EFF/SLB/FULL line compared with the model; distinct = distinct (threshold, profile, length) builds",
    "explanation": "Theorems: batch_array_content / _inv / _ids_fresh, batch_map_* (content, seed/count/order, rejects unsorted / duplicates / seed 0, loop accepts every valid stream, batch_map_inv), can_copy_iff, copy_succeeds_when_offered (iff), copy_content_eq, copy_size_rebased, copy_inv, result_ids_fresh, bytes_roundtrip. Oracles on the implementation: content read back by iteration, VerifyArray/VerifyMap + Verify*Serialization, CheckStorageHealth with the exact root count, disjoint slab-ID sets, mutate-one-check-other (dump and content), copy offered iff single slab of plain values and then succeeds.",
},
    "C18": {
        "streams": ["array", "mapcollide", "callbackfail"], "driver": {"array": "array", "mapcollide": "map"}, "level": "proof",
        "trusted_base": LEAN_TB, "assumptions": ARRAY_ASSUME + [
            "the model's operations return Except: a rejected request carries no new state; what ties this to the code is the per-operation comparison of the net storage effect ('EFF -' after every rejected request) and of the periodic full dumps",
            "nested handles (ancestors untouched by a rejected child request) are covered by C10's stream, not by these theorems"],
        "rule": "array stream: out-of-range get/set/insert/remove at every state (profile 3); map collision stream: absent-key removals and collision-limit refusals (limits 0..3) at every state; callback stream: comparator failing at call 1..4, hash-input provider failing, ledger reads failing; distinct = distinct (request kind, error kind) pairs + programs",
        "explanation": "Theorems: arg_error_category / model_error_categories (by decide over the table regenerated from errors.go), callback_failure_is_external (model of wrapErrorfAsExternalErrorIfNeeded), reject_is_noop, history_with_rejections_same_state. Oracle: errors.As category, no SlabStorage call during a rejected request, dump and Deltas() unchanged.",
    },
    "C20": {
        "streams": ["health"], "driver": {"health": "health"}, "level": "proof",
        "trusted_base": LEAN_TB, "assumptions": HEALTH_ASSUME,
        "rule": "healthy storages (1-3 arrays at T=256, up to ~40 slabs, large values in own slabs, uncommitted and committed+reloaded) x each corruption kind (delete referenced: pending / committed / physical; extra unreferenced; double reference; foreign owner) at sampled slabs (all slabs in the thorough tier); distinct = distinct (label, heap) pairs",
        "explanation": "Theorems: health_sound / health_complete (check accepts exactly the Healthy heaps and returns the true roots), four corruption theorems, allrefs_exact. Tie: every heap dumped from the real storage is checked by the model and the outcome compared with CheckStorageHealth / GetAllChildReferences. Oracle: an independent graph walker in Go.",
    },
    "C15": {
        "streams": ["storage", "storageexh", "slabid", "aliasdrop"], "driver": {"storage": "storage", "storageexh": "storage", "slabid": "slabid"}, "level": "proof",
        "trusted_base": LEAN_TB, "assumptions": STORAGE_ASSUME,
        "rule": "random op sequences (store/remove/retrieve/retrieve-if-loaded/cache-bypassing retrieve/both commits with fault plans/drop deltas/drop cache/preload/re-create/external corruption) over 4-15 identifiers incl. a temporary-address one; PLUS bounded-exhaustive: every sequence of length 4 (thorough: 5) over a 22-operation alphabet on two identifiers (one owned, one temporary), two versions, both commits with and without a fault; slabid: LedgerBaseStorage over a map ledger (keeping / deleting empty registers, injected faults), InMemBaseStorage and BasicSlabStorage incl. its iterator, 120 programs of requests compared with their byte-level models; storage stream also: reads, identifier allocations and preloads whose LEDGER CALL FAILS (external error, no trace in write set / cache / counters / ledger, compared with the replayer's no-op); aliasdrop (container level, model-free): arrays and maps mutated in place through handles after a commit, then DropDeltas+DropCache in either order => every container read back through a fresh handle equals the last commit, containers born after it are gone, ledger untouched; what DropDeltas ALONE and RetrieveIgnoringDeltas show in that situation is recorded as observation counters (the cache holds the mutated objects: see assumptions); distinct = distinct op-kind strings / sequences",
        "explanation": "Theorems: storage state machine refines the write-back overlay spec for every op sequence (inv_reachable, step_refines, ...). Tie: model replayed against PersistentSlabStorage on every trace line (observations, ledger call logs, where each id is served from, counters). Oracle: Go-map overlay.",
    },
    "C13": {
        "streams": ["iter", "array", "mapcollide"], "driver": {"iter": "iter", "array": "array", "mapcollide": "map"}, "level": "proof",
        "trusted_base": LEAN_TB, "assumptions": ARRAY_ASSUME + MAP_ASSUME + [
            "loaded-value iterators are parameterised by a predicate 'slab is loaded'; the harness reads the real loaded set from the storage's write set and cache (verif hooks)",
            "map_ro_iter_eq_toList needs the sibling-link / slab-ID consistency predicate leafIdsOk (evaluated by the replayer on every iterated tree)",
            "mutating a NESTED container during mutable iteration is exercised by the stream's oracle and by C10's stream, not by a theorem"],
        "rule": "48 container programs per seed (arrays at T in {256,300,512,1024}, maps with real digests and four collision-table modes: inline groups, external groups, last-level lists spanning slab boundaries); per round: commit, 8 loaded subsets on fresh storages (nothing, everything, random, all-but-a-few, get paths, prefixes, the live handle), every iterator flavour on fresh and live handles with valid and invalid ranges, overwrite during mutable iteration, bulk pop; distinct = programs x rounds",
        "explanation": "Theorems: array read-only/mutable iteration = toList, range iteration = slice, invalid ranges rejected with the exact error kinds, loaded iteration with all slabs loaded = toList and with ANY loaded set a Sublist (for any tree), the Go iterator object = the structural traversal, pop = reverse, overwrite of the current element neither skips nor repeats; maps: getElementAndNextKey returns pair and successor, mutable / read-only / keys / values / loaded iterations = toList (canonical digest order), loaded subset is a Sublist, pop = reverse. Oracle: pairwise agreement of all flavours and with Get, exactly-once, digest order, in-order subsequence when partially loaded.",
    },
    "C14": {
        "streams": ["storage"], "driver": {"storage": "storage"}, "level": "proof",
        "trusted_base": LEAN_TB, "assumptions": STORAGE_ASSUME,
        "rule": "same stream as C15; every commit draws, with a probability that grows with the size of the owned write set (5%..65%), a fault plan of up to 2 failing positions among 0..pendingOwned-1 (the ledger calls the commit can issue; every third program lets its write set grow before committing), a commit kind and a worker count in {1,2,3,8,64}; evidence counters commit-faults:planned / fired / fired-after-successful-calls / by write-set size",
        "explanation": "Theorems: failed_commit_reports_error / keeps_view / pending_is_unwritten / retry_converges for both commits, all fault plans, all orders. Tie: as C15. Oracle: ledger call log vs pending set, Deltas() after failure, error category External.",
    },
}
