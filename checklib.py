"""Per-property configuration of ./check: which streams exercise the property, which driver mode
replays each stream on the Lean model, the level claimed and the trusted base / assumptions that go
into the evidence file.  The theorem lists live in lean/obligations.json."""

LEAN_TB = [
    "Lean 4.33.0 kernel (axioms per theorem audited on every run: subset of propext, Classical.choice, Quot.sound)",
    "theorem statements in lean/AtreeProofs/Props/*.lean (pinned in lean/obligations.json)",
    "harness/cmd/extract (go/ast constant and fact extractor, ~500 lines), cross-checked against the compiled package",
    "correspondence harness (harness/cmd/trace, lean/Driver.lean, dump renderers on both sides)",
]

STORAGE_ASSUME = [
    "BaseStorage behaves as a map and a failing call has no effect (caller-supplied component)",
    "EncodeSlab/DecodeSlab round-trip (RoundTrip hypothesis; discharged for the real codec by C07's tie)",
    "value-level model: pointer aliasing between deltas, cache and container handles is not modelled",
    "goroutine scheduling of the encoder/decoder pools is abstracted to arrival order (see C16)",
]

ARRAY_ASSUME = [
    "Go slices/slices.Insert/Delete and uint32 arithmetic behave as List/Nat operations (no wrap-around: sizes stay below 2^16 under the invariant)",
    "children of index slabs are embedded in the model; storage lookups that cannot fail on a healthy storage are not modelled",
    "caller's Value.Storable returns a storable of size <= the limit it is given (harness value type TV does; modelled by toStorable)",
]

HEALTH_ASSUME = [
    "the heap given to the model is the set of slabs the slab iterator yields with all slabs loaded (non-nil entries of the storage view); the harness dumps it from the real storage through the verif hooks",
    "ChildStorables() of caller-supplied storables lists exactly their child storables (harness value types do)",
    "the model iterates the heap in list order where Go iterates maps in random order; theorems quantify over all heaps (all orders)",
]

PROPS = {
    "C20": {
        "streams": ["health"], "driver": {"health": "health"}, "level": "proof",
        "trusted_base": LEAN_TB, "assumptions": HEALTH_ASSUME,
        "rule": "healthy storages (1-3 arrays at T=256, up to ~40 slabs, large values in own slabs, uncommitted and committed+reloaded) x each corruption kind (delete referenced: pending / committed / physical; extra unreferenced; double reference; foreign owner) at sampled slabs (all slabs in the thorough tier); distinct = distinct (label, heap) pairs",
        "explanation": "Theorems: health_sound / health_complete (check accepts exactly the Healthy heaps and returns the true roots), four corruption theorems, allrefs_exact. Tie: every heap dumped from the real storage is checked by the model and the outcome compared with CheckStorageHealth / GetAllChildReferences. Oracle: an independent graph walker in Go.",
    },
    "C15": {
        "streams": ["storage"], "driver": {"storage": "storage"}, "level": "proof",
        "trusted_base": LEAN_TB, "assumptions": STORAGE_ASSUME,
        "rule": "random op sequences (store/remove/retrieve/retrieve-if-loaded/cache-bypassing retrieve/both commits with fault plans/drop deltas/drop cache/preload/re-create/external corruption) over 4-15 identifiers incl. a temporary-address one; distinct = distinct op-kind strings",
        "explanation": "Theorems: storage state machine refines the write-back overlay spec for every op sequence (inv_reachable, step_refines, ...). Tie: model replayed against PersistentSlabStorage on every trace line (observations, ledger call logs, where each id is served from, counters). Oracle: Go-map overlay.",
    },
    "C14": {
        "streams": ["storage"], "driver": {"storage": "storage"}, "level": "proof",
        "trusted_base": LEAN_TB, "assumptions": STORAGE_ASSUME,
        "rule": "same stream as C15; every commit draws a fault plan (up to 2 failing positions among the first 6 ledger calls), a commit kind and a worker count in {1,2,3,8,64}",
        "explanation": "Theorems: failed_commit_reports_error / keeps_view / pending_is_unwritten / retry_converges for both commits, all fault plans, all orders. Tie: as C15. Oracle: ledger call log vs pending set, Deltas() after failure, error category External.",
    },
}
