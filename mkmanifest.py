#!/usr/bin/env python3
"""Regenerates MANIFEST.json from checklib.PROPS and manifest_text.py (claims per property)."""
import json, os, subprocess, sys
HERE = os.path.dirname(os.path.abspath(__file__))
sys.path.insert(0, HERE)
from checklib import PROPS
from manifest_text import CLAIMS, NOT_APPLICABLE_REASON, NOTES

props = [json.loads(l)['id'] for l in open(os.path.join(HERE, 'properties.jsonl'))]
hook_commits = subprocess.run(['git', '-C', '/repo', 'log', '--format=%h', '--', 'verif_hooks.go'],
                              capture_output=True, text=True).stdout.split()
m = {
    "version": 1,
    "setup_cmd": "./check --setup",
    "hooks": {
        "guard": "verif",
        "enable": "go build -tags verif (harness module verifharness, replace github.com/onflow/atree => /repo)",
        "baseline_off_cmd": "cd /repo && GOFLAGS=-mod=mod go test -vet=off -count=1 -timeout 25m ./...",
        "source_commits": hook_commits,
        "add_only": True,
    },
    "engines": [
        {"name": "lean-model+proofs", "path": "lean/", "serves_properties": sorted(PROPS),
         "kind_free_text": "Lean 4 executable model (AtreeModel), theorems (AtreeProofs/Props), compiled trace replayer (atree_model)"},
        {"name": "go-harness", "path": "harness/", "serves_properties": sorted(PROPS),
         "kind_free_text": "Go module running the real atree in-process: trace generator, fact extractor, model-free oracles"},
    ],
    "checks": [],
    "notes": NOTES,
    "not_applicable": [],
}
for p in props:
    if p in PROPS and p in CLAIMS:
        c = CLAIMS[p]
        m["checks"].append({
            "property_id": p,
            "quick_cmd": "./check %s --tier quick" % p,
            "thorough_cmd": "./check %s --tier thorough" % p,
            "evidence_file": "/verif/evidence/%s.json" % p,
            "replay_cmd_template": "./check %s --replay {path}" % p,
            "engine": "lean-model+proofs",
            "level_claimed": {"category": PROPS[p]["level"], "text": c["text"], "design_ref": c["design_ref"]},
            "level_note": c["note"],
            "technique": c["technique"],
        })
    else:
        m["not_applicable"].append({"property_id": p, "reason": NOT_APPLICABLE_REASON.get(p, "check not built yet (work in progress; DESIGN.md section 10 staging)")})
json.dump(m, open(os.path.join(HERE, 'MANIFEST.json'), 'w'), indent=1)
print("checks:", [c["property_id"] for c in m["checks"]])
