#!/bin/bash
# Negative self-test of the map-DESCENT translation-equivalence obligations (WP13; development helper, not part
# of ./check).  Applies one-token mutants of the s4 sweep (patches) and a few sed rewrites to a scratch COPY of the Go
# sources, regenerates Gen/TransMapDescent.lean from the copy INTO A PRIVATE COPY of lean/, and reports
# which theorems of Props/TransMapDescent*.lean stop compiling; cosmetic rewrites must leave everything green.
# usage: tools/gotrans_mapdescent_selftest.sh [names...]   (never touches /repo or lean/; default: every case below)
set -u
VERIF="$(cd "$(dirname "$0")/.." && pwd)"
REPO="${VERIF_REPO:-/repo}"
S3="${SWEEP_S3:-/tmp/sweep/s3/patches}"
S4="${SWEEP_S4:-/tmp/sweep/s4/patches}"
MUT="/tmp/gotrans-md-mut-$$"
LEAN="/tmp/gotrans-md-lean-$$"
export GOFLAGS=-mod=mod GOPROXY=off
BIN="$(mktemp -d)/gotrans"
(cd "$VERIF/harness" && go build -tags verif -o "$BIN" ./cmd/gotrans) || { echo "gotrans does not build"; exit 2; }
MODS="${SELFTEST_MODS:-$(cd "$VERIF/lean/AtreeProofs/Props" && ls TransMapDescent*.lean | sed 's/\.lean$//; s/^/AtreeProofs.Props./' | tr '\n' ' ')}"
# private copy of lean/: all sources, but only the build products of the import closure of $MODS (a few MB)
rm -rf "$LEAN"; mkdir -p "$LEAN"
(cd "$VERIF/lean" && tar cf - --exclude=.lake . ) | (cd "$LEAN" && tar xf -)
python3 - "$VERIF/lean" "$LEAN" $MODS <<'PY'
import os, re, shutil, sys
src, dst, mods = sys.argv[1], sys.argv[2], sys.argv[3:]
seen = set()
def walk(m):
    if m in seen or not m.startswith(("AtreeModel", "AtreeProofs")): return
    p = os.path.join(src, m.replace(".", "/") + ".lean")
    if not os.path.exists(p): return
    seen.add(m)
    for l in open(p):
        g = re.match(r"\s*import\s+(\S+)", l)
        if g: walk(g.group(1))
for m in mods: walk(m)
for m in seen:
    for sub in ("lib/lean", "ir"):
        d = os.path.join(src, ".lake/build", sub, os.path.dirname(m.replace(".", "/")))
        if not os.path.isdir(d): continue
        base = m.split(".")[-1]
        for f in os.listdir(d):
            if f == base or f.startswith(base + "."):
                t = os.path.join(dst, ".lake/build", sub, os.path.dirname(m.replace(".", "/")))
                os.makedirs(t, exist_ok=True)
                shutil.copy2(os.path.join(d, f), os.path.join(t, f))
for f in ("lake-manifest.json",):
    pass
PY
for f in "$VERIF"/lean/.lake/*; do case "$(basename "$f")" in build) ;; *) cp -r "$f" "$LEAN/.lake/" 2>/dev/null ;; esac; done
GEN="$LEAN/AtreeModel/Gen"
ONLY=" $* "

run() { # name kind patchfile-or-empty [file sed-expression]
  local name="$1" kind="$2" patch="$3" file="${4:-}" expr="${5:-}"
  if [ "$ONLY" != "  " ] && [[ "$ONLY" != *" $name "* ]]; then return; fi
  rm -rf "$MUT"; mkdir -p "$MUT"; cp "$REPO"/*.go "$MUT"/
  if [ -n "$patch" ]; then
    (cd "$MUT" && patch -s -p1 < "$patch") || { echo "[$name] PATCH DID NOT APPLY"; return; }
  fi
  if [ -n "$file" ]; then
    sed -i -E "$expr" "$MUT/$file"
    if cmp -s "$REPO/$file" "$MUT/$file"; then echo "[$name] MUTATION DID NOT APPLY"; return; fi
  fi
  (cd "$MUT" && gofmt -l -e . >/dev/null 2>"$MUT/fmt.err") || { echo "[$name] does not parse: $(head -1 "$MUT/fmt.err")"; return; }
  "$BIN" -repo "$MUT" -out "$GEN" 2>"$MUT/gotrans.err"
  # only the object engine's file is under test: the older generated files (decision layer, storage) stay at baseline,
  # so that the report names the theorems of Props/TransMapSlabs*.lean and not the older ones about the same functions
  cp "$VERIF/lean/AtreeModel/Gen/Trans.lean" "$VERIF/lean/AtreeModel/Gen/TransStorage.lean" "$VERIF/lean/AtreeModel/Gen/TransMapSlabs.lean" "$VERIF/lean/AtreeModel/Gen/TransSlabs.lean" "$VERIF/lean/AtreeModel/Gen/TransMapElems.lean" "$VERIF/lean/AtreeModel/Gen/TransMapElem.lean" "$GEN/"
  local out; out="$(cd "$LEAN" && lake build $MODS 2>&1)"
  local failed; failed="$(echo "$out" | grep -E '^error: AtreeProofs' | sed -E 's/^error: (AtreeProofs[^:]*):([0-9]+).*/\1:\2/' | sort -u | tr '\n' ' ')"
  local thms=""
  for loc in $failed; do
    f="${loc%%:*}"; l="${loc##*:}"
    t="$(head -n "$l" "$LEAN/$f" | grep -E '^(theorem|example|def)' | tail -1 | awk '{print $2}')"
    thms="$thms $t"
  done
  thms="$(echo $thms | tr ' ' '\n' | sort -u | tr '\n' ' ')"
  local res
  if [ -z "$failed" ]; then
    if echo "$out" | grep -q '^error'; then res="BROKEN (generated file does not compile): $(echo "$out" | grep -m1 '^error' | cut -c1-160)"; else res="all theorems compile"; fi
  else res="BROKEN: $thms"; fi
  echo "[$name] ($kind) $(grep 'not translated' "$MUT/gotrans.err" | grep -v -E ': (ArrayDataSlab|ArrayMetaDataSlab|PersistentSlabStorage|BasicSlabStorage|LedgerBaseStorage)\.' | head -2 | cut -c1-200 | tr '\n' ' ')=> $res"
}

run baseline none ""
# ---- one-token mutants of the s4 sweep inside the newly translated functions -------------------------------------------
run m01 semantic "$S4/m01.diff"     # getChildSlabByDigest: binary search >=
run m02 semantic "$S4/m02.diff"     # getChildSlabByDigest: ans := 0 (no KeyNotFound)
run m04 semantic "$S4/m04.diff"     # MapMetaDataSlab.Set: binary search >=
run m05 semantic "$S4/m05.diff"     # Set: child header not refreshed
run m06 semantic "$S4/m06.diff"     # Set: firstKey not refreshed
run m07 semantic "$S4/m07.diff"     # Set: underflow branch dropped
run m08 semantic "$S4/m08.diff"     # Set: parent not stored
run m09 semantic "$S4/m09.diff"     # MapMetaDataSlab.Remove: binary search >=
run m10 semantic "$S4/m10.diff"     # Remove: child header not refreshed
run m11 semantic "$S4/m11.diff"     # Remove: firstKey not refreshed
run m12 semantic "$S4/m12.diff"     # Remove: split branch dropped
run m13 semantic "$S4/m13.diff"     # Remove: parent not stored
run m14 semantic "$S4/m14.diff"     # PopIterate: loop i > 0
run m15 semantic "$S4/m15.diff"     # PopIterate: size not reset
run p23 semantic "$S4/p23.diff"     # OrderedMap.set: count incremented when a value was overwritten
run p24 semantic "$S4/p24.diff"     # OrderedMap.set: promotion at 0 children
run p25 semantic "$S4/p25.diff"     # OrderedMap.remove: count not decremented
run p26 semantic "$S4/p26.diff"     # OrderedMap.remove: promotion at 0 children
run p27 semantic "$S4/p27.diff"     # OrderedMap.PopIterate: count not reset
run p28 semantic "$S4/p28.diff"     # OrderedMap.PopIterate: new root size without the elements prefix
run p29 semantic "$S4/p29.diff"     # OrderedMap.PopIterate: stored iff inlined
# ---- hand-made one-token changes ------------------------------------------------------------------------------------
run has-knf semantic "" map.go 's/if errors\.As\(err, &knf\) \{/if !errors.As(err, \&knf) {/'
run get-level semantic "" map.go '0,/level := uint\(0\)/s//level := uint(1)/'
# ---- cosmetic rewrites: everything must still compile ---------------------------------------------------------------
run cos-rename-local cosmetic "" map_metadata_slab.go '/^func \(m \*MapMetaDataSlab\) getChildSlabByDigest\(/,/^}/s/\bchildHeaderIndex\b/chIdx/g'
run cos-flip cosmetic "" map_metadata_slab.go 's/if m\.childrenHeaders\[h\]\.firstKey > hkey \{/if hkey < m.childrenHeaders[h].firstKey {/'
run cos-rename-local2 cosmetic "" map.go 's/\bkeyDigest\b/kd/g'
run cos-extra-local cosmetic "" map.go 's/^\trootID := m\.root\.SlabID\(\)$/\trid := m.root.SlabID()\n\trootID := rid/'
rm -rf "$MUT" "$LEAN" "$(dirname "$BIN")"
