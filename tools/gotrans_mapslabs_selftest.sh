#!/bin/bash
# Negative self-test of the MAP slab-restructuring translation-equivalence obligations (development helper, not part of
# ./check).  Applies one-token mutants of the s3 / s4 sweeps (patches) and a few sed rewrites to a scratch COPY of the Go
# sources, regenerates Gen/TransMapSlabs.lean from the copy INTO A PRIVATE COPY of lean/, and reports which theorems of
# Props/TransMapSlabs*.lean stop compiling; cosmetic rewrites must leave everything green.
# usage: tools/gotrans_mapslabs_selftest.sh [names...]   (never touches /repo or lean/; default: every case below)
set -u
VERIF="$(cd "$(dirname "$0")/.." && pwd)"
REPO="${VERIF_REPO:-/repo}"
S3="${SWEEP_S3:-/tmp/sweep/s3/patches}"
S4="${SWEEP_S4:-/tmp/sweep/s4/patches}"
MUT="/tmp/gotrans-ms-mut-$$"
LEAN="/tmp/gotrans-ms-lean-$$"
export GOFLAGS=-mod=mod GOPROXY=off
BIN="$(mktemp -d)/gotrans"
(cd "$VERIF/harness" && go build -tags verif -o "$BIN" ./cmd/gotrans) || { echo "gotrans does not build"; exit 2; }
MODS="${SELFTEST_MODS:-$(cd "$VERIF/lean/AtreeProofs/Props" && ls TransMapSlabs*.lean | sed 's/\.lean$//; s/^/AtreeProofs.Props./' | tr '\n' ' ')}"
# private copy of lean/: all sources, but only the build products of the import closure of $MODS (a few MB)
rm -rf "$LEAN"; mkdir -p "$LEAN"
(cd "$VERIF/lean" && tar cf - --exclude=.lake . ) | (cd "$LEAN" && tar xf -)
python3 - "$VERIF/lean" "$LEAN" $MODS <<'PY'
import os, re, shutil, sys
src, dst, mods = sys.argv[1], sys.argv[2], sys.argv[3:]
seen = set()
def walk(m):
    if m in seen or not m.startswith(("AtreeModel", "AtreeProofs")): return
    p = os.path.join(src, m.replace(".", "/") + ".lean")
    if not os.path.exists(p): return
    seen.add(m)
    for l in open(p):
        g = re.match(r"\s*import\s+(\S+)", l)
        if g: walk(g.group(1))
for m in mods: walk(m)
for m in seen:
    for sub in ("lib/lean", "ir"):
        d = os.path.join(src, ".lake/build", sub, os.path.dirname(m.replace(".", "/")))
        if not os.path.isdir(d): continue
        base = m.split(".")[-1]
        for f in os.listdir(d):
            if f == base or f.startswith(base + "."):
                t = os.path.join(dst, ".lake/build", sub, os.path.dirname(m.replace(".", "/")))
                os.makedirs(t, exist_ok=True)
                shutil.copy2(os.path.join(d, f), os.path.join(t, f))
for f in ("lake-manifest.json",):
    pass
PY
for f in "$VERIF"/lean/.lake/*; do case "$(basename "$f")" in build) ;; *) cp -r "$f" "$LEAN/.lake/" 2>/dev/null ;; esac; done
GEN="$LEAN/AtreeModel/Gen"
ONLY=" $* "

run() { # name kind patchfile-or-empty [file sed-expression]
  local name="$1" kind="$2" patch="$3" file="${4:-}" expr="${5:-}"
  if [ "$ONLY" != "  " ] && [[ "$ONLY" != *" $name "* ]]; then return; fi
  rm -rf "$MUT"; mkdir -p "$MUT"; cp "$REPO"/*.go "$MUT"/
  if [ -n "$patch" ]; then
    (cd "$MUT" && patch -s -p1 < "$patch") || { echo "[$name] PATCH DID NOT APPLY"; return; }
  fi
  if [ -n "$file" ]; then
    sed -i -E "$expr" "$MUT/$file"
    if cmp -s "$REPO/$file" "$MUT/$file"; then echo "[$name] MUTATION DID NOT APPLY"; return; fi
  fi
  (cd "$MUT" && gofmt -l -e . >/dev/null 2>"$MUT/fmt.err") || { echo "[$name] does not parse: $(head -1 "$MUT/fmt.err")"; return; }
  "$BIN" -repo "$MUT" -out "$GEN" 2>"$MUT/gotrans.err"
  # only the object engine's file is under test: the older generated files (decision layer, storage) stay at baseline,
  # so that the report names the theorems of Props/TransMapSlabs*.lean and not the older ones about the same functions
  cp "$VERIF/lean/AtreeModel/Gen/Trans.lean" "$VERIF/lean/AtreeModel/Gen/TransStorage.lean" "$GEN/"
  local out; out="$(cd "$LEAN" && lake build $MODS 2>&1)"
  local failed; failed="$(echo "$out" | grep -E '^error: AtreeProofs' | sed -E 's/^error: (AtreeProofs[^:]*):([0-9]+).*/\1:\2/' | sort -u | tr '\n' ' ')"
  local thms=""
  for loc in $failed; do
    f="${loc%%:*}"; l="${loc##*:}"
    t="$(head -n "$l" "$LEAN/$f" | grep -E '^(theorem|example|def)' | tail -1 | awk '{print $2}')"
    thms="$thms $t"
  done
  thms="$(echo $thms | tr ' ' '\n' | sort -u | tr '\n' ' ')"
  local res
  if [ -z "$failed" ]; then
    if echo "$out" | grep -q '^error'; then res="BROKEN (generated file does not compile): $(echo "$out" | grep -m1 '^error' | cut -c1-160)"; else res="all theorems compile"; fi
  else res="BROKEN: $thms"; fi
  echo "[$name] ($kind) $(grep 'not translated' "$MUT/gotrans.err" | grep -v -E ': (ArrayDataSlab|ArrayMetaDataSlab|PersistentSlabStorage|BasicSlabStorage|LedgerBaseStorage)\.' | head -2 | cut -c1-200 | tr '\n' ' ')=> $res"
}

run baseline none ""
# ---- one-token mutants of the sweeps (s3: slice_utils.go; s4: the map files) ------------------------------------
run U01 aliasing "$S3/U01.diff"     # split: right = s[leftCount:] (no Clone): right is zeroed by the Delete that follows
run U02 equivalent "$S3/U02.diff"   # split: left = s[:leftCount] (no Delete): same values, tail not cleared -> re-slice rejected
run U03 equivalent "$S3/U03.diff"   # merge: clear(right) dropped: same values
run U04 semantic "$S3/U04.diff"     # lendToRight: inserted at the END of right
run U05 equivalent "$S3/U05.diff"   # borrowFromRight: spare capacity not cleared: same values
run h25 semantic "$S4/h25.diff"     # hkeyElements.Merge: digests merged in the wrong order
run h26 semantic "$S4/h26.diff"     # Merge: right prefix counted twice
run h27 semantic "$S4/h27.diff"     # Split: dataSize includes the prefix
run h29 semantic "$S4/h29.diff"     # Split: leftCount = i
run h31 semantic "$S4/h31.diff"     # Split: right size without prefix
run h32 semantic "$S4/h32.diff"     # LendToRight: size with one prefix
run h35 semantic "$S4/h35.diff"     # LendToRight: right size without prefix
run h36 semantic "$S4/h36.diff"     # LendToRight: loop stops at i > 0
run h38 semantic "$S4/h38.diff"     # BorrowFromRight: right size without prefix
run h44 semantic "$S4/h44.diff"     # firstKey: len > 1
run d14 semantic "$S4/d14.diff"     # MapDataSlab.Split: Count() <= 2
run d15 semantic "$S4/d15.diff"     # Split: right header size with the root prefix
run d16 semantic "$S4/d16.diff"     # Split: right firstKey from the left elements
run d18 semantic "$S4/d18.diff"     # Split: next link not set
run d19 semantic "$S4/d19.diff"     # Merge: header size = sum of the two header sizes
run d20 semantic "$S4/d20.diff"     # Merge: firstKey not updated
run d21 semantic "$S4/d21.diff"     # LendToRight: right header size from the left elements
run d24 semantic "$S4/d24.diff"     # LendToRight: right firstKey not updated
run d26 semantic "$S4/d26.diff"     # BorrowFromRight: left firstKey not updated
run m16 semantic "$S4/m16.diff"     # SplitChildSlab: left header not written
run m17 semantic "$S4/m17.diff"     # SplitChildSlab: size += header size - 2
run m19 semantic "$S4/m19.diff"     # SplitChildSlab: right slab not stored
run m21 semantic "$S4/m21.diff"     # MergeOrRebalance: left sibling only if index > 1
run m22 semantic "$S4/m22.diff"     # leftCanLend asks CanLendToLeft
run m24 semantic "$S4/m24.diff"     # canRebalance := left && right
run m27 semantic "$S4/m27.diff"     # rebalanceChildren: right header not written
run m31 semantic "$S4/m31.diff"     # mergeChildren: size not decreased
run m33 semantic "$S4/m33.diff"     # mergeChildren: parent not stored
run m34 semantic "$S4/m34.diff"     # updateChildrenHeadersAfterMerge: merged header not written
run m35 semantic "$S4/m35.diff"     # MapMetaDataSlab.Merge: headers merged in the wrong order
run m36 semantic "$S4/m36.diff"     # Split: firstKey of the SECOND right child
run m37 semantic "$S4/m37.diff"     # Split: left size without prefix
run m39 semantic "$S4/m39.diff"     # LendToRight: left keeps the larger half
run m40 semantic "$S4/m40.diff"     # LendToRight: left size from the right count
run m46 semantic "$S4/m46.diff"     # LendToRight: moveCount + 1
run y12 semantic "$S4/y12.diff"     # merge with smaller sibling: <=
run promote-prefix semantic "" map.go '/^func \(m \*OrderedMap\) promoteChildAsNewRoot\(/,/^}/s/dataSlab\.header\.size - mapDataSlabPrefixSize \+ mapRootDataSlabPrefixSize/dataSlab.header.size - mapRootDataSlabPrefixSize + mapDataSlabPrefixSize/'   # promoteChildAsNewRoot: prefix adjustment inverted (s4 p19 hits another function)
run p30 semantic "$S4/p30.diff"     # splitRoot: root data slab size not adjusted
run p31 semantic "$S4/p31.diff"     # splitRoot: extra data not removed from the old root
run p32 semantic "$S4/p32.diff"     # splitRoot: new root size for one header
run p33 semantic "$S4/p33.diff"     # splitRoot: firstKey from the right child
run p34 semantic "$S4/p34.diff"     # splitRoot: left not stored
run p36 semantic "$S4/p36.diff"     # promoteChildAsNewRoot: new root not stored
run x26 semantic "$S4/x26.diff"     # MapMetaDataSlab.Split: storage error not wrapped
run x30 semantic "$S4/x30.diff"     # mergeChildren: storage error not wrapped
run n02 semantic "$S4/n02.diff"     # singleElements.Set: element size not recomputed
run n03 semantic "$S4/n03.diff"     # Set: group size from the hkey prefix
run n04 semantic "$S4/n04.diff"     # Set: new element inserted in FRONT
run n05 semantic "$S4/n05.diff"     # Set: size not increased
run n06 semantic "$S4/n06.diff"     # Remove: size not decreased
run n09 semantic "$S4/n09.diff"     # Set: value limit from the VALUE size
run x03 semantic "$S4/x03.diff"     # get: comparator error not wrapped
run x04 semantic "$S4/x04.diff"     # Set: comparator error not wrapped
run x05 semantic "$S4/x05.diff"     # Remove: comparator error not wrapped
run x21 semantic "$S4/x21.diff"     # Set: value.Storable error not wrapped
run x25 semantic "$S4/x25.diff"     # MapDataSlab.Split: storage error not wrapped
run x27 semantic "$S4/x27.diff"     # splitRoot: storage error not wrapped
run x33 semantic "$S4/x33.diff"     # promoteChildAsNewRoot: storage error not wrapped
# ---- hand-made: aliasing ---------------------------------------------------------------------------------------
run alias-slice  untransl "" map_elements_hashkey.go 's/^\te\.hkeys = merge\(e\.hkeys, rElems\.hkeys\)$/\thk := e.hkeys\n\te.hkeys = merge(hk, rElems.hkeys)/'
run alias-object untransl "" map_data_slab.go '/^func \(m \*MapDataSlab\) LendToRight\(/,/^}/s/^\trightSlab\.elements = rightElements$/\tm.elements = rightElements/'
# ---- cosmetic rewrites -----------------------------------------------------------------------------------------
run cosmetic-rename-local cosmetic "" map_elements_hashkey.go '/^func \(e \*hkeyElements\) Split\(/,/^}/s/\bmidPoint\b/mid/g'
run cosmetic-flip-compare cosmetic "" map_elements_hashkey.go '/^func \(e \*hkeyElements\) LendToRight\(/,/^}/s/if e\.level != rightElements\.level \{/if rightElements.level != e.level {/'
run cosmetic-recv-rename  cosmetic "" map_metadata_slab.go '/^func \(m \*MapMetaDataSlab\) Merge\(/,/^}/{s/\(m \*MapMeta/(ms *MapMeta/; s/\bm\./ms./g}'
run cosmetic-extra-local  cosmetic "" map_data_slab.go '/^func \(m \*MapDataSlab\) Merge\(/,/^}/s/^\tm\.next = rightSlab\.next$/\tnx := rightSlab.next\n\tm.next = nx/'

rm -rf "$MUT" "$LEAN"
