#!/bin/bash
# Negative self-test of the ELEMENT-layer translation-equivalence obligations of the maps (WP11; development helper, not part
# of ./check).  Applies one-token mutants of the s4 sweep (patches) and a few sed rewrites to a scratch COPY of the Go
# sources, regenerates Gen/TransMapElems.lean + Gen/TransMapElem.lean from the copy INTO A PRIVATE COPY of lean/, and reports
# which theorems of Props/TransElem*.lean stop compiling; cosmetic rewrites must leave everything green.
# usage: tools/gotrans_mapelems_selftest.sh [names...]   (never touches /repo or lean/; default: every case below)
set -u
VERIF="$(cd "$(dirname "$0")/.." && pwd)"
REPO="${VERIF_REPO:-/repo}"
S3="${SWEEP_S3:-/tmp/sweep/s3/patches}"
S4="${SWEEP_S4:-/tmp/sweep/s4/patches}"
MUT="/tmp/gotrans-me-mut-$$"
LEAN="/tmp/gotrans-me-lean-$$"
export GOFLAGS=-mod=mod GOPROXY=off
BIN="$(mktemp -d)/gotrans"
(cd "$VERIF/harness" && go build -tags verif -o "$BIN" ./cmd/gotrans) || { echo "gotrans does not build"; exit 2; }
MODS="${SELFTEST_MODS:-$(cd "$VERIF/lean/AtreeProofs/Props" && ls TransElem*.lean | sed 's/\.lean$//; s/^/AtreeProofs.Props./' | tr '\n' ' ')}"
# private copy of lean/: all sources, but only the build products of the import closure of $MODS (a few MB)
rm -rf "$LEAN"; mkdir -p "$LEAN"
(cd "$VERIF/lean" && tar cf - --exclude=.lake . ) | (cd "$LEAN" && tar xf -)
python3 - "$VERIF/lean" "$LEAN" $MODS <<'PY'
import os, re, shutil, sys
src, dst, mods = sys.argv[1], sys.argv[2], sys.argv[3:]
seen = set()
def walk(m):
    if m in seen or not m.startswith(("AtreeModel", "AtreeProofs")): return
    p = os.path.join(src, m.replace(".", "/") + ".lean")
    if not os.path.exists(p): return
    seen.add(m)
    for l in open(p):
        g = re.match(r"\s*import\s+(\S+)", l)
        if g: walk(g.group(1))
for m in mods: walk(m)
for m in seen:
    for sub in ("lib/lean", "ir"):
        d = os.path.join(src, ".lake/build", sub, os.path.dirname(m.replace(".", "/")))
        if not os.path.isdir(d): continue
        base = m.split(".")[-1]
        for f in os.listdir(d):
            if f == base or f.startswith(base + "."):
                t = os.path.join(dst, ".lake/build", sub, os.path.dirname(m.replace(".", "/")))
                os.makedirs(t, exist_ok=True)
                shutil.copy2(os.path.join(d, f), os.path.join(t, f))
for f in ("lake-manifest.json",):
    pass
PY
for f in "$VERIF"/lean/.lake/*; do case "$(basename "$f")" in build) ;; *) cp -r "$f" "$LEAN/.lake/" 2>/dev/null ;; esac; done
GEN="$LEAN/AtreeModel/Gen"
ONLY=" $* "

run() { # name kind patchfile-or-empty [file sed-expression]
  local name="$1" kind="$2" patch="$3" file="${4:-}" expr="${5:-}"
  if [ "$ONLY" != "  " ] && [[ "$ONLY" != *" $name "* ]]; then return; fi
  rm -rf "$MUT"; mkdir -p "$MUT"; cp "$REPO"/*.go "$MUT"/
  if [ -n "$patch" ]; then
    (cd "$MUT" && patch -s -p1 < "$patch") || { echo "[$name] PATCH DID NOT APPLY"; return; }
  fi
  if [ -n "$file" ]; then
    sed -i -E "$expr" "$MUT/$file"
    if cmp -s "$REPO/$file" "$MUT/$file"; then echo "[$name] MUTATION DID NOT APPLY"; return; fi
  fi
  (cd "$MUT" && gofmt -l -e . >/dev/null 2>"$MUT/fmt.err") || { echo "[$name] does not parse: $(head -1 "$MUT/fmt.err")"; return; }
  "$BIN" -repo "$MUT" -out "$GEN" 2>"$MUT/gotrans.err"
  # only the object engine's file is under test: the older generated files (decision layer, storage) stay at baseline,
  # so that the report names the theorems of Props/TransMapSlabs*.lean and not the older ones about the same functions
  cp "$VERIF/lean/AtreeModel/Gen/Trans.lean" "$VERIF/lean/AtreeModel/Gen/TransStorage.lean" "$VERIF/lean/AtreeModel/Gen/TransMapSlabs.lean" "$VERIF/lean/AtreeModel/Gen/TransSlabs.lean" "$GEN/"
  local out; out="$(cd "$LEAN" && lake build $MODS 2>&1)"
  local failed; failed="$(echo "$out" | grep -E '^error: AtreeProofs' | sed -E 's/^error: (AtreeProofs[^:]*):([0-9]+).*/\1:\2/' | sort -u | tr '\n' ' ')"
  local thms=""
  for loc in $failed; do
    f="${loc%%:*}"; l="${loc##*:}"
    t="$(head -n "$l" "$LEAN/$f" | grep -E '^(theorem|example|def)' | tail -1 | awk '{print $2}')"
    thms="$thms $t"
  done
  thms="$(echo $thms | tr ' ' '\n' | sort -u | tr '\n' ' ')"
  local res
  if [ -z "$failed" ]; then
    if echo "$out" | grep -q '^error'; then res="BROKEN (generated file does not compile): $(echo "$out" | grep -m1 '^error' | cut -c1-160)"; else res="all theorems compile"; fi
  else res="BROKEN: $thms"; fi
  echo "[$name] ($kind) $(grep 'not translated' "$MUT/gotrans.err" | grep -v -E ': (ArrayDataSlab|ArrayMetaDataSlab|PersistentSlabStorage|BasicSlabStorage|LedgerBaseStorage)\.' | head -2 | cut -c1-200 | tr '\n' ' ')=> $res"
}

run baseline none ""
# ---- one-token mutants of the s4 sweep ---------------------------------------------------------------------------
run h02 semantic "$S4/h02.diff"     # hkeyElements.Set (first element): size without the digest
run h03 semantic "$S4/h03.diff"     # Set: prepend when hkey <= first
run h04 semantic "$S4/h04.diff"     # Set (prepend): size without the digest
run h05 semantic "$S4/h05.diff"     # Set: append when hkey >= last
run h06 semantic "$S4/h06.diff"     # Set: lessThanIndex not recorded
run h07 semantic "$S4/h07.diff"     # Set: binary search >=
run h08 semantic "$S4/h08.diff"     # Set: collision limit enforced at level 1
run h09 semantic "$S4/h09.diff"     # Set: collisionCount = elementCount
run h10 semantic "$S4/h10.diff"     # Set: collisionCount > limit
run h11 semantic "$S4/h11.diff"     # Set: KeyNotFoundError instead of CollisionLimitError
run h12 semantic "$S4/h12.diff"     # Set: updated element not written back
run h13 semantic "$S4/h13.diff"     # Set: recomputed size without the digests
run h14 semantic "$S4/h14.diff"     # Set: digest inserted at lessThanIndex+1
run h15 semantic "$S4/h15.diff"     # Set (insert): size without the digest
run h16 semantic "$S4/h16.diff"     # Remove: pre-check hkey <= first
run h17 semantic "$S4/h17.diff"     # Remove: pre-check hkey >= last
run h18 semantic "$S4/h18.diff"     # Remove: digest not deleted
run h19 semantic "$S4/h19.diff"     # Remove: size without the digest
run h20 semantic "$S4/h20.diff"     # Remove: updated element not written back
run h21 semantic "$S4/h21.diff"     # Remove: size diff inverted
run e05 semantic "$S4/e05.diff"     # singleElement.Set: value limit from the VALUE size
run e06 semantic "$S4/e06.diff"     # singleElement.Set: size not recomputed
run e07 semantic "$S4/e07.diff"     # singleElement.Set: level+2 == Levels
run e08 semantic "$S4/e08.diff"     # singleElement.Set: singleElements group at level (not level+1)
run e09 semantic "$S4/e09.diff"     # singleElement.Set: resident key re-hashed at level (not level+1)
run e10 semantic "$S4/e10.diff"     # singleElement.Set: hkeyElements group at level (not level+1)
run e12 semantic "$S4/e12.diff"     # group: level >= Levels
run e13 semantic "$S4/e13.diff"     # group: level >= Levels (another method)
run e14 semantic "$S4/e14.diff"     # export: slab size with the ROOT prefix
run e15 semantic "$S4/e15.diff"     # export: firstKey not set
run e16 semantic "$S4/e16.diff"     # export: slab not stored
run e17 semantic "$S4/e17.diff"     # export: external group size without its prefix
run e18 semantic "$S4/e18.diff"     # inlineCollisionGroup.Size without its prefix
run e19 semantic "$S4/e19.diff"     # group: level not incremented
run e20 semantic "$S4/e20.diff"     # group: level not incremented (another method)
run e21 semantic "$S4/e21.diff"     # inline Remove: collapse when Count() <= 2
run e22 semantic "$S4/e22.diff"     # export decision on the elements size (without the group prefix)
run d06 semantic "$S4/d06.diff"     # MapDataSlab.Set: firstKey not updated
run d07 semantic "$S4/d07.diff"     # MapDataSlab.Set: size with the non-root prefix always
run d08 semantic "$S4/d08.diff"     # MapDataSlab.Set: slab not stored
run d09 semantic "$S4/d09.diff"     # MapDataSlab.Remove: firstKey not updated
run d10 semantic "$S4/d10.diff"     # MapDataSlab.Remove: size with the root prefix always
run d11 semantic "$S4/d11.diff"     # MapDataSlab.Remove: slab not stored
run x01 semantic "$S4/x01.diff"     # singleElement.Get: comparator error not wrapped
run x02 semantic "$S4/x02.diff"     # singleElement.Remove: comparator error not wrapped
run x06 semantic "$S4/x06.diff"     # externalCollisionGroup.Remove: Retrieve error not wrapped
run x07 semantic "$S4/x07.diff"     # singleElement.Set: DigesterBuilder error not wrapped
run x08 semantic "$S4/x08.diff"     # singleElement.Set: Digest error not wrapped
run x20 semantic "$S4/x20.diff"     # singleElement.Set: value.Storable error not wrapped
run x22 semantic "$S4/x22.diff"     # singleElement.Set: StoredValue error not wrapped
# ---- hand-made ----------------------------------------------------------------------------------------------------
run swallow semantic "" map_elements_hashkey.go '/^func \(e \*hkeyElements\) Set\(/,/^}/s/^\t\t\t\t\tif errors\.As\(err, &knfe\) \{$/\t\t\t\t\tif !errors.As(err, \&knfe) {/'   # collision-limit probe: limit error for every OTHER probe error
run ext-collapse semantic "" map_element.go '/^func \(e \*externalCollisionGroup\) Remove\(/,/^}/s/^\tif dataSlab\.Count\(\) == 1 \{$/\tif dataSlab.Count() == 0 {/'   # external Remove: collapse test on an empty group
run ext-noremove semantic "" map_element.go '/^func \(e \*externalCollisionGroup\) Remove\(/,/^}/s/^\t\t\t\terr := storage\.Remove\(e\.slabID\)$/\t\t\t\tvar err error/'   # external Remove: the external slab is not removed (untranslatable: `var err error` is fine, effect missing)
# ---- cosmetic rewrites: everything must stay green ----------------------------------------------------------------
run cos-rename-local cosmetic "" map_elements_hashkey.go '/^func \(e \*hkeyElements\) Remove\(/,/^}/s/oldElemSize/prevSize/g'
run cos-flip-cmp cosmetic "" map_elements_hashkey.go '/^func \(e \*hkeyElements\) Set\(/,/^}/s/^\tif hkey < e\.hkeys\[0\] \{$/\tif e.hkeys[0] > hkey {/'
run cos-rename-recv cosmetic "" map_data_slab.go '/^func \(m \*MapDataSlab\) Remove\(/,/^}/{s/\bm\./md./g;s/\(m \*MapDataSlab\)/(md *MapDataSlab)/;s/storeSlab\(storage, m\)/storeSlab(storage, md)/}'
run cos-extra-local cosmetic "" map_element.go '/^func \(e \*singleElement\) Get\(/,/^}/s/^\tif equal \{$/\tfound := equal\n\tif found {/'
rm -rf "$MUT" "$LEAN" "$(dirname "$BIN")"
