#!/usr/bin/env python3
"""Applies the WP3 (slabid) registration patches to a verif tree (idempotent):
   lean/AtreeModel.lean, lean/AtreeProofs.lean (library roots), lean/obligations.json (modules + theorem names;
   statements are pinned afterwards with `./check --record-statements`), checklib.py (stream `slabid`).
   lean/Driver.lean is patched by hand (see INTEGRATION-slabid.md section 2).
   usage: tools/integrate_slabid.py [verif-root]"""
import json
import os
import re
import sys

ROOT = os.path.abspath(sys.argv[1] if len(sys.argv) > 1 else os.path.join(os.path.dirname(__file__), ".."))

NS = "Atree.SlabIdB."
MOD_ID = "AtreeProofs.Props.SlabId"
MOD_ST = "AtreeProofs.Props.SlabIdStorages"
MOD_TIE = "AtreeProofs.Props.SlabIdStoragesTie"

REG = {
    "C04": ([MOD_ID], ["compare_eq_numeric", "compare_strict_total", "compare_antisymm", "sortedKeysLess_eq_lt",
                       "sortedKeysLess_iff_compare", "sortedOwnedKeysB_toModel", "sortedOwnedKeysB_sorted",
                       "compare_eq_raw_bytesCompare", "toModel_injective", "toModel_ofModel"]),
    "C10": ([MOD_ID], ["valueID_is_raw_bytes", "valueID_equal_iff", "slabIDToValueID_injective",
                       "valueID_to_slabID", "valueID_toStr"]),
    "C15": ([MOD_ID, MOD_ST, MOD_TIE],
            ["register_injective", "ledgerKey_shape", "ledgerKey_injective", "ledgerKeyIsSlabKey_iff",
             "ledgerKeyIsSlabKey_not_exact", "lbs_step_refines", "lbs_store_empty_is_remove",
             "lbs_retrieve_after_store", "mapLedger_isMapLedger", "keepEmpty_unobservable", "valueExists_tells",
             "inmem_step_refines", "inmem_keys_nodup", "inmem_and_ledger_differ_on_empty",
             "basic_step_refines", "basic_count", "iter_nexts_spec", "iter_visits_all", "drain_complete",
             "drain_truncated", "encoded_nonempty_of_roundTrip", "real_codec_register_nonempty"]),
    "C03": ([MOD_ID, MOD_ST, MOD_TIE],
            ["register_injective", "lbs_step_refines", "real_codec_register_nonempty",
             "hasTempAddress_iff", "toModel_undef_iff", "store_guard_weaker_than_valid"]),
    "C09": ([MOD_ID, MOD_ST],
            ["next_numeric", "next_numeric_of_lt", "next_injective", "next_ne_self", "next_wraps",
             "tempGenerate_numeric", "tempGenerate_eq_next", "genNext_spec", "genNext_wraps",
             "basic_generated_ids_fresh", "lbs_generate_mapLedger", "valid_iff"]),
    "C07": ([MOD_ID], ["raw_roundtrip", "raw_roundtrip'", "toRawBytes_error_iff", "newSlabIDFromRawBytes_error_iff",
                       "newSlabIDFromRawBytes_ignores_tail", "storableEncode_eq", "storableByteSize_eq",
                       "storableDecode_spec", "codec_encodeSlabID_eq"]),
}
STREAM_PROPS = ["C04", "C15", "C03", "C09", "C10"]


def patch_roots():
    for fn, mods in (("AtreeModel.lean", ["AtreeModel.SlabIdBytes", "AtreeModel.SlabIdStorages", "AtreeModel.Replay.SlabId"]),
                     ("AtreeProofs.lean", ["AtreeProofs.SlabIdBytes", "AtreeProofs.SlabIdStorages", MOD_ID, MOD_ST, MOD_TIE])):
        p = os.path.join(ROOT, "lean", fn)
        s = open(p).read()
        add = [m for m in mods if ("import " + m + "\n") not in s]
        if add:
            # imports must precede everything else: append after the last import line
            lines = s.split("\n")
            last = max(i for i, l in enumerate(lines) if l.startswith("import "))
            lines[last + 1:last + 1] = ["import " + m for m in add]
            open(p, "w").write("\n".join(lines))
            print("patched", fn, add)


def patch_obligations():
    p = os.path.join(ROOT, "lean", "obligations.json")
    ob = json.load(open(p))
    for prop, (mods, names) in REG.items():
        e = ob[prop]
        for m in mods:
            if m not in e["modules"]:
                e["modules"].append(m)
        for n in names:
            if NS + n not in e["theorems"]:
                e["theorems"].append(NS + n)
    json.dump(ob, open(p, "w"), indent=1, sort_keys=True)
    print("patched obligations.json (run ./check --record-statements to pin the statements)")


def patch_checklib():
    p = os.path.join(ROOT, "checklib.py")
    s = open(p).read()
    for prop in STREAM_PROPS:
        m = re.search(r'"%s": \{\s*\n\s*"streams": \[([^\]]*)\], "driver": \{([^}]*)\}' % prop, s)
        if not m:
            raise SystemExit("checklib.py: entry of %s not found" % prop)
        if '"slabid"' in m.group(1):
            continue
        new = m.group(0).replace('"streams": [' + m.group(1) + ']', '"streams": [' + m.group(1) + ', "slabid"]')
        new = new.replace('"driver": {' + m.group(2) + '}', '"driver": {' + m.group(2) + ', "slabid": "slabid"}')
        s = s.replace(m.group(0), new)
        print("patched checklib.py", prop)
    open(p, "w").write(s)


if __name__ == "__main__":
    patch_roots()
    patch_obligations()
    patch_checklib()
