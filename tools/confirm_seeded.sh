#!/bin/bash
# usage: tools/confirm_seeded.sh <dir with patch.diff + demo_test.go> <TestName>
# Confirms in a fresh scratch worktree: demo passes without the patch, patch applies and builds,
# demo fails with it, the full existing suite passes with it.  Prints a one-line JSON summary.
set -u
SRC="$(readlink -f "$1")"; TEST="$2"
export GOFLAGS=-mod=mod GOPROXY=off
WT=/tmp/confirm-$$
git -C /repo worktree add -q --detach "$WT" HEAD || exit 2
cp "$SRC/demo_test.go" "$WT/zz_demo_seeded_test.go"
cd "$WT"
go test -vet=off -count=1 -run "^${TEST}\$" . >/tmp/confirm-$$.a 2>&1; A=$?
git apply "$SRC/patch.diff"; AP=$?
go build ./... ; B=$?
go test -vet=off -count=1 -run "^${TEST}\$" . >/tmp/confirm-$$.b 2>&1; C=$?
mv zz_demo_seeded_test.go /tmp/confirm-$$.demo
go test -vet=off -count=1 -timeout 25m ./... >/tmp/confirm-$$.c 2>&1; D=$?
echo "{\"demo_without_patch_exit\":$A,\"apply_exit\":$AP,\"build_exit\":$B,\"demo_with_patch_exit\":$C,\"full_suite_with_patch_exit\":$D,\"suite_tail\":\"$(tail -3 /tmp/confirm-$$.c | tr '\n\t\"' '  _' | cut -c1-200)\"}"
cd /; git -C /repo worktree remove --force "$WT"; rm -f /tmp/confirm-$$.*
