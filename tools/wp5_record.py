#!/usr/bin/env python3
"""Pins the statements of the theorems of the given properties (default: those WP5 touched) in
lean/obligations.json, using check's own audit(record=True).  Run from the verif root."""
import importlib.machinery, importlib.util, os, sys
ROOT = os.path.dirname(os.path.dirname(os.path.abspath(__file__)))
loader = importlib.machinery.SourceFileLoader("check_mod", os.path.join(ROOT, "check"))
spec = importlib.util.spec_from_loader("check_mod", loader)
chk = importlib.util.module_from_spec(spec)
loader.exec_module(chk)
props = sys.argv[1:] or ["C02", "C03", "C04", "C12", "C16", "C17"]
for p in props:
    r = chk.audit(p, record=True)
    print(p, r["discharged"], "/", r["obligations"], r["failures"])
