#!/bin/bash
# usage: tools/mutstream.sh <patch.py|patch.diff> <streams> [seed]   -- run harness streams (impl oracles only) against a mutant
P="$(readlink -f "$1")"; S="$2"; SEED="${3:-1}"
D=/tmp/atree-mut-$$; rm -rf "$D"; cp -r /repo "$D"
if [[ "$P" == *.py ]]; then (cd "$D" && python3 "$P") || { rm -rf "$D"; exit 2; }; else (cd "$D" && git apply "$P") || { rm -rf "$D"; exit 2; }; fi
H=/tmp/h-mut-$$; rm -rf "$H"; cp -r /verif/harness "$H"; rm -rf "$H/bin"
sed -i "s#replace github.com/onflow/atree => .*#replace github.com/onflow/atree => $D#" "$H/go.mod"
(cd "$H" && GOFLAGS=-mod=mod GOPROXY=off go build -tags verif -o "$H/trace" ./cmd/trace) || { echo "build failed"; rm -rf "$D" "$H"; exit 2; }
"$H/trace" -streams "$S" -seed "$SEED" -out "$H/out" | python3 -c "
import sys,json
for l in sys.stdin:
    if l.startswith('STATS '):
        d=json.loads(l[6:]); vs=d['violations'] or []
        print(d['stream'],'programs',d['programs'],'violations',len(vs), d.get('harness_error') or '')
        for v in vs[:3]: print('   ',v['property'],v['what'][:260])
"
rm -rf "$D" "$H"
