#!/usr/bin/env python3
"""WP5 'digester': registers the digester stream and the Atree.Dig theorems under C02, C04, C12, C16
(and the seed theorems under C03 / C17).  Idempotent.  Run from the verif root:  python3 tools/wp5_register.py
Afterwards pin the new statements with tools/wp5_record.py (or ./check --record-statements)."""
import json, os, re, sys

ROOT = os.path.dirname(os.path.dirname(os.path.abspath(__file__)))

THEOREMS = {
    "C04": (["AtreeProofs.Props.Digester", "AtreeProofs.Props.DigesterSeed", "AtreeProofs.Props.DigesterHeap", "AtreeProofs.Props.DigesterGen"], [
        "Atree.Dig.digest_is_function_of_input",
        "Atree.Dig.same_input_same_digests",
        "Atree.Dig.reset_restores_fresh",
        "Atree.Dig.pool_invariant",
        "Atree.Dig.reset_indistinguishable",
        "Atree.Dig.pooled_history_refines_spec",
        "Atree.Dig.every_pooled_object_is_fresh",
        "Atree.Dig.bad_reset_leaks_previous_digest",
        "Atree.Dig.bad_reset_wrong_digest",
        "Atree.Dig.good_reset_right_digest",
        "Atree.Dig.scratch_reading_hip_sees_previous_user",
        "Atree.Dig.disciplined_history_refines_spec",
        "Atree.Dig.seed_is_function_of_id",
        "Atree.Dig.seedArgs_injective",
        "Atree.Dig.seeds_differ_for_injective_hash",
        "Atree.Dig.omap_new_seed",
        "Atree.Dig.shared_builder_breaks_first_map",
        "Atree.Dig.zero_seed_map_unusable",
        "Atree.Dig.levels_eq_extracted",
    ]),
    "C16": (["AtreeProofs.Props.Digester", "AtreeProofs.Props.DigesterHeap"], [
        "Atree.Dig.pool_invariant",
        "Atree.Dig.pooled_history_refines_spec",
        "Atree.Dig.every_pooled_object_is_fresh",
        "Atree.Dig.disciplined_history_refines_spec",
        "Atree.Dig.use_after_put_corrupts_next_holder",
        "Atree.Dig.double_put_shares_object",
    ]),
    "C02": (["AtreeProofs.Props.Digester", "AtreeProofs.Props.DigesterMap"], [
        "Atree.Dig.real_digester_instantiates_digestFn",
        "Atree.Dig.digests_respect_equality",
        "Atree.Dig.specDigester_value_is_digestFn",
        "Atree.Dig.toNat_faithful",
        "Atree.Dig.digestPrefix_eq_map_digest",
        "Atree.Dig.digest_level_out_of_range_error",
        "Atree.Dig.digestPrefix_level_out_of_range_error",
        "Atree.Dig.levels_eq_4",
    ]),
    "C12": (["AtreeProofs.Props.Digester", "AtreeProofs.Props.DigesterMap"], [
        "Atree.Dig.real_digester_instantiates_digestFn",
        "Atree.Dig.digest_level_out_of_range_error",
        "Atree.Dig.levels_eq_4",
    ]),
    "C17": (["AtreeProofs.Props.DigesterSeed"], [
        "Atree.Dig.copy_uses_source_seed",
        "Atree.Dig.batch_uses_given_seed",
        "Atree.Dig.other_handles_unaffected",
    ]),
    "C03": (["AtreeProofs.Props.DigesterSeed"], [
        "Atree.Dig.reload_uses_stored_seed",
        "Atree.Dig.storedValue_seed",
    ]),
}

STREAM_PROPS = ["C02", "C04", "C12", "C16"]

RULE = ("; digester: ~700 builds through NewDefaultDigesterBuilder/SetSeed/Digest(hip, v) per run, Digest/DigestPrefix/Reset/"
        "Levels at random levels (repeated, out of range, 2^64-1), the process-wide pool churned through OrderedMap operations with a "
        "colliding hash input (1-4 digesters per operation) and object identity observed through the scratch buffer, every "
        "constructor that seeds a builder (private and shared builder objects), goroutines hammering the pool")
EXPL = (" Digester (hash.go): theorems Atree.Dig.* - every digest is spec(k0, msg, level) whatever object, cache state, call order "
        "or pool history (pooled_history_refines_spec, disciplined_history_refines_spec), Reset = fresh up to scratch, the pool invariant, "
        "negative theorems (a Reset that forgets the BLAKE3 cache, use after put, double put, a scratch-reading provider, a shared builder); "
        "tie: digester stream replayed on the model with the directly called hash functions as oracle tables.")
ASSUME = ("digester model: CircleHash64 / BLAKE3 / Hash64Uint64x2 are uninterpreted parameters (the harness calls the libraries directly and "
          "hands the results to the model as oracle tables); caller contracts: the HashInputProvider does not read the scratch buffer it is "
          "handed (Reset does not clear it) and is a function of the key; one DigesterBuilder object per map")


def patch_checklib():
    p = os.path.join(ROOT, "checklib.py")
    s = open(p).read()
    if '"digester"' in s:
        print("checklib.py: already registered")
        return
    if "DIGESTER_ASSUME" not in s:
        s = s.replace("PROPS = {", "DIGESTER_ASSUME = [\n    %r,\n]\n\nPROPS = {" % ASSUME, 1)
    for prop in STREAM_PROPS:
        m = re.search(r'    "%s": \{\n(.*?)\n    \},\n' % prop, s, re.S)
        if not m:
            sys.exit("checklib.py: entry %s not found" % prop)
        body = m.group(1)
        new = re.sub(r'"streams": \[([^\]]*)\]', lambda mm: '"streams": [%s, "digester"]' % mm.group(1), body, 1)
        new = re.sub(r'"driver": \{([^}]*)\}', lambda mm: '"driver": {%s, "digester": "digester"}' % mm.group(1), new, 1)
        if prop == "C16":
            new = re.sub(r'"race": \[([^\]]*)\]', lambda mm: '"race": [%s, "digester"]' % mm.group(1), new, 1)
        # assumptions: append DIGESTER_ASSUME to the expression
        new = re.sub(r'"assumptions": ', '"assumptions": DIGESTER_ASSUME + ', new, 1)
        new = re.sub(r'("rule": ".*?)(",\n)', lambda mm: mm.group(1) + RULE.replace('"', "'") + mm.group(2), new, 1, flags=re.S)
        new = re.sub(r'("explanation": ".*?)(",?\n?)$', lambda mm: mm.group(1) + EXPL.replace('"', "'") + mm.group(2), new, 1, flags=re.S)
        s = s.replace(body, new, 1)
    open(p, "w").write(s)
    print("checklib.py: digester stream registered under", ", ".join(STREAM_PROPS))


def patch_obligations():
    p = os.path.join(ROOT, "lean", "obligations.json")
    ob = json.load(open(p))
    for prop, (mods, names) in THEOREMS.items():
        e = ob[prop]
        for m in mods:
            if m not in e["modules"]:
                e["modules"].append(m)
        for n in names:
            if n not in e["theorems"]:
                e["theorems"].append(n)
    json.dump(ob, open(p, "w"), indent=1, sort_keys=True)
    print("obligations.json: theorems added under", ", ".join(sorted(THEOREMS)))


if __name__ == "__main__":
    patch_checklib()
    patch_obligations()
