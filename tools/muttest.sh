#!/bin/bash
# usage: tools/muttest.sh <patch-or-python-script> <Cxx> [Cyy ...]
# Applies a change to a scratch copy of /repo under /tmp, runs the named checks against it
# (VERIF_REPO), prints one line per check and removes the copy.  Development helper only.
set -u
P="$(readlink -f "$1")"; shift
V="$(cd "$(dirname "$(readlink -f "$0")")/.." && pwd)"   # the verification tree this script lives in
D=/tmp/atree-mut-$$
rm -rf "$D"; cp -r /repo "$D"
if [[ "$P" == *.py ]]; then (cd "$D" && python3 "$P") || { echo "patch script failed"; rm -rf "$D"; exit 2; }
else (cd "$D" && git apply "$P") || { echo "git apply failed"; rm -rf "$D"; exit 2; }; fi
(cd "$D" && GOFLAGS=-mod=mod GOPROXY=off go build ./... ) || { echo "mutant does not build"; rm -rf "$D"; exit 2; }
# private copies of the Lean package and work dir: regenerated constants of the mutant must not
# leak into checks that run concurrently against /repo
L=/tmp/lean-mut-$$; rm -rf "$L"; cp -r "$V/lean" "$L"
for c in "$@"; do
  out=$(cd "$V" && VERIF_REPO="$D" VERIF_LEAN="$L" VERIF_WORK="/tmp/work-mut-$$" VERIF_BINTAG="mut-$$-$c" ./check "$c" 2>&1 | grep -E "^VIOLATION|ok \(|MACHINERY" | head -3 | tr '\n' ' ')
  echo "$c: $out"
  for r in /tmp/work-mut-$$/replays/$c-*.json; do
    [ -f "$r" ] && python3 "$V/tools/showreplay.py" "$r"
  done
done
rm -rf "$D" "$L" /tmp/work-mut-$$
rm -rf "$V"/harness/bin/mut-$$-*
