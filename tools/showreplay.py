#!/usr/bin/env python3
"""usage: tools/showreplay.py <replay.json>  -- one-paragraph summary of a replay file"""
import json, sys
d = json.load(open(sys.argv[1]))
v = (d.get('violations') or [{}])[0]
print("    ->", (v.get('what') or str(d.get('no_longer_checks') or d.get('broken'))[:300])[:400])
h = v.get('failing_history')
if h:
    print("    history: %d lines (trace %s); last: %s" % (h['history_lines'], h['trace_lines'], h['history'][-2:]))
