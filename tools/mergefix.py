#!/usr/bin/env python3
"""Resolve the two routinely conflicting files of a fixer merge:
   lean/AtreeProofs.lean, lean/AtreeModel.lean (union of import lines) and lean/obligations.json
   (ours + what theirs added or changed relative to the merge base, per property)."""
import json, subprocess, sys

def show(stage, path):
    return subprocess.run(["git", "show", ":%d:%s" % (stage, path)], capture_output=True, text=True).stdout

def conflicted():
    out = subprocess.run(["git", "diff", "--name-only", "--diff-filter=U"], capture_output=True, text=True).stdout
    return out.split()

for path in conflicted():
    if path in ("lean/AtreeProofs.lean", "lean/AtreeModel.lean"):
        ours, theirs = show(2, path), show(3, path)
        lines = ours.rstrip("\n").split("\n")
        have = set(lines)
        add = [l for l in theirs.split("\n") if l.startswith("import ") and l not in have]
        last = max(i for i, l in enumerate(lines) if l.startswith("import "))
        lines[last + 1:last + 1] = add
        open(path, "w").write("\n".join(lines) + "\n")
    elif path == "lean/obligations.json":
        base, ours, theirs = (json.loads(show(i, path)) for i in (1, 2, 3))
        for p, te in theirs.items():
            be, oe = base.get(p, {}), ours.setdefault(p, {"modules": [], "theorems": [], "statements": {}})
            for key in ("modules", "theorems"):
                for x in te.get(key, []):
                    if x not in be.get(key, []) and x not in oe[key]:
                        oe[key].append(x)
            for n, st in te.get("statements", {}).items():
                if be.get("statements", {}).get(n) != st:
                    oe.setdefault("statements", {})[n] = st
            # other keys the fixer may have changed
            for k, v in te.items():
                if k not in ("modules", "theorems", "statements") and be.get(k) != v:
                    oe[k] = v
        json.dump(ours, open(path, "w"), indent=1, sort_keys=True)
    else:
        print("UNRESOLVED", path)
        continue
    subprocess.run(["git", "add", path])
    print("resolved", path)
