#!/bin/bash
# usage: tools/round3.sh <Cxx> <TestName> [other checks...]
# Takes /tmp/wt3-<Cxx>/SEED (sub-agent deliverable), confirms it in a fresh worktree, runs the property's check
# (seed 1 and seed 7) and optional neighbouring checks against a scratch copy with the patch applied.
set -u
P=$1; T=$2; shift 2
O=/tmp/r3out/$P; mkdir -p $O
S=/tmp/wt3-$P/SEED; [ -d $S ] || S=/tmp/wt3-$P/_SEED
cp $S/patch.diff $S/demo_test.go $O/ ; cp $S/notes.md $O/ 2>/dev/null
/verif/tools/confirm_seeded.sh $O $T > $O/confirm.json 2>$O/confirm.err
cat $O/confirm.json
for sd in 1 7; do
  echo "-- seed $sd"; VERIF_SEED=$sd /verif/tools/muttest.sh $O/patch.diff $P "$@" 2>&1 | cut -c1-400
done
