#!/bin/bash
# Negative self-test of the DESCENT translation-equivalence obligations of the array code (WP12; development helper, not
# part of ./check).  Applies one-token mutants of the s3 sweep (patches) and a few sed rewrites to a scratch COPY of the Go
# sources, regenerates Gen/TransSlabs.lean from the copy INTO A PRIVATE COPY of lean/ (import closure only), and reports
# which theorems of Props/TransDescent*.lean stop compiling; cosmetic rewrites must leave everything green.
# usage: tools/gotrans_descent_selftest.sh [names...]   (never touches /repo or lean/; default: every case below)
set -u
VERIF="$(cd "$(dirname "$0")/.." && pwd)"
REPO="${VERIF_REPO:-/repo}"
S3="${SWEEP_S3:-/tmp/sweep/s3/patches}"
S4="${SWEEP_S4:-/tmp/sweep/s4/patches}"
MUT="/tmp/gotrans-ds-mut-$$"
LEAN="/tmp/gotrans-ds-lean-$$"
export GOFLAGS=-mod=mod GOPROXY=off
BIN="$(mktemp -d)/gotrans"
(cd "$VERIF/harness" && go build -tags verif -o "$BIN" ./cmd/gotrans) || { echo "gotrans does not build"; exit 2; }
MODS="${SELFTEST_MODS:-$(cd "$VERIF/lean/AtreeProofs/Props" && ls TransDescent*.lean | sed 's/\.lean$//; s/^/AtreeProofs.Props./' | tr '\n' ' ')}"
# private copy of lean/: all sources, but only the build products of the import closure of $MODS (a few MB)
rm -rf "$LEAN"; mkdir -p "$LEAN"
(cd "$VERIF/lean" && tar cf - --exclude=.lake . ) | (cd "$LEAN" && tar xf -)
python3 - "$VERIF/lean" "$LEAN" $MODS <<'PY'
import os, re, shutil, sys
src, dst, mods = sys.argv[1], sys.argv[2], sys.argv[3:]
seen = set()
def walk(m):
    if m in seen or not m.startswith(("AtreeModel", "AtreeProofs")): return
    p = os.path.join(src, m.replace(".", "/") + ".lean")
    if not os.path.exists(p): return
    seen.add(m)
    for l in open(p):
        g = re.match(r"\s*import\s+(\S+)", l)
        if g: walk(g.group(1))
for m in mods: walk(m)
for m in seen:
    for sub in ("lib/lean", "ir"):
        d = os.path.join(src, ".lake/build", sub, os.path.dirname(m.replace(".", "/")))
        if not os.path.isdir(d): continue
        base = m.split(".")[-1]
        for f in os.listdir(d):
            if f == base or f.startswith(base + "."):
                t = os.path.join(dst, ".lake/build", sub, os.path.dirname(m.replace(".", "/")))
                os.makedirs(t, exist_ok=True)
                shutil.copy2(os.path.join(d, f), os.path.join(t, f))
for f in ("lake-manifest.json",):
    pass
PY
for f in "$VERIF"/lean/.lake/*; do case "$(basename "$f")" in build) ;; *) cp -r "$f" "$LEAN/.lake/" 2>/dev/null ;; esac; done
GEN="$LEAN/AtreeModel/Gen"
ONLY=" $* "

run() { # name kind patchfile-or-empty [file sed-expression]
  local name="$1" kind="$2" patch="$3" file="${4:-}" expr="${5:-}"
  if [ "$ONLY" != "  " ] && [[ "$ONLY" != *" $name "* ]]; then return; fi
  rm -rf "$MUT"; mkdir -p "$MUT"; cp "$REPO"/*.go "$MUT"/
  if [ -n "$patch" ]; then
    (cd "$MUT" && patch -s -p1 < "$patch") || { echo "[$name] PATCH DID NOT APPLY"; return; }
  fi
  if [ -n "$file" ]; then
    sed -i -E "$expr" "$MUT/$file"
    if cmp -s "$REPO/$file" "$MUT/$file"; then echo "[$name] MUTATION DID NOT APPLY"; return; fi
  fi
  (cd "$MUT" && gofmt -e array_data_slab.go array_metadata_slab.go array.go slice_utils.go >/dev/null 2>"$MUT/fmt.err") || { echo "[$name] does not parse: $(head -1 "$MUT/fmt.err")"; return; }
  "$BIN" -repo "$MUT" -out "$GEN" 2>"$MUT/gotrans.err"
  # only the slab engine's file is under test: the other generated files stay at baseline (childSlabIndexInfo is a
  # parameter here, instantiated with the stateless engine's translation: its mutants are reported by Props/TransLoops)
  cp "$VERIF/lean/AtreeModel/Gen/Trans.lean" "$VERIF/lean/AtreeModel/Gen/TransStorage.lean" "$VERIF/lean/AtreeModel/Gen/TransMapSlabs.lean" "$GEN/"
  local out; out="$(cd "$LEAN" && lake build $MODS 2>&1)"
  local failed; failed="$(echo "$out" | grep -E '^error: AtreeProofs' | sed -E 's/^error: (AtreeProofs[^:]*):([0-9]+).*/\1:\2/' | sort -u | tr '\n' ' ')"
  local thms=""
  for loc in $failed; do
    f="${loc%%:*}"; l="${loc##*:}"
    t="$(head -n "$l" "$LEAN/$f" | grep -E '^(theorem|example|def|private theorem)' | tail -1 | sed -E 's/^private //' | awk '{print $2}')"
    [ "$t" = ":" ] && t="example@$(basename "$f" .lean):$l"
    thms="$thms $t"
  done
  thms="$(echo $thms | tr ' ' '\n' | sort -u | head -8 | tr '\n' ' ')"
  local res
  if [ -z "$failed" ]; then
    if echo "$out" | grep -q '^error'; then res="BUILD ERROR: $(echo "$out" | grep '^error' | head -2 | tr '\n' ' ')"; else res="all theorems compile"; fi
  else res="BROKEN: $thms"; fi
  echo "[$name] ($kind) $(grep 'not translated' "$MUT/gotrans.err" | head -2 | cut -c1-160 | tr '\n' ' ')=> $res"
}

run baseline none ""
# the s3 sweep (arrays as B+trees): every mutant inside the translated descent functions
run M02 semantic "$S3/M02.diff"   # ArrayMetaDataSlab.Set: header refresh dropped
run M03 semantic "$S3/M03.diff"   # ArrayMetaDataSlab.Set: store of the parent dropped
run M04 semantic "$S3/M04.diff"   # ArrayMetaDataSlab.Insert: count++ dropped
run M05 semantic "$S3/M05.diff"   # ArrayMetaDataSlab.Insert: count-sum loop off by one
run M06 semantic "$S3/M06.diff"   # ArrayMetaDataSlab.Insert: header refresh dropped
run M07 semantic "$S3/M07.diff"   # ArrayMetaDataSlab.Insert: store of the parent dropped
run M08 semantic "$S3/M08.diff"   # ArrayMetaDataSlab.Remove: count-- dropped
run M09 semantic "$S3/M09.diff"   # ArrayMetaDataSlab.Remove: count-sum loop off by one
run M10 semantic "$S3/M10.diff"   # ArrayMetaDataSlab.Remove: header refresh dropped
run M11 semantic "$S3/M11.diff"   # ArrayMetaDataSlab.Remove: store of the parent dropped
run M12 semantic "$S3/M12.diff"   # ArrayMetaDataSlab.PopIterate: forwards
run M13 semantic "$S3/M13.diff"   # ArrayMetaDataSlab.PopIterate: child not removed
run M14 equivalent "$S3/M14.diff" # ArrayMetaDataSlab.PopIterate: count not reset (survived the sweep as equivalent)
run A20 semantic "$S3/A20.diff"   # Array.set: root split dropped
run A21 semantic "$S3/A21.diff"   # Array.set: promote dropped
run A22 semantic "$S3/A22.diff"   # Array.remove: promote dropped
# hand-made one-token changes of the descent
run get-wrong-index   semantic "" array_metadata_slab.go 's/^\treturn child\.Get\(storage, adjustedIndex\)$/\treturn child.Get(storage, index)/'
run set-full-negated  semantic "" array_metadata_slab.go '/^func \(a \*ArrayMetaDataSlab\) Set\(/,/^}/s/^\tif child\.IsFull\(\) \{$/\tif !child.IsFull() {/'
run insert-append-idx semantic "" array_metadata_slab.go 's/^\t\tchildHeaderIndex = len\(a\.childrenHeaders\) - 1$/\t\tchildHeaderIndex = len(a.childrenHeaders) - 2/'
run insert-gt-to-ge   semantic "" array_metadata_slab.go '/^func \(a \*ArrayMetaDataSlab\) Insert\(/,/^}/s/^\tif index > uint64\(a\.header\.count\) \{$/\tif index >= uint64(a.header.count) {/'
run remove-store-early semantic "" array_metadata_slab.go '/^func \(a \*ArrayMetaDataSlab\) Remove\(/,/^}/s/^\ta\.header\.count--$/\ta.header.count -= 2/'
run array-insert-max  semantic "" array.go 's/^\tif a\.Count\(\) == maxArrayElementCount \{$/\tif a.Count() != maxArrayElementCount {/'
run array-get-noerr   semantic "" array.go '/^func \(a \*Array\) Get\(/,/^}/s/^\tstorable, err := a\.root\.Get\(a\.Storage, i\)$/\tstorable, err := a.root.Get(a.Storage, i+1)/'
# aliasing the engine must refuse: the child read from the storage is aliased and changed through both names
run alias-child untransl "" array_metadata_slab.go '/^func \(a \*ArrayMetaDataSlab\) Set\(/,/^}/s/^\ta\.childrenHeaders\[childHeaderIndex\] = child\.Header\(\)$/\tother := child\n\tchild.SetSlabID(SlabID{})\n\ta.childrenHeaders[childHeaderIndex] = other.Header()/'
# cosmetic rewrites
run cosmetic-rename-local cosmetic "" array_metadata_slab.go '/^func \(a \*ArrayMetaDataSlab\) Set\(/,/^}/s/\bexistingElem\b/old/g; /^func \(a \*ArrayMetaDataSlab\) Remove\(/,/^}/s/\bunderflowSize\b/uf/g'
run cosmetic-flip-compare cosmetic "" array_metadata_slab.go '/^func \(a \*ArrayMetaDataSlab\) Remove\(/,/^}/s/^\tif index >= uint64\(a\.header\.count\) \{$/\tif uint64(a.header.count) <= index {/'
run cosmetic-rename-recv  cosmetic "" array.go '/^func \(a \*Array\) remove\(/,/^}/s/\ba\b/arr/g'
run cosmetic-extra-local  cosmetic "" array.go '/^func \(a \*Array\) Append\(/,/^}/s/^\treturn a\.Insert\(a\.Count\(\), value\)$/\tn := a.Count()\n\treturn a.Insert(n, value)/'
rm -rf "$MUT" "$LEAN"
