#!/usr/bin/env python3
"""usage: tools/keep_seeded.py <name> <property> <mutout dir> <confirm json> "<needs>" "<check results>"
Files a confirmed seeded change under /verif/seeded/<name>/ (patch.diff, demo_test.go, notes.md, meta.json)."""
import json, os, shutil, sys
name, prop, src, conf, needs, results = sys.argv[1:7]
d = os.path.join('/verif/seeded', name)
os.makedirs(d, exist_ok=True)
for f in ('patch.diff', 'demo_test.go', 'notes.md'):
    if os.path.exists(os.path.join(src, f)) and os.path.abspath(src) != os.path.abspath(d):
        shutil.copyfile(os.path.join(src, f), os.path.join(d, f))
c = json.loads(open(conf).read(), strict=False)
assert c['demo_without_patch_exit'] == 0 and c['apply_exit'] == 0 and c['build_exit'] == 0 \
    and c['demo_with_patch_exit'] != 0 and c['full_suite_with_patch_exit'] == 0, c
meta = {
    "property": prop,
    "origin": "fresh sub-agent given only the property text and a scratch worktree",
    "needs_to_manifest": needs,
    "confirmed": {
        "how": "tools/confirm_seeded.sh in a fresh scratch worktree of /repo HEAD",
        "demo_passes_without_change": True, "patch_applies_and_builds": True,
        "demo_fails_with_change": True, "full_existing_suite_passes_with_change": True,
        "suite_tail": c.get("suite_tail", ""),
    },
    "checks_run": "tools/muttest.sh <patch> <checks> (checks run against a scratch copy of /repo with the patch applied, VERIF_REPO)",
    "check_results": results,
}
json.dump(meta, open(os.path.join(d, 'meta.json'), 'w'), indent=1)
print("kept", d)
