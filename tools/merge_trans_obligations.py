#!/usr/bin/env python3
"""Merge lean/obligations.trans.json (the translation-equivalence theorems, per property) into
lean/obligations.json: adds the modules and theorem names; statements are pinned afterwards by
`./check --record-statements`.  Idempotent.   usage: tools/merge_trans_obligations.py [verif-dir [file]]
(file: obligations.trans.json by default; obligations.transstorage.json for the storage state machine)"""
import json, os, sys
root = sys.argv[1] if len(sys.argv) > 1 else os.path.join(os.path.dirname(os.path.abspath(__file__)), "..")
ob_path = os.path.join(root, "lean", "obligations.json")
ob = json.load(open(ob_path))
add = json.load(open(os.path.join(root, "lean", sys.argv[2] if len(sys.argv) > 2 else "obligations.trans.json")))
for prop, e in add.items():
    cur = ob[prop]
    for m in e["modules"]:
        if m not in cur["modules"]:
            cur["modules"].append(m)
    for t in e["theorems"]:
        if t not in cur["theorems"]:
            cur["theorems"].append(t)
json.dump(ob, open(ob_path, "w"), indent=1, sort_keys=True)
print("merged:", {p: len(e["theorems"]) for p, e in add.items()})
