#!/bin/bash
# Negative self-test of the array-slab translation-equivalence obligations (development helper, not part of ./check).
# Applies mutants of the s3 sweep (git-apply patches; arrays as B+trees) and a few sed rewrites to a scratch COPY of the Go
# sources, regenerates Gen/TransSlabs.lean from the copy INTO A PRIVATE COPY of lean/, and reports which theorems of
# Props/TransSlabs*.lean stop compiling; cosmetic rewrites must leave everything green.
# usage: tools/gotrans_slabs_selftest.sh [patchdir]   (default /tmp/sweep/s3/patches; never touches /repo or lean/)
set -u
VERIF="$(cd "$(dirname "$0")/.." && pwd)"
REPO="${VERIF_REPO:-/repo}"
PATCHES="${1:-/tmp/sweep/s3/patches}"
MUT="/tmp/gotrans-sl-mut-$$"
LEAN="/tmp/gotrans-sl-lean-$$"
export GOFLAGS=-mod=mod GOPROXY=off
BIN="$(mktemp -d)/gotrans"
(cd "$VERIF/harness" && go build -tags verif -o "$BIN" ./cmd/gotrans) || { echo "gotrans does not build"; exit 2; }
rm -rf "$LEAN"; cp -r "$VERIF/lean" "$LEAN"
GEN="$LEAN/AtreeModel/Gen"
MODS="${SLAB_MODS:-AtreeProofs.Props.TransSlabs AtreeProofs.Props.TransSlabsData AtreeProofs.Props.TransSlabsMeta AtreeProofs.Props.TransSlabsDecide AtreeProofs.Props.TransSlabsTree AtreeProofs.Props.TransSlabsRoot AtreeProofs.Props.TransSlabsGlue}"

run() { # name kind patch-id-or-empty [file sed-expression]
  local name="$1" kind="$2" patch="$3" file="${4:-}" expr="${5:-}"
  if [ -n "${ONLY:-}" ] && ! echo "$name" | grep -qE "$ONLY"; then return; fi
  rm -rf "$MUT"; mkdir -p "$MUT"; cp "$REPO"/*.go "$MUT"/
  if [ -n "$patch" ]; then
    (cd "$MUT" && patch -s -p1 < "$PATCHES/$patch.diff") || { echo "[$name] PATCH DID NOT APPLY"; return; }
  fi
  if [ -n "$file" ]; then
    sed -i -E "$expr" "$MUT/$file"
    if cmp -s "$REPO/$file" "$MUT/$file"; then echo "[$name] MUTATION DID NOT APPLY"; return; fi
  fi
  (cd "$MUT" && gofmt -e array_data_slab.go array_metadata_slab.go array.go slice_utils.go >/dev/null 2>"$MUT/fmt.err") || { echo "[$name] does not parse: $(head -1 "$MUT/fmt.err")"; return; }
  "$BIN" -repo "$MUT" -out "$GEN" 2>"$MUT/gotrans.err"
  local out; out="$(cd "$LEAN" && lake build $MODS 2>&1)"
  local failed; failed="$(echo "$out" | grep -E '^error: AtreeProofs' | sed -E 's/^error: (AtreeProofs[^:]*):([0-9]+).*/\1:\2/' | sort -u | tr '\n' ' ')"
  local thms=""
  for loc in $failed; do
    f="${loc%%:*}"; l="${loc##*:}"
    t="$(head -n "$l" "$LEAN/$f" | grep -E '^(theorem|example|def|private theorem)' | tail -1 | sed -E 's/^private //' | awk '{print $2}')"
    thms="$thms $t"
  done
  thms="$(echo $thms | tr ' ' '\n' | sort -u | head -6 | tr '\n' ' ')"
  local res
  if [ -z "$failed" ]; then
    if echo "$out" | grep -q '^error'; then res="BUILD ERROR: $(echo "$out" | grep '^error' | head -2 | tr '\n' ' ')"; else res="all theorems compile"; fi
  else res="BROKEN: $thms"; fi
  echo "[$name] ($kind) $(grep 'not translated' "$MUT/gotrans.err" | head -2 | cut -c1-160 | tr '\n' ' ')=> $res"
}

run baseline none ""
# mutants of the s3 sweep that no model-free oracle kills ("killed by replay only", "killed by Lean obligation only") ...
run D21 semantic D21      # ArrayDataSlab.Split: floor midpoint
run D33 semantic D33      # ArrayDataSlab.LendToRight: floor midpoint
run D39 semantic D39      # ArrayDataSlab.BorrowFromRight: floor midpoint
run M28 semantic M28      # MergeOrRebalanceChildSlab: rebalance with the smaller sibling
run M29 semantic M29      # MergeOrRebalanceChildSlab: merge with the bigger sibling
run M35 semantic M35      # rebalanceChildren: drops the store of the parent
run M38 semantic M38      # mergeChildren: drops the store of the parent
run M46 semantic M46      # ArrayMetaDataSlab.Split: floor instead of ceil
run M51 semantic M51      # ArrayMetaDataSlab.LendToRight: ceil
run M56 semantic M56      # ArrayMetaDataSlab.BorrowFromRight: ceil
# ... survived as "equivalent" (the state differs, no caller looks) ...
run D19 equivalent D19    # ArrayDataSlab.PopIterate: elements not reset
run M20 equivalent M20    # SplitChildSlab: store of the left slab dropped
run U03 equivalent U03    # merge: right slice not cleared
# ... and a sample of those the oracles kill: the data that MOVES
run U01 semantic U01      # split: right aliases the tail of s
run U04 semantic U04      # lendToRight: appends instead of prepends
run D13 semantic D13      # ArrayDataSlab.Insert: storeSlab dropped
run D24 semantic D24      # ArrayDataSlab.Split: right count from the left elements
run D28 semantic D28      # ArrayDataSlab.Split: left.next not set
run D32 semantic D32      # ArrayDataSlab.Merge: next not taken over
run M17 semantic M17      # SplitChildSlab: left count sum from the right slab
run M41 semantic M41      # updateChildrenHeadersAfterMerge: deletes the left header
run M48 semantic M48      # ArrayMetaDataSlab.Split: stale count sums
run A29 semantic A29      # splitRoot: extra data kept on the old root
run A33 semantic A33      # splitRoot: children swapped
run A37 semantic A37      # splitRoot: store of the new root dropped
run A43 semantic A43      # promoteChildAsNewRoot: child slab not removed
# hand-made: aliasing
run slice-alias untransl "" array_data_slab.go 's/^\ta\.elements, rightSlab\.elements = lendToRight\(a\.elements, rightSlab\.elements, int\(moveCount\)\)$/\tleftElems := a.elements\n\ta.elements, rightSlab.elements = lendToRight(leftElems, rightSlab.elements, int(moveCount))/'
run stale-arg   untransl "" array_data_slab.go 's/^\ta\.elements, rightElements = split\(a\.elements, leftCount\)$/\t_, rightElements = split(a.elements, leftCount)/'
run write-through-source untransl "" array_metadata_slab.go 's/^\tmergedSlab := leftChildSlab$/\tmergedSlab := leftChildSlab\n\tleftChildSlab.SetSlabID(SlabID{})/'
run use-after-move       untransl "" array.go 's/^\ta\.root\.SetSlabID\(rootID\)$/\ta.root.SetSlabID(child.SlabID())/'
run two-aliases          untransl "" array_metadata_slab.go 's/^\tobseleteSlab := rightChildSlab$/\tobseleteSlab := rightChildSlab\n\tother := leftChildSlab\n\t_ = other/'
run same-object-twice    untransl "" array_metadata_slab.go 's/^\terr := leftChildSlab\.Merge\(rightChildSlab\)$/\terr := leftChildSlab.Merge(leftChildSlab)/'
# cosmetic rewrites
# (renaming `leftSize` / `leftCount` of Split is NOT cosmetic for the older stateless engine: its VIEW table names these result locals)
run cosmetic-rename-local  cosmetic "" array_data_slab.go '/^func \(a \*ArrayDataSlab\) Split\(/,/^}/s/\bmidPoint\b/mid/g; /^func \(a \*ArrayDataSlab\) Insert\(/,/^}/s/\bstorable\b/st/g'
run cosmetic-flip-compare  cosmetic "" array_data_slab.go 's/^\tif index >= uint64\(len\(a\.elements\)\) \{$/\tif uint64(len(a.elements)) <= index {/'
run cosmetic-rename-recv   cosmetic "" array_metadata_slab.go '/^func \(a \*ArrayMetaDataSlab\) mergeChildren\(/,/^}/s/\ba\b/meta/g'
run cosmetic-extra-local   cosmetic "" array_data_slab.go 's/^\ta\.header\.count \+= rightSlab\.header\.count$/\trc := rightSlab.header.count\n\ta.header.count += rc/'
rm -rf "$MUT" "$LEAN"
