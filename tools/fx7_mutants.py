#!/usr/bin/env python3
"""usage: MUTREPO=/tmp/scratch-copy tools/fx7_mutants.py <name>
Copies /repo to $MUTREPO (never touches /repo) and applies ONE of the one-token mutations used by
audit a5 (A1..A14, B1, B3, N3..N5: reviewer's table, unchanged) or by fixer fx7 (R1..R3: rejected
requests that leave a trace).  Then run e.g.
  VERIF_REPO=$MUTREPO VERIF_LEAN=<private copy of lean/> VERIF_WORK=/tmp/w VERIF_BINTAG=mut ./check C10
"""
import sys,re,shutil,os,subprocess
name=sys.argv[1]
R=os.environ['MUTREPO']
shutil.rmtree(R,ignore_errors=True); shutil.copytree('/repo',R,ignore=shutil.ignore_patterns('.git'))
def sub(f,old,new,count=1):
    p=os.path.join(R,f); s=open(p).read()
    assert s.count(old)>=1,(f,old)
    if count==1: assert s.count(old)==1,(f,old,s.count(old))
    s=s.replace(old,new); open(p,'w').write(s)
M={
'A1': lambda: sub('array.go','''		if !ok || existingValueID != newValue.ValueID() {
			delete(a.mutableElementIndex, existingValueID)
		}''','''		if !ok || existingValueID != newValue.ValueID() {
			_ = newValue
		}'''),
'A2': lambda: sub('array.go','''	if removedValueID != emptyValueID {
		delete(a.mutableElementIndex, removedValueID)
	}''','''	_ = removedValueID'''),
'A3': lambda: (sub('array.go','''	if !found {
		a.parentUpdater = nil
	}''','''	_ = found'''), sub('map.go','''	if !found {
		m.parentUpdater = nil
	}''','''	_ = found''')),
'A5': lambda: sub('array.go','''	if maxInlineSize < wrapperSize {
		maxInlineSize = 0
	} else {
		maxInlineSize -= wrapperSize
	}

	vid := c.ValueID()

	// mutableElementIndex is lazily initialized.''','''	_ = wrapperSize

	vid := c.ValueID()

	// mutableElementIndex is lazily initialized.'''),
'A5m': lambda: sub('map.go','''	if maxInlineSize < wrapperSize {
		maxInlineSize = 0
	} else {
		maxInlineSize -= wrapperSize
	}''','''	_ = wrapperSize'''),
'A7': lambda: sub('array.go','''		if i >= index {
			if a.mutableElementIndex[id]+1 >= a.Count() {''','''		if i > index {
			if a.mutableElementIndex[id]+1 >= a.Count() {'''),
'A9': lambda: sub('inline_utils.go','''		if !uninlined {
			return storable, valueID, uninlined, nil
		}''','''		if !uninlined {
			return storable, emptyValueID, uninlined, nil
		}'''),
'A10': lambda: sub('array.go','''		unwrappedValue, _ := unwrapValue(value)
		newValue, ok := unwrappedValue.(mutableValueNotifier)''','''		newValue, ok := value.(mutableValueNotifier)'''),
'B1': lambda: sub('inline_utils.go','''		valueID := slabIDToValueID(SlabID(s))

		return storable, valueID, false, nil''','''		return storable, emptyValueID, false, nil'''),
'B3': lambda: sub('map.go','''			if errors.As(err, &knf) {
				return false, nil
			}
			// Don't need to wrap error as external error because err is already categorized by OrderedMap.Get().
			return false, err''','''			if errors.As(err, &knf) {
				return false, err
			}
			// Don't need to wrap error as external error because err is already categorized by OrderedMap.Get().
			return false, err'''),
'A4': lambda: sub('array.go','''		if !c.Inlined() && !c.Inlinable(maxInlineSize) {
			return true, nil
		}''','''		if !c.Inlined() || !c.Inlinable(maxInlineSize) {
			return true, nil
		}'''),
'A14': lambda: sub('array.go','''		storable = unwrapStorable(storable)

		// Verify retrieved element is either SlabIDStorable or Slab, with identical value ID.''','''		// Verify retrieved element is either SlabIDStorable or Slab, with identical value ID.'''),
}
M.update({
'N3': lambda: sub('map.go','''	keyStorable, _, _, err = uninlineStorableIfNeeded(m.Storage, keyStorable)
	if err != nil {
		return nil, nil, err
	}

	valueStorable, _, _, err = uninlineStorableIfNeeded(m.Storage, valueStorable)''','''	valueStorable, _, _, err = uninlineStorableIfNeeded(m.Storage, valueStorable)'''),
'N4': lambda: (sub('array.go','''	if maxInlineSize < wrapperSize {
		maxInlineSize = 0
	} else {
		maxInlineSize -= wrapperSize
	}''','''	maxInlineSize -= wrapperSize'''), sub('map.go','''	if maxInlineSize < wrapperSize {
		maxInlineSize = 0
	} else {
		maxInlineSize -= wrapperSize
	}''','''	maxInlineSize -= wrapperSize''')),
'N5': lambda: sub('map_elements_nokey.go','''			vs, err := value.Storable(storage, address, maxInlineMapValueSize(elem.key.ByteSize()))''','''			vs, err := value.Storable(storage, address, maxInlineMapValueSize(elem.key.ByteSize())+8)'''),
})
M.update({
# a rejected Remove through a nested handle still notifies the parent (parent slab re-stored)
'R1': lambda: sub('array.go','''	storable, err := a.root.Remove(a.Storage, index)
	if err != nil {
		// Don't need to wrap error as external error because err is already categorized by ArraySlab.Remove().
		return nil, err
	}''','''	storable, err := a.root.Remove(a.Storage, index)
	if err != nil {
		_ = a.notifyParentIfNeeded()
		return nil, err
	}'''),
# a rejected Remove forgets the positions of the child containers
'R2': lambda: sub('array.go','''	storable, err := a.remove(index)
	if err != nil {
		return nil, err
	}

	// If removed storable is an inlined slab, uninline the slab and store it in storage.''','''	storable, err := a.remove(index)
	if err != nil {
		a.mutableElementIndex = nil
		return nil, err
	}

	// If removed storable is an inlined slab, uninline the slab and store it in storage.'''),
# an absent-key Remove on a nested map marks the map's root slab dirty
'R3': lambda: sub('map.go','''	k, v, err := m.root.Remove(m.Storage, keyDigest, level, hkey, comparator, key)
	if err != nil {''','''	k, v, err := m.root.Remove(m.Storage, keyDigest, level, hkey, comparator, key)
	if err != nil && !m.root.Inlined() {
		_ = m.Storage.Store(m.root.SlabID(), m.root)
	}
	if err != nil {'''),
})
M[name]()
print('mutated',name)
