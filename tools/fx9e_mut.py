#!/usr/bin/env python3
"""Development helper (FX9E): stream-level mutation runs WITHOUT check's steering (scale 1, one seed at a time).

  tools/fx9e_mut.py <name> <file> <sed-expr | py:LINE:NEWLINE-file> <stream:driver[,stream:driver..]> <seeds> [props]

Copies /repo to /tmp/fx9e-scratch/<name>/repo, applies the one-line change, builds the harness of THIS clone against it
(private go.mod, nothing in the clone is modified), runs the streams in the quick tier at scale 1 and replays the traces
on the compiled model driver of this clone.  Output per (stream, seed): V<n> Go-side oracle violations (restricted to the
property list when given), H harness error, M<n> replay mismatches; verdict KILLED-go / KILLED-replay / SURVIVED.
"""
import json, os, re, shutil, subprocess, sys
VERIF = os.path.dirname(os.path.dirname(os.path.abspath(__file__)))
name, file, expr, streams, seeds = sys.argv[1:6]
props = sys.argv[6].split(",") if len(sys.argv) > 6 else None
W = "/tmp/fx9e-scratch/" + name
shutil.rmtree(W, ignore_errors=True)
os.makedirs(W)
repo = W + "/repo"
shutil.copytree("/repo", repo)
env = dict(os.environ, GOFLAGS="-mod=mod", GOPROXY="off", GOMEMLIMIT="6GiB")
env.pop("GOSUMDB", None)
path = os.path.join(repo, file)
before = open(path).read()
if expr.startswith("line:"):
    _, ln, new = expr.split(":", 2)
    src = before.split("\n"); src[int(ln) - 1] = new; open(path, "w").write("\n".join(src))
else:
    subprocess.run(["sed", "-i", "-E", expr, path], check=True)
if open(path).read() == before:
    print(name, "NOCHANGE"); shutil.rmtree(W); sys.exit(0)
s = open(VERIF + "/harness/go.mod").read()
s = re.sub(r"replace github.com/onflow/atree => .*", "replace github.com/onflow/atree => " + repo, s)
open(W + "/go.mod", "w").write(s)
shutil.copyfile(repo + "/go.sum", W + "/go.sum")
p = subprocess.run(["go", "build", "-modfile", W + "/go.mod", "-tags", "verif", "-o", W + "/trace", "./cmd/trace"],
                   cwd=VERIF + "/harness", env=env, stdout=subprocess.PIPE, stderr=subprocess.STDOUT, text=True)
if p.returncode != 0:
    print(name, "BUILDFAIL", p.stdout[-300:]); shutil.rmtree(W); sys.exit(0)
res, killed_go, killed_rep = [], False, False
detail = ""
for sd in seeds.split(","):
    for sp in streams.split(","):
        st_name, drv = (sp.split(":") + [""])[:2]
        out = W + "/out"; shutil.rmtree(out, ignore_errors=True); os.makedirs(out)
        try:
            p = subprocess.run([W + "/trace", "-streams", st_name, "-seed", sd, "-tier", "quick", "-out", out, "-scale", "1"],
                               env=env, stdout=subprocess.PIPE, stderr=subprocess.STDOUT, text=True, timeout=900)
            so = p.stdout
        except subprocess.TimeoutExpired:
            res.append("%s/%s:TIMEOUT" % (st_name, sd)); killed_go = True; continue
        st = None
        for l in so.splitlines():
            if l.startswith("STATS "): st = json.loads(l[6:])
        if st is None:
            res.append("%s/%s:CRASH" % (st_name, sd)); killed_go = True
            if not detail: detail = "crash: " + (re.search(r"(panic:|fatal error:).*", so) or [so[-200:]])[0][:200]
            continue
        vs = [v for v in (st.get("violations") or []) if props is None or v["property"] in props]
        he = st.get("harness_error")
        mm = "-"
        if drv:
            mm = 0
            for tr in st["trace_files"]:
                with open(tr) as f:
                    q = subprocess.run([VERIF + "/lean/.lake/build/bin/atree_model", drv], stdin=f, stdout=subprocess.PIPE, text=True)
                for l in q.stdout.splitlines():
                    if l.startswith("RESULT "):
                        r = json.loads(l[7:]); mm += r["mismatches"]
                        if r["mismatches"] and not detail: detail = "replay: " + (r["first"] or ["?"])[0][:300].replace("\n", " | ")
        if vs and (not detail or detail.startswith("replay")):
            detail = "go[%s]: %s" % (vs[0]["property"], vs[0]["what"][:300])
        if he and not detail: detail = "harness: " + he[:300]
        if vs or he: killed_go = True
        if mm not in ("-", 0): killed_rep = True
        res.append("%s/%s:V%d%s:M%s" % (st_name, sd, len(vs), "H" if he else "", mm))
verdict = "KILLED-go+replay" if killed_go and killed_rep else "KILLED-go" if killed_go else "KILLED-replay" if killed_rep else "SURVIVED"
print(name, verdict, " ".join(res), "||", detail)
shutil.rmtree(W, ignore_errors=True)
