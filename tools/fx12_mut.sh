#!/bin/bash
# usage: tools/fx12_mut.sh <patch.diff|none> <stream>:<Cxx> [<stream>:<Cxx> ...]
# Development helper (fixer fx12): applies a patch to a scratch copy of /repo, builds the trace binary of THIS tree
# against it and runs the named streams at seeds ${SEEDS:-1 2 3}; prints, per stream and seed, the number of
# violations filed under the property (or "*") and the first one.  No Lean side (tools/muttest.sh does the full check).
set -u
P="$1"; shift
V="$(cd "$(dirname "$(readlink -f "$0")")/.." && pwd)"
D=/tmp/fx12/mut/r-$$; rm -rf "$D"; mkdir -p "$D"; cp -r /repo "$D/repo"; rm -rf "$D/repo/.git"
if [ "$P" != none ]; then (cd "$D/repo" && patch -p1 -s < "$(readlink -f "$P")") || { echo "patch failed"; rm -rf "$D"; exit 2; }; fi
export GOFLAGS=-mod=mod GOPROXY=off
sed "s#=> /repo#=> $D/repo#" "$V/harness/go.mod" > "$D/go.mod"; cp /repo/go.sum "$D/go.sum"
(cd "$V/harness" && go build -modfile "$D/go.mod" -tags verif -o "$D/trace" ./cmd/trace) || { echo "build failed"; rm -rf "$D"; exit 2; }
for sp in "$@"; do
  s="${sp%%:*}"; c="${sp##*:}"
  for seed in ${SEEDS:-1 2 3}; do
    "$D/trace" -streams "$s" -seed "$seed" -out "$D/out" -scale "${SCALE:-1}" > "$D/stats" 2> "$D/stderr"
    rc=$?
    python3 - "$D/stats" "$s" "$c" "$seed" "$rc" "$D/stderr" <<'PY'
import json, sys
path, s, c, seed, rc, errp = sys.argv[1:]
st = None
for l in open(path, errors="replace"):
    if l.startswith("STATS "): st = json.loads(l[6:])
if st is None:
    tail = open(errp, errors="replace").read()[-300:].replace("\n", " | ")
    print("%s/%s seed %s: NO STATS (exit %s) %s" % (s, c, seed, rc, tail)); sys.exit()
vs = [v for v in (st.get("violations") or []) if v["property"] in (c, "*")]
oth = [v for v in (st.get("violations") or []) if v["property"] not in (c, "*")]
print("%s/%s seed %s: %d violation(s)%s%s%s" % (s, c, seed, len(vs), (" [+%d under other properties]" % len(oth)) if oth else "",
      (" harness_error=" + st["harness_error"][:200]) if st.get("harness_error") else "",
      (" FIRST: [" + vs[0]["property"] + "] " + vs[0]["what"][:260]) if vs else ""))
PY
  done
done
rm -rf "$D"
