#!/bin/bash
# Negative self-test of the translation-equivalence obligations (development helper, not part of ./check).
# Applies one-token mutations to a scratch COPY of the Go sources, regenerates Gen/Trans.lean from the copy and
# reports which equivalence theorems stop compiling; cosmetic rewrites must leave everything green.
# usage: tools/gotrans_selftest.sh [repo]      (run from the verif directory; never touches the repo itself)
set -u
VERIF="$(cd "$(dirname "$0")/.." && pwd)"
REPO="${1:-/repo}"
MUT="${GOTRANS_MUT_DIR:-/tmp/gotrans-mut-$$}"
GEN="$VERIF/lean/AtreeModel/Gen"
export GOFLAGS=-mod=mod GOPROXY=off
BIN="$(mktemp -d)/gotrans"
(cd "$VERIF/harness" && go build -tags verif -o "$BIN" ./cmd/gotrans) || { echo "gotrans does not build"; exit 2; }
MODS="AtreeProofs.Props.Trans AtreeProofs.Props.TransLoops AtreeProofs.Props.TransMeta AtreeProofs.Props.TransSafe"

run() { # name kind file sed-expression
  local name="$1" kind="$2" file="$3" expr="$4"
  rm -rf "$MUT"; mkdir -p "$MUT"; cp "$REPO"/*.go "$MUT"/
  if [ -n "$file" ]; then
    sed -i -E "$expr" "$MUT/$file"
    if cmp -s "$REPO/$file" "$MUT/$file"; then echo "[$name] MUTATION DID NOT APPLY"; return; fi
  fi
  "$BIN" -repo "$MUT" -out "$GEN" 2>"$MUT/gotrans.err"
  local out; out="$(cd "$VERIF/lean" && lake build $MODS 2>&1)"
  local failed; failed="$(echo "$out" | grep -E '^error: AtreeProofs' | sed -E 's/^error: (AtreeProofs[^:]*):([0-9]+).*/\1:\2/' | sort -u | tr '\n' ' ')"
  local thms=""
  for loc in $failed; do
    f="${loc%%:*}"; l="${loc##*:}"
    t="$(head -n "$l" "$VERIF/lean/$f" | grep -E '^(theorem|example)' | tail -1 | awk '{print $2}')"
    thms="$thms $t"
  done
  thms="$(echo $thms | tr ' ' '\n' | sort -u | tr '\n' ' ')"
  if [ -z "$failed" ]; then res="all theorems compile"; else res="BROKEN: $thms"; fi
  echo "[$name] ($kind) $(cat "$MUT/gotrans.err" | head -2 | tr '\n' ' ')=> $res"
}

run baseline              none      ""                     ""
run isfull-ge             semantic  array_data_slab.go     's/return a\.header\.size > maxThreshold/return a.header.size >= maxThreshold/'
run canlend-gt            semantic  array_data_slab.go     '0,/if lendSize >= size \{/s//if lendSize > size {/'
run split-mid             semantic  array_data_slab.go     '0,/midPoint := \(dataSize \+ 1\) >> 1/s//midPoint := dataSize >> 1/'
run route-le              semantic  array_metadata_slab.go 's/if index < uint64\(countSum\)/if index <= uint64(countSum)/'
run binsearch-mid         semantic  array_metadata_slab.go '0,/low = mid \+ 1/s//low = mid/'
run flag-swapped-mask     semantic  flag.go                's/return h\[1\]&maskSlabRoot > 0/return h[1]\&maskSlabHasPointers > 0/'
run map-route-ge          semantic  map_metadata_slab.go   '0,/firstKey > hkey/s//firstKey >= hkey/'
run threshold-div         semantic  settings.go            's/minThreshold = targetThreshold \/ 2/minThreshold = targetThreshold \/ 3/'
run hkey-minsize          semantic  map_elements_hashkey.go '0,/minSize := minThreshold - mapDataSlabPrefixSize$/s//minSize := minThreshold - mapMetaDataSlabPrefixSize/'
run compare-swapped       semantic  slab_id.go             's/bytes\.Compare\(id\.index\[:\], other\.index\[:\]\)/bytes.Compare(other.index[:], id.index[:])/'
run unsupported-construct untransl  array_data_slab.go     '0,/lendSize := uint32\(0\)/s//lendSize := uint32(0)\n\tdefer func() {}()/'
run cosmetic-rename       cosmetic  array_data_slab.go     's/lendSize/lent/g'
run cosmetic-flip-compare cosmetic  array_data_slab.go     's/return a\.header\.size > maxThreshold/return maxThreshold < a.header.size/'
run cosmetic-recv-rename  cosmetic  flag.go                's/func \(h \*head\) isRoot\(\) bool \{/func (hd *head) isRoot() bool {/; s/return h\[1\]&maskSlabRoot > 0/return hd[1]\&maskSlabRoot > 0/'
run cosmetic-extra-local  cosmetic  array_metadata_slab.go 's/^(\t)return a\.header\.size > maxThreshold/\1sz := a.header.size\n\1return sz > maxThreshold/'

# restore the generated file from the real sources
"$BIN" -repo "$REPO" -out "$GEN"
(cd "$VERIF/lean" && lake build $MODS >/dev/null 2>&1) && echo "[restore] regenerated from $REPO, all theorems compile"
rm -rf "$MUT"
