#!/bin/bash
# usage: tools/fx7_checkmut.sh <mutant> <seeds> <checks>     e.g. checkmut.sh A3 "1 2 3" "C10 C11"
V="$(cd "$(dirname "$0")/.." && pwd)"
export GOFLAGS=-mod=mod GOPROXY=off
m=$1; seeds=$2; checks=$3
export MUTREPO=/tmp/fx7-mut-$m
python3 "$V/tools/fx7_mutants.py" $m >/dev/null || { echo "mutation failed"; exit 2; }
(cd $MUTREPO && go build ./... ) || { echo "mutant does not build"; exit 2; }
L=/tmp/fx7-lean-mut
[ -d $L ] || cp -r $V/lean $L
W=/tmp/fx7-work-mut-$m
for c in $checks; do
  for s in $seeds; do
    out=$(cd $V && VERIF_SEED=$s VERIF_REPO=$MUTREPO VERIF_LEAN=$L VERIF_WORK=$W VERIF_BINTAG=fx7-mut-$m ./check $c 2>&1 | grep -E "^VIOLATION|ok \(|MACHINERY" | head -3 | tr '\n' ' ')
    echo "$m $c seed $s: $out"
    for r in $W/replays/$c-$s.json; do
      [ -f "$r" ] && python3 $V/tools/showreplay.py "$r" | head -2 | cut -c1-420
    done
    rm -rf $W/replays
  done
done
rm -rf $MUTREPO $W $V/harness/bin/fx7-mut-$m
