#!/bin/bash
# Negative self-test of the storage translation-equivalence obligations (development helper, not part of ./check).
# Applies storage.go mutants of the s1 sweep (git-apply patches) and a few sed rewrites to a scratch COPY of the
# Go sources, regenerates Gen/TransStorage.lean from the copy INTO A PRIVATE COPY of lean/, and reports which
# theorems of Props/TransStorage*.lean stop compiling; cosmetic rewrites must leave everything green.
# usage: tools/gotrans_storage_selftest.sh [patchdir]   (default /tmp/sweep/s1/patches; never touches /repo or lean/)
set -u
VERIF="$(cd "$(dirname "$0")/.." && pwd)"
REPO="${VERIF_REPO:-/repo}"
PATCHES="${1:-/tmp/sweep/s1/patches}"
MUT="/tmp/gotrans-st-mut-$$"
LEAN="/tmp/gotrans-st-lean-$$"
export GOFLAGS=-mod=mod GOPROXY=off
BIN="$(mktemp -d)/gotrans"
(cd "$VERIF/harness" && go build -tags verif -o "$BIN" ./cmd/gotrans) || { echo "gotrans does not build"; exit 2; }
rm -rf "$LEAN"; cp -r "$VERIF/lean" "$LEAN"
GEN="$LEAN/AtreeModel/Gen"
MODS="AtreeProofs.Props.TransStorage AtreeProofs.Props.TransStorageBasic AtreeProofs.Props.TransStorageLedger"

run() { # name kind patch-id-or-empty [file sed-expression]
  local name="$1" kind="$2" patch="$3" file="${4:-}" expr="${5:-}"
  rm -rf "$MUT"; mkdir -p "$MUT"; cp "$REPO"/*.go "$MUT"/
  if [ -n "$patch" ]; then
    (cd "$MUT" && patch -s -p1 < "$PATCHES/$patch.diff") || { echo "[$name] PATCH DID NOT APPLY"; return; }
  fi
  if [ -n "$file" ]; then
    sed -i -E "$expr" "$MUT/$file"
    if cmp -s "$REPO/$file" "$MUT/$file"; then echo "[$name] MUTATION DID NOT APPLY"; return; fi
  fi
  (cd "$MUT" && gofmt -e storage.go >/dev/null 2>"$MUT/fmt.err") || { echo "[$name] does not parse: $(head -1 "$MUT/fmt.err")"; return; }
  "$BIN" -repo "$MUT" -out "$GEN" 2>"$MUT/gotrans.err"
  local out; out="$(cd "$LEAN" && lake build $MODS 2>&1)"
  local failed; failed="$(echo "$out" | grep -E '^error: AtreeProofs' | sed -E 's/^error: (AtreeProofs[^:]*):([0-9]+).*/\1:\2/' | sort -u | tr '\n' ' ')"
  local thms=""
  for loc in $failed; do
    f="${loc%%:*}"; l="${loc##*:}"
    t="$(head -n "$l" "$LEAN/$f" | grep -E '^(theorem|example|def)' | tail -1 | awk '{print $2}')"
    thms="$thms $t"
  done
  thms="$(echo $thms | tr ' ' '\n' | sort -u | tr '\n' ' ')"
  local res
  if [ -z "$failed" ]; then res="all theorems compile"; else res="BROKEN: $thms"; fi
  echo "[$name] ($kind) $(grep 'not translated' "$MUT/gotrans.err" | head -2 | tr '\n' ' ')=> $res"
}

run baseline none ""
# mutants of the sweep that no model-free oracle kills ("killed by replay only") or that survived
run m125 semantic m125      # Store: undefined id accepted
run m127 semantic m127      # Remove: undefined id accepted
run m117 semantic m117      # RetrieveIgnoringDeltas: cache flag inverted
run m118 semantic m118      # RetrieveIgnoringDeltas: always caches
run m121 semantic m121      # RetrieveIfLoaded: cache not consulted
run m124 semantic m124      # Retrieve: does not cache
run n016 survived n016      # RetrieveIgnoringDeltas: found=true with base error
run n017 survived n017      # found=false on decode error
run n018 survived n018      # slab returned with decode error
run n027 semantic n027      # GenerateSlabID: temp index off by one
run m047 semantic m047      # GenerateSlabID: temp index little endian
run n031 semantic n031      # DeltasSizeWithoutTempAddresses: = instead of +=
run n032 semantic n032      # HasUnsavedChanges: false for the temp address
run n047 semantic n047      # DeltasSizeWithoutTempAddresses: continue -> break
run p002 semantic p002      # DeltasSizeWithoutTempAddresses: temp slabs counted
run m132 semantic m132      # DeltasSizeWithoutTempAddresses: || -> && (nil dereference)
run n023 semantic n023      # BasicSlabStorage.Remove: tombstone instead of delete
run p005 semantic p005      # BasicSlabStorage.Retrieve: found from nil test
run n001 semantic n001      # LedgerBaseStorage.Retrieve: ledger error not wrapped
run n003 semantic n003      # LedgerBaseStorage.Remove: ledger error not wrapped
run m005 semantic m005      # LedgerBaseStorage.GenerateSlabID: off by one index
run p006 semantic p006      # LedgerBaseStorage.Retrieve: bytesRetrieved not counted
run p007 semantic p007      # bytesRetrieved = instead of +=
run p009 semantic p009      # Retrieve counts into bytesStored
run p010 semantic p010      # ResetReporter: bytesStored kept
run p011 semantic p011      # BytesRetrieved returns bytesStored
run m051 equivalent m051    # sort: index <=   (same order on distinct keys; the less function is no longer SlabID.lt)
# hand-made: state left behind by a failing commit, aliasing
run commit-cache-before-store semantic "" storage.go '0,/\t\terr = s\.baseStorage\.Store\(id, data\)/s//\t\ts.cache[id] = slab\n\t\terr = s.baseStorage.Store(id, data)/'
run commit-keep-delta         semantic "" storage.go '0,/^\t\t\tdelete\(s\.deltas, id\)$/{//d}'
run map-alias                 untransl "" storage.go 's/^\ts\.deltas\[id\] = slab$/\td := s.deltas\n\td[id] = slab/'
# cosmetic rewrites
run cosmetic-rename-local  cosmetic "" storage.go '/^func \(s \*PersistentSlabStorage\) Retrieve\(/,/^}/s/\bslab\b/sl/g'
run cosmetic-flip-compare  cosmetic "" storage.go 's/if id == SlabIDUndefined \{/if SlabIDUndefined == id {/'
run cosmetic-recv-rename   cosmetic "" storage.go '/^func \(s \*PersistentSlabStorage\) Store\(/,/^}/{s/\(s \*Persistent/(st *Persistent/; s/\bs\.deltas/st.deltas/}'
run cosmetic-extra-local   cosmetic "" storage.go 's/^\tif id == SlabIDUndefined \{$/\tundefined := id == SlabIDUndefined\n\tif undefined {/'
run cosmetic-ledger-local   cosmetic "" storage.go 's/^\ts\.bytesRetrieved \+= len\(v\)$/\tn := len(v)\n\ts.bytesRetrieved = s.bytesRetrieved + n/'
run cosmetic-else-branch   cosmetic "" storage.go '/^func \(s \*PersistentSlabStorage\) RetrieveIfLoaded\(/,/^}/{s/^\t\/\/ Don.t fetch from base storage\.$/\tvar none Slab/; s/^\treturn nil$/\treturn none/}'

rm -rf "$MUT" "$LEAN"
