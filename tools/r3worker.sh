#!/bin/bash
# processes /tmp/r3queue (lines: "<Cxx> <TestName> [extra checks]") one at a time, forever; results in /tmp/r3out-<Cxx>.log
touch /tmp/r3queue /tmp/r3done
while true; do
  line=$(comm -23 <(sort /tmp/r3queue) <(sort /tmp/r3done) | head -1)
  if [ -z "$line" ]; then sleep 20; continue; fi
  set -- $line
  /verif/tools/round3.sh "$@" > /tmp/r3out-$1.log 2>&1
  echo "$line" >> /tmp/r3done
done
