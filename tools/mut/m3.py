p='storage.go'
s=open(p).read()
old='''		// store
		err = s.baseStorage.Store(id, data)
		if err != nil {
			// Wrap err as external error (if needed) because err is returned by BaseStorage interface.
			return wrapErrorfAsExternalErrorIfNeeded(err, fmt.Sprintf("failed to store slab %s", id))
		}

		s.cache[id] = s.deltas[id]
		// It's safe to remove slab from deltas because
		// iteration is on non-temp slabs and temp slabs
		// are still in deltas.
		delete(s.deltas, id)
	}

	// Do NOT reset deltas because slabs with empty address are not saved.

	return nil
}

// NondeterministicFastCommit'''
new='''		// store
		err = s.baseStorage.Store(id, data)
		s.cache[id] = s.deltas[id]
		delete(s.deltas, id)
		if err != nil {
			// Wrap err as external error (if needed) because err is returned by BaseStorage interface.
			return wrapErrorfAsExternalErrorIfNeeded(err, fmt.Sprintf("failed to store slab %s", id))
		}
	}

	// Do NOT reset deltas because slabs with empty address are not saved.

	return nil
}

// NondeterministicFastCommit'''
assert s.count(old)==1
open(p,'w').write(s.replace(old,new))
