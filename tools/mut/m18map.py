p='map.go'
s=open(p).read()
old='''		switch valueStorable := valueStorable.(type) {
		case SlabIDStorable:
			sid := SlabID(valueStorable)
			if !vid.equal(sid) {
				return false, nil
			}

		case Slab:
			sid := valueStorable.SlabID()
			if !vid.equal(sid) {
				return false, nil
			}

		default:
			return false, nil
		}
'''
new='''		switch valueStorable := valueStorable.(type) {
		case SlabIDStorable:
			_ = valueStorable
		case Slab:
			_ = valueStorable
		default:
			return false, nil
		}
'''
assert s.count(old)==1
open(p,'w').write(s.replace(old,new))
