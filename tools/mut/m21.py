p='array_metadata_slab.go'
s=open(p).read()
old='''		return existingElem, nil
	}

	err = storeSlab(storage, a)
	if err != nil {
		return nil, err
	}

	return existingElem, nil
}'''
new='''		return existingElem, nil
	}

	return existingElem, nil
}'''
assert s.count(old)==1
open(p,'w').write(s.replace(old,new))
