p='array_size_consts.go'
s=open(p).read()
old="	arrayDataSlabPrefixSize = versionAndFlagSize + SlabIDLength + arrayDataSlabElementHeadSize\n"
assert s.count(old)==1
open(p,'w').write(s.replace(old,"	arrayDataSlabPrefixSize = versionAndFlagSize + SlabIDLength + arrayDataSlabElementHeadSize + 1\n"))
