p='array.go'
s=open(p).read()
old='''		case SlabIDStorable:
			sid := SlabID(storable)
			if !vid.equal(sid) {
				return false, nil
			}

		case Slab:
			sid := storable.SlabID()
			if !vid.equal(sid) {
				return false, nil
			}

		default:
			return false, nil
		}

		// NOTE: Must reset child using original child (not unwrapped child)'''
new='''		case SlabIDStorable:
			_ = storable
		case Slab:
			_ = storable
		default:
			return false, nil
		}

		// NOTE: Must reset child using original child (not unwrapped child)'''
assert s.count(old)==1
open(p,'w').write(s.replace(old,new))
