p='settings.go'
s=open(p).read()
old="	minElementCountInSlab = 2\n"
assert s.count(old)==1
open(p,'w').write(s.replace(old,"	minElementCountInSlab = 1\n"))
