p='storage.go'
s=open(p).read()
old='''		if a.address == b.address {
			return a.IndexAsUint64() < b.IndexAsUint64()
		}
		return a.AddressAsUint64() < b.AddressAsUint64()'''
new='''		return a.IndexAsUint64() < b.IndexAsUint64()'''
assert s.count(old)==1
open(p,'w').write(s.replace(old,new))
