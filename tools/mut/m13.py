p='array.go'
s=open(p).read()
old='''	err := a.root.Insert(a.Storage, a.Address(), index, value)
	if err != nil {
		// Don't need to wrap error as external error because err is already categorized by ArraySlab.Insert().
		return err
	}

	if a.root.IsFull() {
		err = a.splitRoot()
		if err != nil {
			// Don't need to wrap error as external error because err is already categorized by Array.splitRoot().
			return err
		}
	}

	err = a.incrementIndexFrom(index)
	if err != nil {
		return err
	}
'''
new='''	for id, i := range a.mutableElementIndex {
		if i >= index {
			a.mutableElementIndex[id]++
		}
	}

	err := a.root.Insert(a.Storage, a.Address(), index, value)
	if err != nil {
		// Don't need to wrap error as external error because err is already categorized by ArraySlab.Insert().
		return err
	}

	if a.root.IsFull() {
		err = a.splitRoot()
		if err != nil {
			// Don't need to wrap error as external error because err is already categorized by Array.splitRoot().
			return err
		}
	}
'''
assert s.count(old)==1
open(p,'w').write(s.replace(old,new))
