p='array.go'
s=open(p).read()
old='''	if maxInlineSize < wrapperSize {
		maxInlineSize = 0
	} else {
		maxInlineSize -= wrapperSize
	}

	vid := c.ValueID()

	// mutableElementIndex is lazily initialized.'''
new='''	_ = wrapperSize

	vid := c.ValueID()

	// mutableElementIndex is lazily initialized.'''
assert s.count(old)==1
open(p,'w').write(s.replace(old,new))
